#!/usr/bin/env python3
"""Regenerate docs/FINDINGS.md (known/fixed findings with their fix commits) and docs/SEEDED.md
(independently written breaking changes and which part of which check caught them)."""
import glob, json, os, subprocess
V = os.path.dirname(os.path.dirname(os.path.abspath(__file__)))
log = subprocess.run(['git', '-C', '/repo', 'log', '--format=%h %s'], capture_output=True, text=True).stdout.splitlines()
fixes = [(l.split(' ', 1)[0], l.split(' ', 1)[1]) for l in log if l.split(' ', 1)[1].startswith('fix:')]
out = ['# Findings on the pinned tree', '',
       'One line per genuine defect found while building the checks.  `fixed` = repaired by a `fix:` commit in /repo '
       '(suppresses nothing: the check reports it again if it returns); `known` = recorded, the check prints '
       '`KNOWN-FINDING` for it and exits 0.', '', '| property | id | status | fix commit | what fails |', '|---|---|---|---|---|']
used = set()
allf = []
for f in sorted(glob.glob(V + '/known_findings/*.json')):
    prop = os.path.basename(f)[:-5]
    for e in json.load(open(f)):
        h = ''
        c = e.get('commit', '') or ''
        for hh, subj in fixes:
            if c and (subj[:45] in c or c[:45] in subj or c.split(' ', 1)[-1][:45] in subj):
                h = hh; used.add(hh)
        allf.append({'property': prop, **e})
        out.append('| %s | %s | %s | %s | %s |' % (prop, e['id'], e['status'], h, str(e.get('what', '')).replace('|', '/').replace('\n', ' ')[:300]))
out += ['', '## fix: commits in /repo', ''] + ['* `%s` %s' % x for x in reversed(fixes)]
open(V + '/docs/FINDINGS.md', 'w').write('\n'.join(out) + '\n')
json.dump(allf, open(V + '/known_findings.json', 'w'), indent=1)

out = ['# Independently written breaking changes (seeded/)', '',
       'Each was written by a sub-agent that saw only the property text; kept after the integrator confirmed: library test suite '
       'green with the change, demonstration fails with it and passes without it.  `failing input` = the check printed a VIOLATION '
       'with a concrete replay (otherwise `no-failing-input-found`).', '',
       '| seed | property | detected | failing input | what it changes | needs to manifest | check summary |', '|---|---|---|---|---|---|---|']
for d in sorted(glob.glob(V + '/seeded/*/meta.json')):
    m = json.load(open(d))
    c = m.get('confirmed_by_integrator', {})
    out.append('| %s | %s | %s | %s | %s | %s | %s |' % (
        os.path.basename(os.path.dirname(d)), m.get('property'), c.get('check_detected'), c.get('check_gave_failing_input'),
        str(m.get('summary', ''))[:220].replace('|', '/').replace('\n', ' '), str(m.get('needs_to_manifest', ''))[:160].replace('|', '/').replace('\n', ' '),
        str(c.get('check_summary', ''))[:150].replace('|', '/')))
open(V + '/docs/SEEDED.md', 'w').write('\n'.join(out) + '\n')
print('findings:', len(allf), 'fix commits:', len(fixes), 'seeds:', len(glob.glob(V + '/seeded/*/meta.json')))
