"""C10 — a device answers every well-framed request and stays healthy under garbage."""
import collections
from core import Case
import c10_common as C
import c10_dev

PROP = 'C10'
COQ_TARGETS = ['theories/AsapFacts.vo', 'theories/AsapCodecFacts.vo', 'theories/DeviceRxFacts.vo', 'theories/DeviceRxReply.vo',
               'theories/DeviceRxEnd.vo', 'theories/DeviceRxPeer.vo', 'theories/DeviceRxHdr.vo']
COQ_IMPORTS = ('From Bac Require Import Base.\nFrom Bac Require Import Tag.\nFrom Bac Require Import Asap.\nFrom Bac Require Import AsapCodec.\n'
               'From Bac Require SsmWorld.\nFrom Bac Require Import Ssm DeviceRx.')
RULE = ('valid confirmed requests of every supported service (ReadProperty, WriteProperty, ReadPropertyMultiple, SubscribeCOV, '
        'DeviceCommunicationControl, AtomicReadFile/WriteFile, one unsupported and one unknown service) x every truncation, '
        '6 substitutions per parameter octet and 7 insertions per position with the fixed header intact, sent as raw frames to a full '
        'device stack on the virtual LAN; correspondence: the reply (PDU type, reject/abort reason or error class/code) predicted by the '
        'model from the independently observed decode outcome and service outcome vs the reply on the LAN.  direct: exactly one reply '
        'with the invoke ID, no transaction/timer residue, garbage (random octets at network and application layer, corrupted '
        'headers) interleaved with valid requests in one instant, and a valid request afterwards.  non-trivial = the mutated frame '
        'differs from the valid one; distinct by octets.  Device level (kinds dev:*): every third mutated frame and scenario '
        'families (garbage of every layer incl. address-field shapes and network-layer messages interleaved with valid requests, '
        'histories of valid traffic with time passing, routed requests through alternating routers with a planted I-Am-Router, '
        'small max-APDU codes with good/bad segment acks and client aborts, segmented requests in/out of order with duplicates, '
        'abandoned segmented requests followed by the time-outs and the same invoke ID again, same-moment batches [requests that defer follow-up work, a garbage item] in every order handed over as deferred calls and run by bacpypes.core.run_once, routed requests from originators with MAC lengths 1..8, 16, 18, 255 (valid and mutated, behind remote-station and global-broadcast DADRs), a service that never responds with duplicates / client aborts / time passing, a device with communication disabled, every value of the fixed-header fields that leaves the header intact [all 256 invoke IDs incl. 0 and 255 with IDs reused at once from two stations, any second octet = reserved bit / max-segments / max-APDU code, reserved and segmented-response-accepted bits, NPCI priority / expecting-reply bits] on valid and mutated requests): every injected frame is predicted from its raw octets by DeviceRx.device_rx '
        '(frames sent with destination, route, PDU type, invoke ID, reason / error class+code, segmentation; server '
        'transactions, their armed timers, orphan timers after each frame and at quiescence) and compared with the stack.')
TRUSTED = ['model coq/theories/Asap.v + AsapCodec.v = service lookup (registry translated from apdu.py), parameter decoding by the C03 codec model, dispatch and error mapping of ApplicationServiceAccessPoint.indication and Application.indication; '
           'service execution enters the model as an observed outcome (modelled under C15/C16)',
           'the transport half (ServerSSM) is modelled under C04/C12',
           'model coq/theories/DeviceRx.v = hand-written composition (process_npdu of a one-adapter device, SMAP demultiplexing, sap_confirmation, '
           'NSAP.indication for replies) of Npci.dec_npci/dec_msg (C08), RouterCache (C19), Apci.dec_apci (C07), Ssm.s_indication/s_confirmation/'
           's_process_task (C04/C05/C11/C12), AsapCodec.asap_octets (C03 codec); tied by the dev:* correspondence cases',
           'service-layer outcome per frame (helper present, response/exception, ComplexAck parameter length, I-Am cache update) observed by '
           'instance-level wrappers at the helper / ASAP boundary of the device under test (harness/c10_dev.py)']
ASSUMPTIONS = ['replies are observed on the virtual LAN by a bare node with an independent minimal NPDU/APDU parser',
               'link-layer (BVLL) garbage is injected as raw datagrams toward a B/IP device (BIPSimple + AnnexJCodec over a socket-free multiplexer) in the direct check']

INVOKE = 33
REASONS = {'other': 0, 'bufferOverflow': 1, 'inconsistentParameters': 2, 'invalidParameterDatatype': 3, 'invalidTag': 4,
           'missingRequiredParameter': 5, 'parameterOutOfRange': 6, 'tooManyArguments': 7, 'undefinedEnumeration': 8,
           'unrecognizedService': 9}


def _quiet():
    import logging
    logging.disable(logging.CRITICAL)


def canon_reply_frames(replies, invoke):
    """replies on the LAN -> [[type, a, b], ...] for the reply PDU types carrying this invoke id"""
    out = []
    for t, inv, apdu in replies:
        if t not in (2, 3, 5, 6, 7) or inv != invoke:
            continue
        if t == 5:
            # 5x inv svc 91 cls 91 code
            if len(apdu) >= 7 and apdu[3] == 0x91 and apdu[5] == 0x91:
                out.append([5, apdu[4], apdu[6]])
            else:
                out.append([5, 255, 255])
        elif t in (6, 7):
            out.append([t, apdu[2] if len(apdu) > 2 else 255, 0])
        else:
            out.append([t, 0, 0])
    return out


def oracle_inputs(apdu_octets):
    """independent observation of: known service?, decode outcome, helper present?, execution outcome"""
    from bacpypes.apdu import ConfirmedRequestPDU, APDU, confirmed_request_types, SimpleAckPDU, ComplexAckPDU, Error, ErrorPDU
    from bacpypes.pdu import PDU, Address
    from bacpypes.errors import RejectException, AbortException, ExecutionError
    from bacpypes.basetypes import ErrorClass, ErrorCode
    from bacpypes.apdu import RejectReason, AbortReason
    from pyerr import exc_code
    w = C.Device()
    p = PDU(bytes(apdu_octets), source=Address(C.RAW_ADDR), destination=Address(C.DEV_ADDR))
    a = APDU()
    a.decode(p)
    creq = ConfirmedRequestPDU()
    creq.update(a)
    creq.pduData = a.pduData
    atype = confirmed_request_types.get(creq.apduService)
    if not atype:
        return False, ('DOk',), False, ('XSilent',)
    try:
        x = atype()
        x.decode(creq)
        d = ('DOk',)
    except RejectException as e:
        return True, ('DReject', REASONS[e.rejectReason]), True, ('XSilent',)
    except AbortException as e:
        return True, ('DAbort', AbortReason.enumerations[e.abortReason]), True, ('XSilent',)
    except Exception as e:
        return True, ('DExn', exc_code(e)), True, ('XSilent',)
    helper = getattr(w.dev, 'do_' + x.__class__.__name__, None)
    if helper is None:
        return True, d, False, ('XSilent',)
    got = []
    w.dev.response = lambda resp: got.append(resp)
    try:
        helper(x)
    except ExecutionError as e:
        return True, d, True, ('XExecError', ErrorClass.enumerations[e.errorClass], ErrorCode.enumerations[e.errorCode])
    except RejectException as e:
        return True, d, True, ('XReject', REASONS[e.rejectReason])
    except AbortException as e:
        return True, d, True, ('XAbort', AbortReason.enumerations[e.abortReason])
    except Exception as e:
        return True, d, True, ('XExn',)
    if not got:
        return True, d, True, ('XSilent',)
    r = got[0]
    if isinstance(r, SimpleAckPDU):
        return True, d, True, ('XResp', 2, 0, 0)
    if isinstance(r, Error) or isinstance(r, ErrorPDU):
        return True, d, True, ('XResp', 5, ErrorClass.enumerations[r.errorClass], ErrorCode.enumerations[r.errorCode])
    return True, d, True, ('XResp', 3, 0, 0)


ERRNAMES = {1: 'DecodingError', 2: 'InvalidTag', 3: 'MissingRequired', 4: 'InvalidParameterDatatype', 5: 'TooManyArguments',
            6: 'EncodingError', 7: 'ValueErr', 8: 'TypeErr', 9: 'KeyErr', 10: 'IndexErr', 11: 'AttrErr', 12: 'StructErr',
            13: 'OverflowErr', 14: 'NameErr', 15: 'RuntimeErr', 16: 'UnicodeErr', 18: 'OtherErr', 100: 'OtherErr', 200: 'OtherErr'}


def coq_octets(apdu, helper, x):
    """the model decodes the parameter octets itself (C03 codec over the translated registry)"""
    from core import nlist
    h = C.header_len(apdu)
    xs = x[0] if len(x) == 1 else '(' + x[0] + ' ' + ' '.join(str(v) for v in x[1:]) + ')'
    return 'canon_octets %d %s %s %s' % (apdu[h - 1], nlist(list(apdu[h:])), 'true' if helper else 'false', xs)


def canon_dec_out(known, d):
    if not known:
        return [0]
    return {'DOk': [1], 'DReject': [2], 'DAbort': [3], 'DExn': [4]}[d[0]] + list(d[1:])


def coq_of(known, d, helper, x):
    b = lambda v: 'true' if v else 'false'
    if d[0] == 'DExn':
        ds = '(DExn %s)' % ERRNAMES.get(d[1], 'OtherErr')
    elif len(d) > 1:
        ds = '(%s %d)' % d
    else:
        ds = d[0]
    xs = x[0] if len(x) == 1 else '(' + x[0] + ' ' + ' '.join(str(v) for v in x[1:]) + ')'
    return 'canon_replies (asap_confirmed %s %s %s %s)' % (b(known), b(helper), ds, xs)


def run_world(frames, settle=300.0):
    w = C.Device()
    w.inject([C.npdu(f) for f in frames])
    errs = w.settle(settle)
    return w, errs


def ssm_residue(w):
    from bacpypes.appservice import SSM
    tasks = [t for t in w.clock.tm.tasks if isinstance(t[-1], SSM)]
    return len(w.dev.smap.serverTransactions) + len(w.dev.smap.clientTransactions) + len(tasks)


def request_pool(rng):
    reqs = C.valid_requests(rng)
    out = []
    for name, req in reqs:
        out.append((name, C.encode_request(req, INVOKE)))
    # an unknown service choice
    out.append(('unknown-service', bytes([0x00, 0x05, INVOKE, 0x63]) + bytes([0x09, 0x01])))
    return out


DEV_STATS = {}
_POOL = []


def request_pool_static():
    return _POOL[0]


def cases(rng, tier):
    _quiet()
    out, dev = [], []
    DEV_STATS.clear()
    per = 10 ** 9 if tier == 'thorough' else 170
    pool = request_pool(rng)
    _POOL[:] = [pool]
    for name, apdu in pool:
        muts = [('valid', apdu)] + C.mutations(rng, apdu)
        if len(muts) > per:
            head = muts[:1]
            rest = muts[1:]
            rng.shuffle(rest)
            muts = head + rest[:per]
        for how, m in muts:
            w, errs = run_world([m])
            got = canon_reply_frames(w.replies(), INVOKE)
            flat = [len(got)] + [v for r in got for v in r]
            known, d, helper, x = oracle_inputs(m)
            out.append(Case(name, coq_octets(m, helper, x), canon_dec_out(known, d) + flat, key=bytes(m), nontrivial=(how != 'valid'),
                            desc={'request': name, 'mutation': how, 'apdu': bytes(m).hex(),
                                  'decode_outcome': list(d), 'service_outcome': list(x)}))
            # device level: the same frame predicted from its raw octets through every layer (DeviceRx.v)
            if tier == 'thorough' or how == 'valid' or len(out) % 3 == 0:
                c = c10_dev.single_case(name, how, m)
                if c is not None:
                    dev.append(c)
    dev += c10_dev.scenario_cases(rng, tier, request_pool_static(), C.other_confirmed(INVOKE), C.unconfirmed_requests(), DEV_STATS)
    # interleave so that the in-kernel shards are balanced
    merged, k = [], max(1, len(out) // max(1, len(dev)))
    it = iter(dev)
    for i, c in enumerate(out):
        merged.append(c)
        if i % k == k - 1:
            merged.extend([d for d in [next(it, None)] if d is not None])
    merged.extend(it)
    return merged


def direct(rng, tier, focus=()):
    _quiet()
    failures, n, nontriv, samples = [], 0, set(), []
    pool = request_pool(rng)
    clean = {}
    for name, apdu in pool:
        w, _ = run_world([apdu])
        clean[name] = canon_reply_frames(w.replies(), INVOKE)

    def check_single(name, how, m):
        nonlocal n
        n += 1
        w, errs = run_world([m])
        got = canon_reply_frames(w.replies(), INVOKE)
        if len(got) != 1:
            failures.append({'kind': 'not-exactly-one-reply', 'request': name, 'mutation': how, 'apdu': bytes(m).hex(),
                             'replies': got, 'exceptions': [repr(e)[:120] for e in errs[:3]]})
        res = ssm_residue(w)
        if res:
            failures.append({'kind': 'residue', 'request': name, 'mutation': how, 'apdu': bytes(m).hex(), 'residue': res})
        nontriv.add(bytes(m))

    per = 10 ** 9 if tier == 'thorough' else 120
    for name, apdu in pool:
        muts = C.mutations(rng, apdu)
        rng.shuffle(muts)
        for how, m in muts[:per]:
            check_single(name, how, m)
    for d in focus:
        if isinstance(d, dict) and 'apdu' in d:
            check_single(d.get('request'), 'focus', bytes.fromhex(d['apdu']))
    samples.append({'direct': 'single mutated request', 'example': pool[0][1].hex()})

    # garbage interleaved with valid requests in the same instant, then a valid request afterwards
    def garbage(kind):
        if kind == 0:    # random octets as a whole frame (network layer)
            return bytes(rng.randrange(256) for _ in range(rng.randrange(0, 12))), False
        if kind == 1:    # valid NPDU header, random APDU
            return C.npdu(bytes(rng.randrange(256) for _ in range(rng.randrange(0, 12)))), False
        if kind == 2:    # corrupted fixed header of a valid request (any of the first octets)
            name, apdu = rng.choice(pool)
            m = bytearray(apdu)
            k = rng.randrange(min(4, len(m)))
            m[k] = rng.randrange(256)
            if len(m) > 2 and m[2] in (77, 78):      # never collide with the invoke ids of the valid requests
                m[2] = 79
            return C.npdu(bytes(m)), True
        if kind == 3:    # network-layer message / bad version / address fields
            return bytes([rng.choice([0, 1, 2]), rng.randrange(256)]) + bytes(rng.randrange(256) for _ in range(rng.randrange(0, 10))), False
        name, apdu = rng.choice(pool)      # truncated / extended valid frame
        f = C.npdu(apdu)
        return f[:rng.randrange(len(f))], False

    for _ in range(6000 if tier == 'thorough' else 900):
        n += 1
        name, apdu = rng.choice(pool)
        # use a distinct invoke id for the valid one so that corrupted-header garbage (invoke 33) cannot collide
        v = bytearray(apdu); v[2] = 77
        frames, hdr_garbage = [], False
        for _ in range(rng.randrange(1, 5)):
            g, hg = garbage(rng.randrange(5))
            frames.append(_avoid_ids(g)); hdr_garbage = hdr_garbage or hg
        pos = rng.randrange(len(frames) + 1)
        frames.insert(pos, C.npdu(bytes(v)))
        w = C.Device()
        w.inject(frames)
        errs = w.settle(300.0)
        got = canon_reply_frames(w.replies(), 77)
        if got != clean[name]:
            failures.append({'kind': 'valid-request-among-garbage-not-answered-normally', 'request': name,
                             'frames': [f.hex() for f in frames], 'replies': got, 'expected': clean[name]})
        res = ssm_residue(w)
        if res:
            failures.append({'kind': 'residue-after-garbage', 'frames': [f.hex() for f in frames], 'residue': res})
        # afterwards: a valid ReadProperty must be answered correctly
        rp = bytearray(pool[0][1]); rp[2] = 78
        w.raw.frames.clear()
        w.inject([C.npdu(bytes(rp))])
        w.settle(300.0)
        got2 = canon_reply_frames(w.replies(), 78)
        if got2 != [[3, 0, 0]]:
            failures.append({'kind': 'valid-request-after-garbage-not-answered', 'frames': [f.hex() for f in frames], 'replies': got2})
        nontriv.add(tuple(frames))
    samples.append({'direct': 'garbage interleaved with a valid request', 'example': 'random frames + ' + pool[0][1].hex()})

    # histories of well-formed traffic of every kind (unconfirmed requests, unsupported confirmed services,
    # supported ones, routed requests arriving through different routers): every confirmed request must get
    # the reply a fresh device gives it, and a Who-Is its I-Am
    def reply_of(kind_apdu, inv):
        a = bytearray(kind_apdu); a[2] = inv
        w, _ = run_world([bytes(a)])
        return canon_reply_frames(w.replies(), inv)
    others = C.other_confirmed(INVOKE)
    conf_pool = pool + others
    fresh = {name: reply_of(apdu, INVOKE) for name, apdu in conf_pool}
    unconf = C.unconfirmed_requests()
    for _ in range(2500 if tier == 'thorough' else 500):
        n += 1
        w = C.Device()
        script, expect = [], []
        inv = 100
        for step in range(rng.randrange(2, 7)):
            r = rng.random()
            if r < 0.4:
                name, apdu = rng.choice(unconf)
                script.append((name, C.npdu(apdu, False), None))
            else:
                name, apdu = rng.choice(conf_pool)
                a = bytearray(apdu); a[2] = inv
                script.append((name, C.npdu(bytes(a)), inv))
                inv += 1
        for name, frame, iv in script:
            w.raw.frames.clear()
            w.inject([frame])
            w.settle(120.0)
            if iv is not None:
                got = canon_reply_frames(w.replies(), iv)
                want = fresh[name]
                # a stateful service may legitimately answer differently the second time, but never
                # with a different *kind* of refusal for the service itself: compare PDU type, and for
                # rejects the reason
                same = [g[:2] if g[0] in (6, 7) else g[:1] for g in got] == [g[:2] if g[0] in (6, 7) else g[:1] for g in want]
                if not same:
                    failures.append({'kind': 'history-changes-answer', 'request': name, 'history': [(x[0], x[1].hex()) for x in script],
                                     'replies': got, 'fresh_device_replies': want})
                    break
            elif name == 'WhoIs':
                iam = [a for t, i, a in w.replies() if t == 1 and len(a) > 1 and a[1] == 0]
                if not iam:
                    failures.append({'kind': 'whois-not-answered-after-history', 'history': [(x[0], x[1].hex()) for x in script]})
                    break
        if ssm_residue(w):
            failures.append({'kind': 'residue-after-history', 'history': [(x[0], x[1].hex()) for x in script], 'residue': ssm_residue(w)})
        nontriv.add(tuple(x[1] for x in script))
    samples.append({'direct': 'history of valid traffic', 'example': [x[0] for x in script]})

    # routed requests: the same remote client reached through router A, then B, then A again
    rp = pool[0][1]
    from bacpypes.settings import settings as _settings
    _route_aware_before = _settings.route_aware
    for _ in range(300 if tier == 'thorough' else 80):
        n += 1
        # a configuration the library's own tests never vary: route-aware addressing (the source shown to the
        # application then carries the router, and replies take the route-aware branch of the network layer)
        _settings.route_aware = (_ % 2 == 1)
        w = C.Device()
        snet, sadr = rng.choice([5, 6, 700]), bytes([rng.randrange(1, 255)])
        order = [rng.choice([w.raw, w.raw2]) for _ in range(rng.randrange(2, 6))]
        inv = 150
        if rng.random() < 0.5:
            # another station claims to be the router to that network first (I-Am-Router-To-Network, broadcast)
            liar = rng.choice([w.raw, w.raw2])
            liar.send(C.DEV_ADDR, bytes([0x01, 0x80, 0x01, snet >> 8, snet & 255]))
            w.settle(10.0)
        for node in order:
            a = bytearray(rp); a[2] = inv
            w.raw.frames.clear(); w.raw2.frames.clear()
            node.send(C.DEV_ADDR, C.npdu_routed(bytes(a), snet, sadr))
            w.settle(120.0)
            # the reply must come back through the router that delivered this request (the newest knowledge),
            # i.e. be addressed to that node on the LAN
            mine = []
            for src, dst, data in node.frames:
                if src == str(C.DEV_ADDR):
                    r = C.parse_npdu_apdu(data)
                    if r is not None:
                        mine.append(r)
            got = canon_reply_frames(mine, inv)
            if got != [[3, 0, 0]]:
                failures.append({'kind': 'routed-request-not-answered', 'route_aware': _settings.route_aware, 'snet': snet, 'sadr': sadr.hex(),
                                 'routers': [str(x.address) for x in order], 'invoke': inv, 'replies_at_delivering_router': got,
                                 'replies_anywhere': canon_reply_frames(w.replies(both=True), inv)})
                break
            inv += 1
        nontriv.add(('routed', snet, sadr, tuple(str(x.address) for x in order), _settings.route_aware))
    _settings.route_aware = _route_aware_before
    # segmented responses toward a client that acknowledges badly or falls silent: no transaction or timer
    # may survive, and the same invoke ID must be usable afterwards
    from bacpypes.apdu import ReadPropertyMultipleRequest, ReadAccessSpecification, PropertyReference

    def _rpm(obj, props):
        return ReadPropertyMultipleRequest(listOfReadAccessSpecs=[ReadAccessSpecification(
            objectIdentifier=obj, listOfPropertyReferences=[PropertyReference(propertyIdentifier=q) for q in props])])
    # (request, max-APDU code): replies of 2 segments (59 octets at 50; 152 at 128) and of 3-4 segments (152 at 50)
    long_reqs = [(_rpm(('analogValue', 1), ['all']), 0), (_rpm(('device', C.DEV_ADDR), ['all']), 1), (_rpm(('device', C.DEV_ADDR), ['all']), 0),
                 (_rpm(('analogValue', 1), ['objectName', 'presentValue', 'statusFlags', 'units', 'objectIdentifier', 'objectType']), 0)]
    for _ in range(1200 if tier == 'thorough' else 250):
        n += 1
        w = C.Device()
        inv = 90
        long_req, code = rng.choice(long_reqs)
        apdu = C.encode_request(long_req, inv, max_resp_code=code, seg_accepted=True)
        w.inject([C.npdu(apdu)])
        w.settle(0.0)
        script = []
        for _ in range(rng.randrange(0, 4)):
            nak, srv = rng.random() < 0.3, rng.random() < 0.15
            seq, win = rng.choice([0, 0, 1, 1, 2, 3, 255]), rng.choice([0, 1, 2, 2, 4, 127, 128, 255])
            ack = bytes([0x40 | (2 if nak else 0) | (1 if srv else 0), inv, seq, win])
            if rng.random() < 0.2:
                ack = ack[:rng.randrange(1, 4)]
            script.append(ack)
            w.inject([C.npdu(ack, False)])
            w.settle(rng.choice([0.0, 0.0, 1.0, 6.0]))
        errs = w.settle(600.0)
        res = ssm_residue(w)
        if res:
            failures.append({'kind': 'residue-after-segmented-response', 'request': apdu.hex(), 'acks': [a.hex() for a in script], 'residue': res})
        w.raw.frames.clear()
        again = bytearray(C.encode_request(long_req, inv, max_resp_code=5, seg_accepted=False))
        w.inject([C.npdu(bytes(again))])
        w.settle(300.0)
        got = canon_reply_frames(w.replies(), inv)
        if got != [[3, 0, 0]]:
            failures.append({'kind': 'same-invoke-id-unusable-after-segmented-response', 'request': apdu.hex(),
                             'acks': [a.hex() for a in script], 'replies': got})
        nontriv.add(('segresp', apdu, tuple(script)))
    samples.append({'direct': 'segmented response + bad segment acks', 'example': 'ReadPropertyMultiple all, max-APDU 50/128, SA=1: 2-4 segments'})

    # link layer: corrupted / truncated / random BACnet/IP datagrams toward a B/IP device, with a valid
    # Original-Unicast request in the same instant and one afterwards
    import vnet
    from bacpypes.vlan import IPNetwork
    from bacpypes.service.object import ReadWritePropertyServices
    from bacpypes.service.device import WhoIsIAmServices
    from bacpypes.appservice import SSM

    def bvll(fn, payload, length=None):
        ln = len(payload) + 4 if length is None else length
        return bytes([0x81, fn, (ln >> 8) & 255, ln & 255]) + payload
    rp = pool[1][1]          # ReadProperty of the device's objectList[1]: every device has it
    for _ in range(3000 if tier == 'thorough' else 400):
        n += 1
        clock = vnet.VClock(); net = IPNetwork('ip')
        dev = vnet.BIPStack(clock, net, '192.168.1.10/24', 1, services=[WhoIsIAmServices, ReadWritePropertyServices], max_apdu=1476)
        raw = vnet.RawIPNode(net, '192.168.1.20/24')
        frames = []
        for _ in range(rng.randrange(1, 5)):
            k = rng.randrange(6)
            good = bvll(rng.choice([0x0a, 0x0b, 0x04, 0x09]), C.npdu(rng.choice(pool)[1]))
            if k == 0:
                g = bytes(rng.randrange(256) for _ in range(rng.randrange(0, 10)))
            elif k == 1:
                g = bvll(rng.randrange(256), bytes(rng.randrange(256) for _ in range(rng.randrange(0, 8))))
            elif k == 2:
                m = bytearray(good); m[rng.randrange(4)] = rng.randrange(256); g = bytes(m)
            elif k == 3:
                g = good[:rng.randrange(len(good))]
            elif k == 4:
                g = bvll(rng.choice([0, 1, 2, 3, 5, 6, 7, 8]), bytes(rng.randrange(256) for _ in range(rng.choice([0, 2, 6, 10]))))
            else:
                g = good + bytes(rng.randrange(256) for _ in range(rng.randrange(1, 4)))
            # keep garbage away from the invoke ids of the valid requests
            if len(g) > 8 and g[8] in (77, 78):
                g = g[:8] + bytes([79]) + g[9:]
            frames.append(g)
        v = bytearray(rp); v[2] = 77
        frames.insert(rng.randrange(len(frames) + 1), bvll(0x0a, C.npdu(bytes(v))))
        for f in frames:
            raw.send(('192.168.1.10', 47808), f)
        clock.run(300.0)

        def acks(inv):
            out = []
            for s_, d_, x in raw.frames:
                if len(x) >= 4 and x[0] == 0x81 and x[1] == 0x0a:
                    r = C.parse_npdu_apdu(x[4:])
                    if r and r[0] in (2, 3, 5, 6, 7) and r[1] == inv:
                        out.append(r[0])
            return out
        if acks(77) != [3]:
            failures.append({'kind': 'valid-request-among-link-garbage-not-answered', 'datagrams': [f.hex() for f in frames], 'replies': acks(77)})
        v[2] = 78
        raw.send(('192.168.1.10', 47808), bvll(0x0a, C.npdu(bytes(v))))
        clock.run(300.0)
        if acks(78) != [3]:
            failures.append({'kind': 'valid-request-after-link-garbage-not-answered', 'datagrams': [f.hex() for f in frames], 'replies': acks(78)})
        res = len(dev.smap.serverTransactions) + len(dev.smap.clientTransactions) + len([t for t in clock.tm.tasks if isinstance(t[-1], SSM)])
        if res:
            failures.append({'kind': 'residue-after-link-garbage', 'frames': [f[4:].hex() for f in frames if len(f) > 4],
                             'datagrams': [f.hex() for f in frames], 'residue': res})
        nontriv.add(tuple(frames))
    samples.append({'direct': 'BVLL garbage + valid Original-Unicast request', 'example': bvll(0x0a, C.npdu(rp)).hex()})

    # routed requests from originators with a MAC address of every legal length: SLEN 1..8 (MS/TP and ARCNET 1, ZigBee /
    # IPv6 VMAC 3, Ethernet and B/IP 6, LonTalk Neuron ID 7, ...), 16 and 18 (IPv6 forms), 255 (the largest the octet allows).
    # A well-formed request is answered as a fresh device answers the same request from a local station, the answer goes
    # back through the delivering router addressed to SNET/SADR; a request with mutated parameters gets exactly one reply
    # carrying its invoke ID (never silence); nothing is left behind.  Also behind a global-broadcast DADR.
    def _route_of(data):
        if len(data) >= 5 and data[0] == 1 and data[1] & 0x20 and not data[1] & 0x80:
            dl = data[4]
            return (data[2] << 8) | data[3], bytes(data[5:5 + dl])
        return None
    reps = 4 if tier == 'thorough' else 1
    for L in c10_dev.MAC_LENGTHS * reps:
        for name, apdu in pool:
            snet, sadr = rng.choice([1, 5, 6, 700, 65534]), bytes(rng.randrange(256) for _ in range(L))
            gb = rng.random() < 0.2
            variants = [('valid', apdu)] + [rng.choice(C.mutations(rng, apdu, 2)) for _ in range(3)]
            inv = 160
            for how, m in variants:
                n += 1
                w = C.Device()          # a fresh device per frame: a mutated DeviceCommunicationControl may switch it off
                node = rng.choice([w.raw, w.raw2])
                a = bytearray(m); a[2] = inv
                if gb:
                    f = bytes([1, 0x2C, 255, 255, 0, snet >> 8, snet & 255, L]) + sadr + bytes([255]) + bytes(a)
                else:
                    f = C.npdu_routed(bytes(a), snet, sadr)
                node.send(C.DEV_ADDR, f)
                w.settle(120.0)
                mine = [(C.parse_npdu_apdu(data), _route_of(data)) for src, dst, data in node.frames if src == str(C.DEV_ADDR)]
                mine = [(r, rt) for r, rt in mine if r is not None and r[0] in (2, 3, 5, 6, 7) and r[1] == inv]
                got = canon_reply_frames([r for r, rt in mine], inv)
                bad = None
                if how == 'valid' and got != clean[name]:
                    bad = 'routed-request-not-answered-as-a-local-one'
                elif how != 'valid' and len(got) != 1:
                    bad = 'routed-mutated-request-not-exactly-one-reply'
                elif any(rt != (snet, sadr) for r, rt in mine):
                    bad = 'routed-reply-not-addressed-to-the-originator'
                if bad:
                    failures.append({'kind': bad, 'request': name, 'mutation': how, 'slen': L, 'snet': snet, 'sadr': sadr.hex(),
                                     'global_broadcast_dadr': gb, 'frames': [f.hex()], 'router': str(node.address),
                                     'replies_at_delivering_router': got, 'expected_if_valid': clean[name],
                                     'reply_routes': [(rt[0], rt[1].hex()) if rt else None for r, rt in mine],
                                     'replies_anywhere': canon_reply_frames(w.replies(both=True), inv)})
                if ssm_residue(w):
                    failures.append({'kind': 'residue-after-routed-request', 'slen': L, 'frames': [f.hex()], 'residue': ssm_residue(w)})
                inv += 1
                nontriv.add(('routed-maclen', L, f))
    samples.append({'direct': 'routed requests, source MAC lengths 1..8, 16, 18, 255', 'example': C.npdu_routed(pool[0][1], 5, bytes(range(1, 8))).hex()})

    # abandoned segmented requests: the first segment(s) of a segmented confirmed request arrive (SEG=1, MOR=1, sequence
    # numbers from 0) and then the client falls silent.  After the segment time-out and every retry have passed the device
    # keeps no transaction or timer, and a valid request under the same invoke ID from the same station is answered normally
    def seg_frames(apdu, inv, nseg, win):
        svc, params = apdu[3], bytes(apdu[4:])
        step = max(1, len(params) // nseg)
        chunks = [params[i * step:(i + 1) * step] for i in range(nseg - 1)] + [params[(nseg - 1) * step:]]
        return [C.npdu(bytes([0x08 | (0x04 if k < nseg - 1 else 0) | 0x02, apdu[1], inv, k, win, svc]) + c) for k, c in enumerate(chunks)]
    segable = [(name, apdu) for name, apdu in pool if len(apdu) >= 8]
    for _ in range(300 if tier == 'thorough' else 60):
        n += 1
        w = C.Device()
        name, apdu = rng.choice(segable)
        inv = rng.choice([33, 90, 200])
        nseg = rng.choice([2, 3, 3])
        frames = seg_frames(apdu, inv, nseg, rng.choice([1, 2, 4]))
        sent = frames[:1] if rng.random() < 0.7 else frames[:nseg - 1]
        if rng.random() < 0.2:
            sent = sent + sent[-1:]                 # the last one that made it, twice
        for f in sent:
            w.inject([f])
            w.settle(rng.choice([0.0, 0.0, 1.0, 4.0]))
        errs = w.settle(600.0)
        res = ssm_residue(w)
        if res:
            failures.append({'kind': 'residue-after-abandoned-segmented-request', 'request': name, 'frames': [f.hex() for f in sent],
                             'residue': res, 'exceptions': [repr(e)[:120] for e in errs[:3]]})
        again = bytearray(pool[0][1]); again[2] = inv
        w.raw.frames.clear()
        w.inject([C.npdu(bytes(again))])
        w.settle(300.0)
        got = canon_reply_frames(w.replies(), inv)
        if got != [[3, 0, 0]]:
            failures.append({'kind': 'same-invoke-id-unusable-after-abandoned-segmented-request', 'request': name,
                             'frames': [f.hex() for f in sent] + [C.npdu(bytes(again)).hex()], 'replies': got})
        nontriv.add(('abandoned', tuple(sent)))
    samples.append({'direct': 'abandoned segmented request, time-outs, same invoke ID again', 'example': seg_frames(pool[0][1], 33, 2, 2)[0].hex()})

    # traffic queued at the same moment, through the library's own scheduler pass (bacpypes.core.run_once; the virtual LAN's
    # clock elsewhere in this check re-implements that loop): datagrams reach the stack as deferred calls — as
    # UDPDirector.handle_read hands them over — several in one pass: valid requests, some of which defer follow-up work
    # (SubscribeCOV: the initial notification; WriteProperty on a monitored object: the COV notification), and an item that is
    # garbage (most choices raise inside the stack).  Every order.  Oracle: what the device puts on the LAN — replies AND
    # follow-up traffic — is what it puts there when the garbage item is absent.
    import itertools
    import bacpypes.core as _core
    from bacpypes.pdu import PDU as _PDU, Address as _Address

    def run_real(w, seconds):
        target = w.clock.now[0] + seconds
        while True:
            for _ in range(200):
                _core.run_once()
                nd = w.clock.next_due()
                if not _core.deferredFns and (nd is None or nd > w.clock.now[0]):
                    break
            else:
                raise RuntimeError('core.run_once does not settle')
            nd = w.clock.next_due()
            if nd is None or nd > target:
                return
            w.clock.now[0] = max(w.clock.now[0], nd)

    def batch_world(items):
        w = C.Device()
        run_real(w, 0.0)
        w.raw.frames.clear(); w.raw2.frames.clear()
        for src, octets in items:
            _core.deferred(w.dev.node.response, _PDU(bytes(octets), source=_Address(src), destination=_Address(C.DEV_ADDR)))
        run_real(w, 300.0)
        sent = sorted((dst, data.hex()) for node in (w.raw, w.raw2) for s_, dst, data in node.frames if s_ == str(C.DEV_ADDR))
        return w, sent

    byname = dict(pool)

    def valid_item(kind, inv, src):
        a = bytearray(byname[kind]); a[2] = inv
        return (src, C.npdu(bytes(a)))
    raising = [bytes([0x01]), bytes([0x01, 0x04]), bytes([0x01, 0x04, 0x00]), bytes([0x01, 0x04, 0x00, 0x05, 0x21]), bytes([0x01, 0x20, 0x00]),
               bytes([0x01, 0x08, 0xff, 0xff, 0x01, 0x01, 0x10, 0x08]), bytes([0x01, 0x04, 0xf0, 0x00]), bytes([0x01, 0x80]), b'']
    for _ in range(240 if tier == 'thorough' else 48):
        n += 1
        kinds = rng.sample(['SubscribeCOV', 'WriteProperty', 'ReadProperty', 'ReadPropertyMultiple', 'SubscribeCOV-cancel'], rng.randrange(1, 4))
        if _ % 2 == 0 and 'SubscribeCOV' not in kinds:
            kinds[0] = 'SubscribeCOV'
        valid = [valid_item(k, 100 + i, rng.choice([C.RAW_ADDR, C.RAW_ADDR, C.RAW2_ADDR])) for i, k in enumerate(kinds)]
        g = rng.choice(raising) if rng.random() < 0.8 else bytes(rng.randrange(256) for _ in range(rng.randrange(0, 8)))
        g = (rng.choice([C.RAW_ADDR, C.RAW2_ADDR]), _avoid_ids(g))
        orders = list(itertools.permutations(range(len(valid))))
        rng.shuffle(orders)
        for order in orders[:2]:
            base = [valid[i] for i in order]
            w0, want = batch_world(base)
            for pos in range(len(base) + 1):
                batch = base[:pos] + [g] + base[pos:]
                w1, got = batch_world(batch)
                if got != want:
                    missing = [x for x in want if x not in got]
                    extra = [x for x in got if x not in want]
                    failures.append({'kind': 'same-moment-batch-not-processed-as-without-the-garbage-item',
                                     'batch': [(s_, o.hex()) for s_, o in batch], 'garbage_position': pos, 'requests': [kinds[i] for i in order],
                                     'frames_missing': missing[:6], 'frames_not_expected': extra[:6]})
                    break
                if ssm_residue(w1):
                    failures.append({'kind': 'residue-after-same-moment-batch', 'batch': [(s_, o.hex()) for s_, o in batch], 'residue': ssm_residue(w1)})
            nontriv.add(('batch', tuple(base), g))
    samples.append({'direct': 'same-moment batches through bacpypes.core.run_once', 'example': ['SubscribeCOV', 'garbage 01', 'ReadProperty']})

    # every value of every field of the fixed header that leaves the header intact (wave 6): the invoke ID octet 0..255 (0 and
    # 255 are ordinary IDs: other stacks start numbering at 0), the second octet 0..255 (reserved bit, max-segments code,
    # max-APDU code incl. the reserved ones), the low bits of the first octet (reserved bit, segmented-response-accepted) and
    # the NPCI priority / expecting-reply bits.  Every request of the pool, valid and with mutated parameters: exactly one
    # reply carrying the ID of the request, the valid ones answered as under the ID every other family uses; nothing left
    # behind; then IDs reused / mixed on one device.
    def with_hdr(apdu, inv=None, b1=None, b0=None):
        a = bytearray(apdu)
        if inv is not None:
            a[2] = inv
        if b1 is not None:
            a[1] = b1
        if b0 is not None:
            a[0] = (a[0] & 0xFC) | b0
        return bytes(a)

    def hdr_check(name, how, frame, inv, want=None):
        nonlocal n
        n += 1
        w = C.Device()
        w.inject([frame])
        errs = w.settle(300.0)
        got = canon_reply_frames(w.replies(), inv)
        others = [(t, i) for t, i, a in w.replies() if t in (2, 3, 5, 6, 7) and i != inv]
        bad = None
        if len(got) != 1:
            bad = 'not-exactly-one-reply-for-header-field-value'
        elif want is not None and got != want:
            bad = 'answer-depends-on-header-field-value'
        elif others:
            bad = 'reply-under-another-invoke-id'
        if bad:
            failures.append({'kind': bad, 'request': name, 'mutation': how, 'invoke': inv, 'frames': [frame.hex()], 'replies': got,
                             'expected_if_valid': want, 'replies_under_other_ids': others[:4],
                             'exceptions': [repr(e)[:120] for e in errs[:3]]})
        res = ssm_residue(w)
        if res:
            failures.append({'kind': 'residue-after-header-field-value', 'request': name, 'mutation': how, 'invoke': inv,
                             'frames': [frame.hex()], 'residue': res})
        nontriv.add(('hdr', frame))
    edge_ids = [0, 1, 2, 127, 128, 254, 255]
    for name, apdu in pool:
        muts = C.mutations(rng, apdu, 2)
        extra = set(edge_ids + [rng.randrange(256) for _ in range(9)])
        for inv in range(256):
            if tier == 'thorough' or inv in extra or inv % len(pool) == pool.index((name, apdu)) % len(pool) or name == 'ReadProperty':
                hdr_check(name, 'invoke-id', C.npdu(with_hdr(apdu, inv=inv)), inv, clean[name])
            if inv in extra:
                how, m = rng.choice(muts)
                hdr_check(name, how + '+invoke-id', C.npdu(with_hdr(m, inv=inv)), inv)
        for b1 in range(256):
            if tier == 'thorough' or b1 % 16 >= 5 or rng.random() < 0.25:
                inv = rng.choice(edge_ids + [INVOKE])
                # codes 0..4 announce less than the device's 1476 octets: a long answer is aborted instead (segmentation
                # not accepted), still one reply; the reserved codes are answered by Abort
                hdr_check(name, 'octet1=%02x' % b1, C.npdu(with_hdr(apdu, inv=inv, b1=b1)), inv,
                          clean[name] if b1 % 16 == 5 else None)
        for b0 in (1, 2, 3):
            for ctl in (0x00, 0x04, 0x01, 0x06, 0x07):
                inv = rng.choice(edge_ids)
                hdr_check(name, 'octet0|=%d,npci-control=%02x' % (b0, ctl), bytes([1, ctl]) + with_hdr(apdu, inv=inv, b0=b0), inv, clean[name])
    # the same and different IDs one after the other on one device, from one and from two stations
    for _ in range(400 if tier == 'thorough' else 80):
        n += 1
        w = C.Device()
        script = []
        for step in range(rng.randrange(2, 6)):
            name, apdu = rng.choice(pool)
            inv = rng.choice(edge_ids[:3] + edge_ids[-2:])
            node = rng.choice([w.raw, w.raw, w.raw2])
            f = C.npdu(with_hdr(apdu, inv=inv))
            script.append((name, str(node.address), f))
            w.raw.frames.clear(); w.raw2.frames.clear()
            node.send(C.DEV_ADDR, f)
            w.settle(rng.choice([0.0, 0.0, 5.0]))
            mine = [r for r in (C.parse_npdu_apdu(data) for src, dst, data in node.frames if src == str(C.DEV_ADDR)) if r is not None]
            got, want = canon_reply_frames(mine, inv), clean[name]
            if [g[:2] if g[0] in (6, 7) else g[:1] for g in got] != [g[:2] if g[0] in (6, 7) else g[:1] for g in want]:
                failures.append({'kind': 'invoke-id-history-changes-answer', 'request': name, 'invoke': inv,
                                 'history': [(a_, b_, c_.hex()) for a_, b_, c_ in script], 'frames': [c_.hex() for a_, b_, c_ in script],
                                 'replies': got, 'fresh_device_replies': want})
                break
        w.settle(300.0)
        if ssm_residue(w):
            failures.append({'kind': 'residue-after-invoke-id-history', 'frames': [c_.hex() for a_, b_, c_ in script], 'residue': ssm_residue(w)})
        nontriv.add(('hdr-history', tuple(c_ for a_, b_, c_ in script)))
    samples.append({'direct': 'fixed-header field values: invoke ID 0..255, second octet 0..255, low bits of the first, NPCI priority',
                    'example': C.npdu(with_hdr(pool[0][1], inv=0)).hex()})
    return failures, {'evaluations': n, 'distinct_nontrivial': len(nontriv), 'samples': samples, 'device_level_notes': dict(DEV_STATS)}


def _avoid_ids(g):
    """garbage must not impersonate the transactions of the valid requests (invoke IDs 77 / 78, see DESIGN.md section 15):
    random octets that parse as an APDU carrying one of them (e.g. a later segment of a segmented request, answered by an
    Abort with that ID since the first-segment fix) get 79 instead; no random number is consumed"""
    r = C.parse_npdu_apdu(g)
    if r is not None and r[0] != 'netmsg' and r[1] in (77, 78):
        k = len(g) - len(r[2]) + (2 if (r[0] == 0 and len(r[2]) >= 3) else 1)
        g = g[:k] + bytes([79]) + g[k + 1:]
    return g


def _has_reserved_maxapdu(frames_hex):
    for h in frames_hex:
        r = C.parse_npdu_apdu(bytes.fromhex(h))
        if r and r[0] == 0 and len(r[2]) >= 2 and (r[2][1] & 0x0F) >= 6:
            return True
    return False


def classify(f):
    # a confirmed request announcing a reserved max-APDU code (6..15) is appended to the server
    # transaction list before ServerSSM.idle raises on the code: one transaction stays for ever
    if f.get('kind') in ('residue-after-garbage', 'residue-after-link-garbage') and _has_reserved_maxapdu(f.get('frames', [])) and f.get('residue') is not None:
        n = sum(1 for h in f['frames'] if _has_reserved_maxapdu([h]))
        if f['residue'] <= n:
            return 'C10-reserved-maxapdu-code-leak'
    return None


def replay(payload):
    _quiet()
    f = payload.get('failure', {})
    print('replay', f)
    if 'apdu' in f:
        w, errs = run_world([bytes.fromhex(f['apdu'])])
        print('replies on the LAN:', canon_reply_frames(w.replies(), INVOKE), 'residue:', ssm_residue(w), 'exceptions:', errs[:3])
    if 'batch' in f:
        print('same-moment batch (deferred calls, bacpypes.core.run_once):', f['batch'], 'missing:', f.get('frames_missing'), 'not expected:', f.get('frames_not_expected'))
    if 'frames' in f:
        w = C.Device(); w.inject([bytes.fromhex(x) for x in f['frames']]); errs = w.settle(300.0)
        print('replies:', [(t, i) for t, i, _ in w.replies()], 'residue:', ssm_residue(w), 'exceptions:', errs[:3])
