"""C13 — B/IP broadcasts reach every node once; foreign registrations expire on time.

Three layers, all on the real bvllservice.BIPSimple / BIPForeign / BIPBBMD + AnnexJCodec classes:
  * node level  : one B/IP object between two capture objects; inbound frame / API call -> outbound
                  frames, upstream deliveries, SAP deliveries, new state     (model: Bip.v step functions)
  * FDT level   : one BBMD, histories of register / delete / tick, table read back through
                  Read-Foreign-Device-Table frames after every event          (model: Bip.v bbmd_*)
  * network     : vlan.IPNetwork + IPRouter, socket-free multiplexer shim, virtual clock; random layouts
                  and scripts; deliveries + datagrams per step, tables at the end (model: IpNet.v run)
and the implementation-only predicate `direct` (exactly-once / no echo / true source / served window).
"""
import itertools, json, random
from core import Case

PROP = 'C13'
COQ_TARGETS = ['theories/BipFacts.vo', 'theories/IpNetFacts.vo', 'theories/BipDelivFacts.vo', 'theories/BipDelivTie.vo', 'theories/CascadeFacts.vo', 'theories/CascadeStep.vo', 'theories/BipLifeFacts.vo']
COQ_IMPORTS = 'From Bac Require Import Base Bip IpNet BipDeliv.'
RULE = ('node cases: every B/IP node kind x every BVLL function (0..11) x unicast/broadcast arrival x state grid (BDT with/without self, '
        '/32 and /24 masks, FDT 0..3 entries incl. the sender, foreign status -2/-1/0/0x30, matching / non-matching BBMD address, '
        'with/without upper layer) plus the API calls (indication unicast/broadcast, register, unregister, timers); '
        'FDT cases: seeded histories of register(ttl 0..300)/delete/tick/read on one BBMD, table compared after every event; '
        'network cases: seeded layouts of 1..5 subnets behind an IPRouter, 0..1 BBMD and 0..3 ordinary nodes per subnet, 0..4 foreign devices '
        '(TTL 1..300), full (/32 two-hop, /24 one-hop, mixed) and partial BDTs, scripts of broadcasts from every node interleaved with '
        'registration, renewal, expiry (link cut), unregistration, table deletion and Read-FDT probes.  '
        'deliv cases: seeded configurations of 1..8 BBMD subnets, 0..5 ordinary nodes each, 0..6 registered foreign devices, uniform or per-peer mixed entry styles, '
        'full or partial tables: the deliveries of a broadcast from up to 12 origins, implementation vs BipDeliv.broadcast (the semantics of the all-size theorem).  '
        'direct check also: layouts with a foreign device inside a BBMD subnet registered with another subnet\'s BBMD (/32 tables), and expiry-order runs '
        '(2..4 devices on one BBMD stopping 1..4 s apart, table read + broadcast in every second, grace must not depend on other entries), the same node broadcasting identical octets 2..3 times '
        '(same instant / later / other traffic in between; copies counted per broadcast event), and re-registration 0.3..7 s after unregistering or a cable pull '
        '(broadcast + Read-FDT in each following second).  '
        'round 6: long runs (an undisturbed device, TTL 2..45 s incl. non-divisors of 30, watched for 2*(TTL+30)+TTL s with a broadcast to or from it in every second), '
        'same-tick expiry (2..5 entries of one table whose time runs out in the same 1 s tick: registered in one second with one TTL and cut after the same renewal, and/or unregistered in the matching second; '
        'table read + broadcast in every second), tick cases on tables of 2..6 entries with 0..3 s left in every position, same-TTL group histories, and long network scripts (net-long).  '
        'non-trivial = the event produces at least one outbound frame, delivery or state change; distinct by (layer, input).')
TRUSTED = ['models coq/theories/Bip.v (after bvllservice.py:342-1072) and IpNet.v (after vlan.py:28-282) written by hand; tie = correspondence',
           'the harness multiplexer shim (after bvllservice.UDPMultiplexer / tests/test_bvll/helpers.py FauxMultiplexer) replaces UDP sockets',
           'BVLL wire codec (bvll.py, AnnexJCodec) is exercised but is the subject of C09, not modelled here: the model works on decoded messages']
ASSUMPTIONS = ['all B/IP nodes use IPv4 addresses with ports < 65536; TTL and remaining-time fields < 65536 (the wire format truncates them)',
               'virtual clock: datagram delivery takes zero time; harness events never coincide with whole-second ticks',
               'one BBMD per subnet at most; the IPRouter forwards directed broadcasts (vlan.IPRouter rule)']

PORT = 47808
NOW = [0.0]
_TM = [None]


# ------------------------------------------------------------------ virtual clock / task loop
def world_reset():
    """fresh scheduler state on the virtual clock"""
    import bacpypes.task as task
    import bacpypes.core as bcore
    task._time = lambda: NOW[0]
    if _TM[0] is None:
        _TM[0] = task.TaskManager()
    tm = _TM[0]
    tm.tasks[:] = []
    task._unscheduled_tasks[:] = []
    bcore.deferredFns = []
    NOW[0] = 0.0
    return tm


class Watchdog(Exception):
    pass


def run_until(t, max_steps=50000):
    """process every task due up to virtual time t (inclusive), jumping the clock from task to task"""
    import bacpypes.core as bcore
    tm = _TM[0]
    steps = 0
    while True:
        while bcore.deferredFns:
            fns, bcore.deferredFns = bcore.deferredFns, []
            for fn, a, kw in fns:
                fn(*a, **kw)
        if not tm.tasks:
            break
        when = tm.tasks[0][0]
        if when > t:
            break
        if when > NOW[0]:
            NOW[0] = when
        task, _ = tm.get_next_task()
        if task is not None:
            tm.process_task(task)
        steps += 1
        if steps > max_steps:
            raise Watchdog('more than %d tasks before t=%r' % (max_steps, t))
    if t > NOW[0]:
        NOW[0] = t
    return steps


# ------------------------------------------------------------------ addresses
def ip_int(s):
    a, b, c, d = (int(x) for x in s.split('.'))
    return (a << 24) | (b << 16) | (c << 8) | d


def ip_str(n):
    return '%d.%d.%d.%d' % ((n >> 24) & 255, (n >> 16) & 255, (n >> 8) & 255, n & 255)


def mk_addr(ip, plen=32, port=PORT):
    from bacpypes.pdu import Address
    return Address('%s/%d:%d' % (ip_str(ip), plen, port))


def addr_ints(a):
    """(ip, port) of a bacpypes Address holding a 6-octet B/IP address"""
    raw = bytes(a.addrAddr)
    return int.from_bytes(raw[:4], 'big'), int.from_bytes(raw[4:6], 'big')


def mask_of(plen):
    return (0xFFFFFFFF << (32 - plen)) & 0xFFFFFFFF


# ------------------------------------------------------------------ BVLL frames (harness' own codec for observation / injection)
def payload_id(data):
    return int.from_bytes(b'\x01' + bytes(data), 'big')


def payload_bytes(pid):
    raw = pid.to_bytes((pid.bit_length() + 7) // 8, 'big')
    assert raw[:1] == b'\x01'
    return raw[1:]


def frame_canon(data):
    """decode one BVLL datagram into the model's canonical message list (see Bip.v canon_msg)"""
    data = bytes(data)
    if len(data) < 4 or data[0] != 0x81:
        return [99, payload_id(data)]
    fn, body = data[1], data[4:]
    if fn == 0:
        return [0, int.from_bytes(body[:2], 'big')]
    if fn in (1, 3):
        out = [fn, len(body) // 10]
        for i in range(0, len(body) - 9, 10):
            out += [int.from_bytes(body[i:i + 4], 'big'), int.from_bytes(body[i + 4:i + 6], 'big'), int.from_bytes(body[i + 6:i + 10], 'big')]
        return out
    if fn in (2, 6):
        return [fn]
    if fn == 4:
        return [4, int.from_bytes(body[:4], 'big'), int.from_bytes(body[4:6], 'big'), payload_id(body[6:])]
    if fn == 5:
        return [5, int.from_bytes(body[:2], 'big')]
    if fn == 7:
        out = [7, len(body) // 10]
        for i in range(0, len(body) - 9, 10):
            out += [int.from_bytes(body[i:i + 4], 'big'), int.from_bytes(body[i + 4:i + 6], 'big'),
                    int.from_bytes(body[i + 6:i + 8], 'big'), int.from_bytes(body[i + 8:i + 10], 'big')]
        return out
    if fn == 8:
        return [8, int.from_bytes(body[:4], 'big'), int.from_bytes(body[4:6], 'big')]
    if fn in (9, 10, 11):
        return [fn, payload_id(body)]
    return [99, payload_id(data)]


def frame_bytes(msg):
    """inverse of frame_canon for the message tuples the generators use"""
    fn = msg[0]
    if fn == 0:
        body = msg[1].to_bytes(2, 'big')
    elif fn in (1, 3):
        body = b''.join(ip.to_bytes(4, 'big') + port.to_bytes(2, 'big') + mask.to_bytes(4, 'big') for ip, port, mask in msg[1])
    elif fn in (2, 6):
        body = b''
    elif fn == 4:
        body = msg[1].to_bytes(4, 'big') + msg[2].to_bytes(2, 'big') + payload_bytes(msg[3])
    elif fn == 5:
        body = msg[1].to_bytes(2, 'big')
    elif fn == 7:
        body = b''.join(ip.to_bytes(4, 'big') + port.to_bytes(2, 'big') + ttl.to_bytes(2, 'big') + rem.to_bytes(2, 'big')
                        for ip, port, ttl, rem in msg[1])
    elif fn == 8:
        body = msg[1].to_bytes(4, 'big') + msg[2].to_bytes(2, 'big')
    else:
        body = payload_bytes(msg[1])
    return bytes([0x81, fn]) + (len(body) + 4).to_bytes(2, 'big') + body


def coq_msg(msg):
    fn = msg[0]
    if fn == 0: return '(Result %d)' % msg[1]
    if fn == 1: return '(WriteBDT %s)' % coq_bdt(msg[1])
    if fn == 2: return 'ReadBDT'
    if fn == 3: return '(ReadBDTAck %s)' % coq_bdt(msg[1])
    if fn == 4: return '(Forwarded (mkA %d %d) %d)' % (msg[1], msg[2], msg[3])
    if fn == 5: return '(RegisterFD %d)' % msg[1]
    if fn == 6: return 'ReadFDT'
    if fn == 7: return '(ReadFDTAck %s)' % coq_fdt(msg[1])
    if fn == 8: return '(DeleteFDT (mkA %d %d))' % (msg[1], msg[2])
    if fn == 9: return '(Distribute %d)' % msg[1]
    if fn == 10: return '(OrigUnicast %d)' % msg[1]
    if fn == 11: return '(OrigBroadcast %d)' % msg[1]
    raise ValueError(msg)


def coq_bdt(bdt):
    return '[' + ';'.join('mkBdte (mkA %d %d) %d' % (ip, port, mask) for ip, port, mask in bdt) + ']'


def coq_fdt(fdt):
    return '[' + ';'.join('mkFdte (mkA %d %d) %d %d' % (ip, port, ttl, rem) for ip, port, ttl, rem in fdt) + ']'


def coq_dest(d):
    return 'DBcast' if d is None else '(DStation (mkA %d %d))' % d


def coq_opt(x, f=str):
    return 'None' if x is None else '(Some %s)' % f(x)


def coq_addr(a):
    return '(mkA %d %d)' % a


def dest_canon(a):
    """canonical form of a bacpypes destination Address: [0,0,0] local broadcast, [1,ip,port] station"""
    from bacpypes.pdu import Address
    if a.addrType == Address.localBroadcastAddr:
        return [0, 0, 0]
    if a.addrType == Address.localStationAddr and a.addrLen == 6:
        ip, port = addr_ints(a)
        return [1, ip, port]
    return [9, a.addrType, 0]


# ------------------------------------------------------------------ implementation side: shim + capture objects
_CLS = {}


def _classes():
    """build the helper classes lazily (bacpypes must be imported through the guard first)"""
    if _CLS:
        return _CLS
    from bacpypes.comm import Client, Server, ApplicationServiceElement, bind
    from bacpypes.pdu import Address, LocalBroadcast, PDU, unpack_ip_addr
    from bacpypes.vlan import IPNode

    class Mux(Client, Server):
        """socket-free stand-in for UDPMultiplexer (bvllservice.py:57-181): Annex-J only.
        `up` False = cable pulled (nothing sent, nothing received)."""

        def __init__(self, addr, lan):
            Client.__init__(self)
            Server.__init__(self)
            self.address = addr
            self.unicast_tuple = addr.addrTuple
            self.broadcast_tuple = addr.addrBroadcastTuple
            self.node = IPNode(addr, lan)
            bind(self, self.node)
            self.up = True

        def indication(self, pdu):
            if pdu.pduDestination.addrType == Address.localBroadcastAddr:
                dest = self.broadcast_tuple
            elif pdu.pduDestination.addrType == Address.localStationAddr:
                dest = unpack_ip_addr(pdu.pduDestination.addrAddr)
            else:
                raise RuntimeError("invalid destination address type")
            if self.up:
                self.request(PDU(pdu, source=self.unicast_tuple, destination=dest))

        def confirmation(self, pdu):
            if not self.up:
                return
            if pdu.pduSource == self.unicast_tuple:      # "from us"
                return
            src = Address(pdu.pduSource)
            dest = LocalBroadcast() if pdu.pduDestination == self.broadcast_tuple else Address(pdu.pduDestination)
            if not pdu.pduData or pdu.pduData[0] != 0x81:
                return
            self.response(PDU(pdu, source=src, destination=dest))

    class Wire(Server):
        """node-level: what is below the codec; records encoded frames, same destination check as the multiplexer"""

        def __init__(self):
            Server.__init__(self)
            self.sent = []

        def indication(self, pdu):
            d = pdu.pduDestination
            if d.addrType not in (Address.localBroadcastAddr, Address.localStationAddr):
                raise RuntimeError("invalid destination address type")
            self.sent.append([2] + dest_canon(d) + frame_canon(pdu.pduData))

    class Upper(Client):
        """stands for the network layer: records what is handed up"""

        def __init__(self, log, tag=None):
            Client.__init__(self)
            self.log, self.tag = log, tag

        def confirmation(self, pdu):
            ip, port = addr_ints(pdu.pduSource)
            rec = [1, ip, port] + dest_canon(pdu.pduDestination) + [payload_id(pdu.pduData)]
            self.log.append(rec if self.tag is None else (self.tag, rec))

    class Ase(ApplicationServiceElement):
        def __init__(self, log, tag=None):
            ApplicationServiceElement.__init__(self)
            self.log, self.tag = log, tag

        def confirmation(self, pdu):
            ip, port = addr_ints(pdu.pduSource)
            bv = _reencode(pdu)
            rec = [3, ip, port] + frame_canon(bv)
            self.log.append(rec if self.tag is None else (self.tag, rec))

    def _reencode(rpdu):
        from bacpypes.bvll import BVLPDU
        b = BVLPDU()
        rpdu.encode(b)
        p = PDU()
        b.encode(p)
        return bytes(p.pduData)

    _CLS.update(Mux=Mux, Wire=Wire, Upper=Upper, Ase=Ase)
    return _CLS


def np_pdu(payload, dest):
    """the PDU a network layer hands to the B/IP layer; dest None = LocalBroadcast, else (ip, port)"""
    from bacpypes.pdu import PDU, LocalBroadcast, Address
    d = LocalBroadcast() if dest is None else Address((ip_str(dest[0]), dest[1]))
    return PDU(payload_bytes(payload), destination=d)


# ------------------------------------------------------------------ node level drivers
class NodeRig:
    """one B/IP object with the real codec below it, capture objects around it"""

    def __init__(self, kind, upper=True):
        from bacpypes.comm import bind
        from bacpypes.bvllservice import BIPSimple, BIPForeign, BIPBBMD, AnnexJCodec
        C = _classes()
        world_reset()
        self.log = []
        self.wire = C['Wire']()
        self.wire.sent = self.log
        self.kind = kind
        if kind == 'simple':
            self.bip = BIPSimple()
        elif kind == 'foreign':
            self.bip = BIPForeign()
            run_until(0.0)      # the constructor's OneShotFunction(_registration_expired) fires once at creation
        else:
            self.bip = BIPBBMD(mk_addr(*upper_addr_default()))
        self.codec = AnnexJCodec()
        bind(self.bip, self.codec, self.wire)
        if upper:
            self.upper = C['Upper'](self.log)
            bind(self.upper, self.bip)
        self.ase = C['Ase'](self.log)
        bind(self.ase, self.bip)

    def inject(self, src, dest, msg):
        from bacpypes.pdu import PDU, Address, LocalBroadcast
        d = LocalBroadcast() if dest is None else Address((ip_str(dest[0]), dest[1]))
        self.wire.response(PDU(frame_bytes(msg), source=Address((ip_str(src[0]), src[1])), destination=d))

    def actions(self):
        out = [len(self.log)]
        for r in self.log:
            out += r
        return out


def upper_addr_default():
    return (ip_int('10.0.1.2'), 24)


def set_bbmd_state(bip, baddr, bdt, fdt):
    """baddr (ip,port); bdt [(ip,port,mask)]; fdt [(ip,port,ttl,remain)]"""
    from bacpypes.pdu import Address
    from bacpypes.bvll import FDTEntry
    bip.bbmdAddress = Address((ip_str(baddr[0]), baddr[1]))
    bip.bbmdBDT = []
    for ip, port, mask in bdt:
        plen = bin(mask).count('1')
        assert mask_of(plen) == mask
        bip.bbmdBDT.append(Address('%s/%d:%d' % (ip_str(ip), plen, port)))
    bip.bbmdFDT = []
    for ip, port, ttl, rem in fdt:
        e = FDTEntry()
        e.fdAddress, e.fdTTL, e.fdRemain = Address((ip_str(ip), port)), ttl, rem
        bip.bbmdFDT.append(e)


def get_bbmd_state(bip):
    bdt = [len(bip.bbmdBDT)]
    for a in bip.bbmdBDT:
        ip, port = addr_ints(a)
        bdt += [ip, port, a.addrMask]
    fdt = [len(bip.bbmdFDT)]
    for e in bip.bbmdFDT:
        ip, port = addr_ints(e.fdAddress)
        fdt += [ip, port, e.fdTTL, e.fdRemain]
    return bdt + fdt


def ms(t):
    return int(round(t * 1000))


def set_foreign_state(bip, st):
    """st = (status, bbmd (ip,port)|None, ttl|None, renew_ms|None, expire_ms|None)"""
    from bacpypes.pdu import Address
    status, bbmd, ttl, renew, expire = st
    bip.registrationStatus = status
    bip.bbmdAddress = None if bbmd is None else Address((ip_str(bbmd[0]), bbmd[1]))
    bip.bbmdTimeToLive = ttl
    if renew is not None:
        bip.install_task(when=renew / 1000.0)
    if expire is not None:
        bip._registration_timeout_task.install_task(when=expire / 1000.0)


def get_foreign_state(bip):
    if bip.bbmdAddress is None:
        a = [-1, -1]
    else:
        a = list(addr_ints(bip.bbmdAddress))
    t = bip._registration_timeout_task
    return [bip.registrationStatus] + a + [-1 if bip.bbmdTimeToLive is None else bip.bbmdTimeToLive,
                                          ms(bip.taskTime) if bip.isScheduled else -1,
                                          ms(t.taskTime) if t.isScheduled else -1]


def coq_bbmd(baddr, bdt, fdt, upper):
    return '(mkBbmd %s %s %s %s)' % (coq_addr(baddr), coq_bdt(bdt), coq_fdt(fdt), 'true' if upper else 'false')


def coq_foreign(st):
    status, bbmd, ttl, renew, expire = st
    return '(mkForeign (%d) %s %s %s %s)' % (status, coq_opt(bbmd, coq_addr), coq_opt(ttl, lambda z: '(%d)' % z),
                                            coq_opt(renew, lambda z: '(%d)' % z), coq_opt(expire, lambda z: '(%d)' % z))


def run_node(kind, state, event, now_ms=0):
    """run one event on a fresh implementation object; returns the canonical list"""
    from pyerr import exc_code
    rig = NodeRig(kind, upper=(state[3] if kind == 'bbmd' else True))
    bip = rig.bip
    NOW[0] = now_ms / 1000.0
    if kind == 'bbmd':
        set_bbmd_state(bip, state[0], state[1], state[2])
    elif kind == 'foreign':
        set_foreign_state(bip, state)
    try:
        if event[0] == 'conf':
            rig.inject(event[1], event[2], event[3])
        elif event[0] == 'ind':
            bip.indication(np_pdu(event[2], event[1]))
        elif event[0] == 'tick':
            bip.process_task()
        elif event[0] == 'register':
            from bacpypes.pdu import Address
            bip.register(Address((ip_str(event[1][0]), event[1][1])), event[2])
        elif event[0] == 'unregister':
            bip.unregister()
        elif event[0] == 'renew':
            bip.process_task()
        elif event[0] == 'expired':
            bip._registration_expired()
        else:
            raise ValueError(event)
    except Exception as e:
        return [1, exc_code(e)]
    if kind == 'bbmd':
        st = get_bbmd_state(bip)
    elif kind == 'foreign':
        st = get_foreign_state(bip)
    else:
        st = []
    return [0] + st + rig.actions()


def coq_node(kind, state, event, now_ms=0):
    if kind == 'simple':
        if event[0] == 'conf':
            return 'canon_ok (canon_actions (simple_confirmation %s %s %s))' % (coq_addr(event[1]), coq_dest(event[2]), coq_msg(event[3]))
        return 'canon_ok (canon_actions (simple_indication %s %d))' % (coq_dest(event[1]), event[2])
    if kind == 'bbmd':
        B = coq_bbmd(*state)
        if event[0] == 'conf':
            return 'canon_ok (canon_bstep (bbmd_confirmation %s %s %s %s))' % (B, coq_addr(event[1]), coq_dest(event[2]), coq_msg(event[3]))
        if event[0] == 'ind':
            return 'canon_ok (canon_bstep (%s, bbmd_indication %s %s %d))' % (B, B, coq_dest(event[1]), event[2])
        return 'canon_ok (canon_bstep (bbmd_tick %s, []))' % B
    F = coq_foreign(state)
    if event[0] == 'conf':
        return 'canon_res canon_fstep (foreign_confirmation (%d) %s %s %s %s)' % (now_ms, F, coq_addr(event[1]), coq_dest(event[2]), coq_msg(event[3]))
    if event[0] == 'ind':
        return 'canon_res (fun a => canon_fstep (%s, a)) (foreign_indication %s %s %d)' % (F, F, coq_dest(event[1]), event[2])
    if event[0] == 'register':
        return 'canon_res (fun f => canon_fstep (f, [])) (foreign_register %s %s (%d))' % (F, coq_addr(event[1]), event[2])
    if event[0] == 'unregister':
        return 'canon_res canon_fstep (foreign_unregister %s)' % F
    if event[0] == 'renew':
        return 'canon_res canon_fstep (foreign_renew (%d) %s)' % (now_ms, F)
    return 'canon_ok (canon_fstep (foreign_expired %s, []))' % F


def node_case(kind, state, event, now_ms=0, tag=None):
    exp = run_node(kind, state, event, now_ms)
    nontriv = exp[0] == 1 or len(exp) > 2
    return Case('node-%s-%s' % (kind, tag or event[0]), coq_node(kind, state, event, now_ms), exp,
                key=('node', kind, repr(state), repr(event), now_ms), nontrivial=nontriv,
                desc={'layer': 'node', 'kind': kind, 'state': state, 'event': event, 'now_ms': now_ms})


# ------------------------------------------------------------------ node level generators
A = lambda s, port=PORT: (ip_int(s), port)
M32, M24, M16 = 0xFFFFFFFF, 0xFFFFFF00, 0xFFFF0000


def all_msgs(rng, addrs):
    """one message of every BVLL function, fields drawn from the address pool"""
    a = lambda: rng.choice(addrs)
    p = lambda: payload_id(bytes(rng.randrange(256) for _ in range(rng.choice([0, 1, 3, 8]))))
    bdt = [(x[0], x[1], rng.choice([M32, M24, M16])) for x in rng.sample(addrs, rng.randrange(0, 3))]
    fdt = [(x[0], x[1], rng.randrange(0, 400), rng.randrange(0, 400)) for x in rng.sample(addrs, rng.randrange(0, 3))]
    aa = a()
    return [(0, rng.choice([0, 0, 0x10, 0x30, 0x60, 0xFFFF])), (1, bdt), (2,), (3, bdt), (4, aa[0], aa[1], p()),
            (5, rng.choice([0, 1, 30, 300, 65535])), (6,), (7, fdt), (8,) + a(), (9, p()), (10, p()), (11, p())]


def node_cases(rng, tier):
    out = []
    me = A('10.0.1.2')
    pool = [A('10.0.1.2'), A('10.0.1.3'), A('10.0.2.2'), A('10.0.2.9'), A('10.0.3.2'), A('192.168.7.7'), A('10.0.9.9', 47809),
            A('10.0.1.2', 47809), A('255.255.255.255'), A('0.0.0.0', 0)]
    reps = 6 if tier == 'thorough' else 2
    # --- simple
    for _ in range(reps):
        for m in all_msgs(rng, pool):
            for d in (None, me, rng.choice(pool)):
                out.append(node_case('simple', (), ('conf', rng.choice(pool), d, m), tag='f%d' % m[0]))
    for d in (None, me, A('10.0.2.2')):
        out.append(node_case('simple', (), ('ind', d, payload_id(b'\x01\x02'))))
    # --- bbmd
    def bbmd_states():
        peers = [A('10.0.2.2'), A('10.0.3.2'), A('10.0.4.2')]
        sts = []
        for selfin in (True, False):
            for style in ('32', '24', 'mixed', 'empty', 'selfonly'):
                bdt = []
                if style not in ('empty',) and selfin:
                    bdt.append(me + (rng.choice([M32, M24]),))
                if style in ('32', '24', 'mixed'):
                    for i, pa in enumerate(peers[:rng.randrange(1, 4)]):
                        mask = M32 if style == '32' else M24 if style == '24' else rng.choice([M32, M24, M16])
                        bdt.append(pa + (mask,))
                    rng.shuffle(bdt)
                nf = rng.randrange(0, 4)
                fds = rng.sample([A('10.0.9.9'), A('10.0.8.8'), A('10.0.9.9', 47809), A('172.16.0.5')], nf)
                fdt = [(x[0], x[1], t, rng.randrange(1, t + 6)) for x in fds for t in [rng.choice([0, 1, 30, 300])]]
                sts.append((me, bdt, fdt, rng.random() < 0.85))
        return sts
    for _ in range(reps):
        for st in bbmd_states():
            fds = [(e[0], e[1]) for e in st[2]]
            srcs = pool + fds + [(e[0], e[1]) for e in st[1]]
            for m in all_msgs(rng, srcs):
                for d in (None, me):
                    src = rng.choice(fds) if fds and rng.random() < 0.5 else rng.choice(srcs)
                    out.append(node_case('bbmd', st, ('conf', src, d, m), tag='f%d' % m[0]))
            out.append(node_case('bbmd', st, ('ind', None, payload_id(b'\x07'))))
            out.append(node_case('bbmd', st, ('ind', A('10.0.2.7'), payload_id(b'\x07\x08'))))
            out.append(node_case('bbmd', st, ('tick',)))
    # boundary FDT rows for the tick: remain 0,1,2
    for rem in (0, 1, 2, 5, 6):
        st = (me, [], [(A('10.0.9.9') + (30, rem)), (A('10.0.8.8') + (1, 1)), (A('10.0.7.7') + (0, 2))], True)
        out.append(node_case('bbmd', st, ('tick',), tag='tick-boundary'))
    # several entries running out in the same tick, in every position (process_task walks the table while deleting from it)
    devs = [A('10.0.9.%d' % k) for k in range(40, 46)]
    for _ in range(60 if tier == 'thorough' else 20):
        n = rng.randrange(2, 7)
        fdt = [devs[k] + (rng.choice([0, 1, 5, 30]), rng.choice([0, 1, 1, 1, 2, 2, 3])) for k in range(n)]
        out.append(node_case('bbmd', (me, [], fdt, True), ('tick',), tag='tick-multi'))
    # duplicate FDT rows (not reachable, but delete/register scan order is visible on them)
    dup = (me, [], [A('10.0.9.9') + (30, 7), A('10.0.8.8') + (5, 3), A('10.0.9.9') + (60, 50)], True)
    out.append(node_case('bbmd', dup, ('conf', A('10.0.1.9'), me, (8,) + A('10.0.9.9')), tag='dup-delete'))
    out.append(node_case('bbmd', dup, ('conf', A('10.0.9.9'), me, (5, 100)), tag='dup-register'))
    # --- foreign
    bb = A('10.0.1.2')
    def foreign_states():
        sts = []
        for status in (-2, -1, 0, 0x30):
            for bbmd in (bb, None, A('10.0.2.2')):
                ttl = None if bbmd is None else rng.choice([1, 30, 300])
                renew = None if bbmd is None else rng.choice([None, 5500, 30500])
                expire = rng.choice([None, 70500]) if status == 0 else None
                sts.append((status, bbmd, ttl, renew, expire))
        return sts
    for _ in range(reps):
        for st in foreign_states():
            now = rng.choice([500, 1500, 12250])
            for m in all_msgs(rng, pool):
                for d in (None, A('10.0.9.9')):
                    src = bb if rng.random() < 0.6 else rng.choice(pool)
                    out.append(node_case('foreign', st, ('conf', src, d, m), now, tag='f%d' % m[0]))
            out.append(node_case('foreign', st, ('ind', None, payload_id(b'\x09')), now))
            out.append(node_case('foreign', st, ('ind', A('10.0.2.7'), payload_id(b'\x09')), now))
            out.append(node_case('foreign', st, ('register', rng.choice(pool), rng.choice([-1, 0, 1, 30, 300])), now))
            out.append(node_case('foreign', st, ('unregister',), now))
            out.append(node_case('foreign', st, ('renew',), now))
            out.append(node_case('foreign', st, ('expired',), now))
    return out


# ------------------------------------------------------------------ network level: the real classes on vlan.IPNetwork / IPRouter
class Net:
    """layout = {'lans': [(subnet_ip, plen)], 'nodes': [{'lan': i, 'ip': n, 'kind': 'simple'|'bbmd'|'foreign'|'probe',
                 'bdt': [(ip, port, mask)]}]}.  The router owns host .1 of every subnet."""

    def __init__(self, layout):
        from bacpypes.comm import bind, Client
        from bacpypes.vlan import IPNetwork, IPRouter
        from bacpypes.bvllservice import BIPSimple, BIPForeign, BIPBBMD, AnnexJCodec
        C = _classes()
        world_reset()
        self.layout = layout
        self.log = []          # (tag, record) in order of occurrence
        self.frame_times = []  # (virtual ms, frame record) for the direct check's bookkeeping
        self.lans, self.nodes = [], []
        self.router = IPRouter()
        for li, (sub, plen) in enumerate(layout['lans']):
            lan = IPNetwork('L%d' % li)
            lan.traffic_log = (lambda li: lambda name, pdu: self._frame(li, pdu))(li)
            self.router.add_network(mk_addr(sub + 1, plen), lan)
            self.lans.append(lan)
        for ni, nd in enumerate(layout['nodes']):
            sub, plen = layout['lans'][nd['lan']]
            addr = mk_addr(nd['ip'], plen)
            mux = C['Mux'](addr, self.lans[nd['lan']])
            ent = {'mux': mux, 'kind': nd['kind'], 'addr': (nd['ip'], PORT)}
            if nd['kind'] == 'probe':
                sink = Client()
                sink.confirmation = lambda pdu: None
                bind(sink, mux)
                ent['bip'] = None
            else:
                if nd['kind'] == 'simple':
                    bip = BIPSimple()
                elif nd['kind'] == 'foreign':
                    bip = BIPForeign()
                else:
                    bip = BIPBBMD(addr)
                    for ip, port, mask in nd.get('bdt', []):
                        bip.add_peer(mk_addr(ip, bin(mask).count('1'), port))
                up = C['Upper'](self.log, tag=ni)
                ase = C['Ase'](self.log, tag=ni)
                bind(up, bip, AnnexJCodec(), mux)
                bind(ase, bip)
                ent.update(bip=bip, upper=up)
            self.nodes.append(ent)
        run_until(0.0)

    FRAME_CAP = 3000      # datagrams per script item at one instant ...
    FRAME_RATE = 80       # ... plus this many per virtual second the item spans (honest: <= 6 devices renewing every
                          # second, 4 datagrams each incl. the routed copies = 24/s)
    t_item = 0.0

    def _frame(self, li, pdu):
        s, d = pdu.pduSource, pdu.pduDestination
        if len(self.frame_times) > self.FRAME_CAP + self.FRAME_RATE * max(0.0, NOW[0] - self.t_item):
            # a forwarding loop (unbounded traffic at one instant): stop at once instead of waiting for the task watchdog
            _TM[0].tasks[:] = []
            raise Watchdog('%d datagrams within %.1f s of virtual time in one script item' % (len(self.frame_times), NOW[0] - self.t_item))
        self.log.append((None, [2, li, ip_int(s[0]), s[1], ip_int(d[0]), d[1]] + frame_canon(pdu.pduData)))
        self.frame_times.append((ms(NOW[0]), self.log[-1][1]))

    def step(self, T_ms, ev):
        """advance the virtual clock to T, perform the event, run to quiescence; returns the records of this step"""
        from bacpypes.pdu import Address, PDU, LocalBroadcast
        del self.log[:]
        del self.frame_times[:]
        self.t_item = NOW[0]
        run_until(T_ms / 1000.0)
        k = ev[0]
        if k == 'bcast':
            self.nodes[ev[1]]['upper'].request(np_pdu(ev[2], None))
        elif k == 'ucast':
            self.nodes[ev[1]]['upper'].request(np_pdu(ev[3], ev[2]))
        elif k == 'register':
            self.nodes[ev[1]]['bip'].register(Address((ip_str(ev[2][0]), ev[2][1])), ev[3])
        elif k == 'unregister':
            self.nodes[ev[1]]['bip'].unregister()
        elif k == 'link':
            self.nodes[ev[1]]['mux'].up = bool(ev[2])
        elif k == 'inject':
            d = LocalBroadcast() if ev[2] is None else Address((ip_str(ev[2][0]), ev[2][1]))
            self.nodes[ev[1]]['mux'].indication(PDU(frame_bytes(ev[3]), destination=d))
        elif k != 'none':
            raise ValueError(ev)
        run_until(T_ms / 1000.0)
        recs = []
        for tag, r in self.log:
            recs.append(r if tag is None else [1, tag] + r)
        return recs

    def fdt(self, ni):
        return [(addr_ints(e.fdAddress) + (e.fdTTL, e.fdRemain)) for e in self.nodes[ni]['bip'].bbmdFDT]

    def status(self, ni):
        return self.nodes[ni]['bip'].registrationStatus

    def final(self):
        out = [ms(NOW[0])]
        for ent in self.nodes:
            if ent['kind'] == 'simple':
                out += [0]
            elif ent['kind'] == 'bbmd':
                b = ent['bip']
                out += [1, len(b.bbmdFDT)]
                for e in b.bbmdFDT:
                    ip, port = addr_ints(e.fdAddress)
                    out += [ip, port, e.fdTTL, e.fdRemain]
            elif ent['kind'] == 'foreign':
                out += [2] + get_foreign_state(ent['bip'])
            else:
                out += [3]
        return out


def canon_recs_full(recs):
    out = [len(recs)]
    for r in sorted(recs):
        out += [len(r)] + r
    return out


def digest(xs):
    h = 7
    for x in xs:
        h = (h * 1000003 + x + 12345) % 2305843009213693951
    return h


def canon_recs(recs):
    return [len(recs), digest(canon_recs_full(recs))]


def run_net(layout, script, full=False):
    from pyerr import exc_code
    try:
        net = Net(layout)
        out = [0]
        for T, ev in script:
            out += (canon_recs_full if full else canon_recs)(net.step(T, ev))
        return out + net.final()
    except Watchdog:
        return [1, 17]
    except Exception as e:
        return [1, exc_code(e)]


def coq_world(layout):
    lans = '[' + ';'.join('mkLan %d %d %d' % (sub, mask_of(plen), PORT) for sub, plen in layout['lans']) + ']'
    ns = []
    for nd in layout['nodes']:
        a = coq_addr((nd['ip'], PORT))
        if nd['kind'] == 'simple':
            k = 'KSimple'
        elif nd['kind'] == 'probe':
            k = 'KProbe'
        elif nd['kind'] == 'foreign':
            k = '(KForeign (mkForeign (-1) None None None None))'
        else:
            k = '(KBbmd (mkBbmd %s %s [] true))' % (a, coq_bdt(nd.get('bdt', [])))
        ns.append('mkNode %d %s true %s' % (nd['lan'], a, k))
    return '(mkWorld %s [%s] 0)' % (lans, ';'.join(ns))


def coq_event(ev):
    k = ev[0]
    if k == 'bcast': return '(EBcast %d %d)' % (ev[1], ev[2])
    if k == 'ucast': return '(EUcast %d %s %d)' % (ev[1], coq_addr(ev[2]), ev[3])
    if k == 'register': return '(ERegister %d %s (%d))' % (ev[1], coq_addr(ev[2]), ev[3])
    if k == 'unregister': return '(EUnregister %d)' % ev[1]
    if k == 'link': return '(ELink %d %s)' % (ev[1], 'true' if ev[2] else 'false')
    if k == 'inject': return '(EInject %d %s %s)' % (ev[1], coq_opt(ev[2], coq_addr), coq_msg(ev[3]))
    return 'ENone'


def coq_script(script):
    return '[' + ';'.join('(%d, %s)' % (T, coq_event(ev)) for T, ev in script) + ']'


def net_case(layout, script, tag='net'):
    exp = run_net(layout, script)
    return Case(tag, 'canon_run %s %s' % (coq_world(layout), coq_script(script)), exp,
                key=('net', json.dumps(layout, sort_keys=True), repr(script)), nontrivial=len(exp) > 2 + len(script),
                desc={'layer': 'net', 'layout': layout, 'script': script})


# ------------------------------------------------------------------ layouts and scripts
TTLS = [1, 2, 3, 5, 7, 10, 30, 60, 120, 300]


def gen_layout(rng, wf=True, style=None, max_sub=5, partial=False):
    """wf: <=1 BBMD per subnet, full tables, foreign devices only on subnets without a BBMD.
    style: 'two-hop' (/32 entries), 'one-hop' (peer's subnet mask), 'mixed' (per peer), 'partial' (random subsets)."""
    style = 'partial' if partial else style or rng.choice(['two-hop', 'one-hop', 'mixed'] if wf else ['two-hop', 'one-hop', 'mixed', 'partial', 'partial'])
    nsub = rng.randrange(1, max_sub + 1)
    lans, nodes = [], []
    plens = []
    for k in range(nsub):
        plen = rng.choice([24, 24, 24, 25, 16])
        base = ip_int('10.%d.%d.0' % (k + 1, 0 if plen == 16 else k + 1))
        lans.append((base, plen))
    has_bbmd = [rng.random() < 0.65 for _ in range(nsub)]
    nfor = rng.randrange(0, 5)
    if wf and nfor and all(has_bbmd):
        if nsub >= 2 and rng.random() < 0.5:
            has_bbmd[rng.randrange(nsub)] = False
        else:
            lans.append((ip_int('10.200.0.0'), 24))
            has_bbmd.append(False)
            nsub += 1
    if wf and nfor and not any(has_bbmd):
        has_bbmd[rng.randrange(nsub)] = True
        if all(has_bbmd):
            lans.append((ip_int('10.200.0.0'), 24))
            has_bbmd.append(False)
            nsub += 1
    bbmds = []
    for k in range(nsub):
        if has_bbmd[k]:
            nodes.append({'lan': k, 'ip': lans[k][0] + 2, 'kind': 'bbmd', 'bdt': []})
            bbmds.append(len(nodes) - 1)
            if not wf and rng.random() < 0.08:      # a second BBMD on the same subnet (outside the property's domain)
                nodes.append({'lan': k, 'ip': lans[k][0] + 3, 'kind': 'bbmd', 'bdt': []})
                bbmds.append(len(nodes) - 1)
        for j in range(rng.randrange(0, 4)):
            nodes.append({'lan': k, 'ip': lans[k][0] + 10 + j, 'kind': 'simple'})
    for j in range(nfor):
        if wf:
            cands = [k for k in range(nsub) if not has_bbmd[k]]
        else:
            cands = list(range(nsub))
        k = rng.choice(cands)
        nodes.append({'lan': k, 'ip': lans[k][0] + 40 + j, 'kind': 'foreign'})
    # one probe per LAN (raw BVLL sender used for Read-FDT / Delete-FDT-Entry / hand-made registrations)
    for k in range(nsub):
        nodes.append({'lan': k, 'ip': lans[k][0] + 90, 'kind': 'probe'})
    # distribution tables
    for bi in bbmds:
        b = nodes[bi]
        peer_style = {}
        for bj in bbmds:
            o = nodes[bj]
            if style == 'partial' and rng.random() < 0.4:
                continue
            st = style if style in ('two-hop', 'one-hop') else rng.choice(['two-hop', 'one-hop'])
            if bj == bi:
                mask = M32 if st == 'two-hop' else mask_of(lans[o['lan']][1])
            else:
                mask = M32 if st == 'two-hop' else mask_of(lans[o['lan']][1])
            b['bdt'].append((o['ip'], PORT, mask))
        if style != 'partial' or rng.random() < 0.5:
            rng.shuffle(b['bdt'])
    return {'lans': lans, 'nodes': nodes, 'style': style, 'wf': wf}


def consistent_mixed(layout, rng):
    """'used consistently per peer': every BBMD uses the same mask for a given peer"""
    choice = {}
    for nd in layout['nodes']:
        if nd['kind'] == 'bbmd':
            nd['bdt'] = [(ip, port, choice.setdefault(ip, mask)) for ip, port, mask in nd['bdt']]
    return layout


class Times:
    """strictly increasing event instants in ms whose residues mod 1000 are unique and never 0"""

    def __init__(self, rng, lo=100, hi=900):
        self.rng, self.t, self.used, self.lo, self.hi = rng, 0, set(), lo, hi

    def after(self, gap_ms, lo=None, hi=None):
        """an instant at least gap_ms later (rounded to the next free residue)"""
        lo = self.lo if lo is None else lo
        hi = self.hi if hi is None else hi
        free = [r for r in range(lo, hi) if r not in self.used] or [r for r in range(1, 1000) if r not in self.used]
        r = self.rng.choice(free)
        self.used.add(r)
        t = self.t + max(int(gap_ms), 1)
        t = t - (t % 1000) + r + (1000 if (t % 1000) > r else 0)
        self.t = t
        return t


def idx(layout, kind):
    return [i for i, n in enumerate(layout['nodes']) if n['kind'] == kind]


def gen_script(rng, layout, n_events):
    """random history: registrations, broadcasts from every kind of node, time passing, link cuts,
    unregistration, deletion, probes"""
    T = Times(rng)
    nodes = layout['nodes']
    bbmds, fors, probes = idx(layout, 'bbmd'), idx(layout, 'foreign'), idx(layout, 'probe')
    senders = [i for i, n in enumerate(nodes) if n['kind'] != 'probe']
    script = []
    ttl = {}
    pid = [0x1000]

    def payload():
        pid[0] += 1
        return payload_id(pid[0].to_bytes(2, 'big'))
    if bbmds:
        for f in fors:
            if rng.random() < 0.85:
                ttl[f] = rng.choice(TTLS)
                b = nodes[rng.choice(bbmds)]
                script.append((T.after(rng.choice([0, 300, 2000])), ('register', f, (b['ip'], PORT), ttl[f])))
    for _ in range(n_events):
        r = rng.random()
        gap = rng.choice([0, 0, 200, 1000, 3000, 6000, 31000] + ([1000 * (t + d) for t in ttl.values() for d in (-1, 0, 4, 5, 6, 30, 31)] if rng.random() < 0.3 else []))
        t = T.after(gap)
        if r < 0.45 and senders:
            script.append((t, ('bcast', rng.choice(senders), payload())))
        elif r < 0.5 and senders:
            dst = nodes[rng.choice(senders)]
            script.append((t, ('ucast', rng.choice(senders), (dst['ip'], PORT), payload())))
        elif r < 0.6 and fors:
            script.append((t, ('link', rng.choice(fors), rng.random() < 0.5)))
        elif r < 0.66 and fors and bbmds:
            f = rng.choice(fors)
            ttl[f] = rng.choice(TTLS)
            script.append((t, ('register', f, (nodes[rng.choice(bbmds)]['ip'], PORT), ttl[f])))
        elif r < 0.71 and fors:
            script.append((t, ('unregister', rng.choice(fors))))
        elif r < 0.81 and bbmds and probes:
            script.append((t, ('inject', rng.choice(probes), (nodes[rng.choice(bbmds)]['ip'], PORT), (6,))))
        elif r < 0.86 and bbmds and probes and fors:
            script.append((t, ('inject', rng.choice(probes), (nodes[rng.choice(bbmds)]['ip'], PORT), (8, nodes[rng.choice(fors)]['ip'], PORT))))
        elif r < 0.90 and bbmds and probes:
            script.append((t, ('inject', rng.choice(probes), (nodes[rng.choice(bbmds)]['ip'], PORT), (9, payload()))))
        elif r < 0.94 and bbmds and probes:
            script.append((t, ('inject', rng.choice(probes), (nodes[rng.choice(bbmds)]['ip'], PORT), (5, rng.choice([0, 1, 5, 30])))))
        elif r < 0.97 and probes:
            tgt = nodes[rng.choice(senders)] if senders else nodes[0]
            m = rng.choice([(2,), (1, []), (4, ip_int('10.9.9.9'), PORT, payload()), (11, payload()), (10, payload()), (6,), (3, []), (7, [])])
            script.append((t, ('inject', rng.choice(probes), rng.choice([None, (tgt['ip'], PORT)]), m)))
        else:
            script.append((t, ('none',)))
    return split_gaps(script, T)


def split_gaps(script, T, chunk=20000):
    """observation lists are compared per script item: keep them short by cutting long waits into
    items of <= ~20 s (devices with a 1 s TTL renew every second)"""
    out, prev = [], 0
    for t, ev in script:
        while t - prev > chunk + 1000:
            T.t = prev
            prev = T.after(chunk - 1000)
            if prev >= t:
                break
            out.append((prev, ('none',)))
        out.append((t, ev))
        prev = t
    T.t = prev
    # instants must stay strictly increasing
    assert all(a[0] < b[0] for a, b in zip(out, out[1:])), out
    return out


def net_cases(rng, tier):
    out = []
    n = 500 if tier == 'thorough' else 90
    for k in range(n):
        wf = rng.random() < 0.5
        layout = gen_layout(rng, wf=wf, max_sub=5 if rng.random() < 0.6 else 3)
        if wf and layout['style'] == 'mixed':
            consistent_mixed(layout, rng)
        script = gen_script(rng, layout, rng.randrange(6, 22))
        # an unregistered foreign device that receives a Result raises (TypeError): keep those cases, they are compared by class
        out.append(net_case(layout, script, 'net-wf' if wf else 'net-any'))
    # long lives: undisturbed devices through several renewals and beyond first-ack + TTL + 30 s, broadcasts to and from
    # them every few seconds; the devices' two timers are part of the final state
    for k in range(30 if tier == 'thorough' else 8):
        layout = long_layout(rng)
        fors, bbmds = idx(layout, 'foreign'), idx(layout, 'bbmd')
        senders = [i for i, n in enumerate(layout['nodes']) if n['kind'] != 'probe']
        T = Times(rng)
        script, ttls = [], []
        for f in fors:
            ttls.append(rng.choice(LONG_TTLS[:6]))
            script.append((T.after(rng.choice([0, 400])), ('register', f, (layout['nodes'][layout['nodes'][f]['home']]['ip'], PORT), ttls[-1])))
        horizon = T.t + (2 * (max(ttls) + 30) + max(ttls) + 6) * 1000
        pid = 0x5800
        while T.t < horizon:
            pid += 1
            script.append((T.after(rng.choice([900, 1900, 2900, 4700])), ('bcast', rng.choice(fors + [rng.choice(senders)]), payload_id(pid.to_bytes(2, 'big')))))
        out.append(net_case(layout, split_gaps(script, T), 'net-long'))
    return out


LONG_TTLS = [2, 3, 4, 7, 11, 13, 20, 45]


def long_layout(rng):
    """two BBMD subnets (two-hop tables, 1..2 ordinary nodes each), one foreign device on a BBMD-less subnet and, half of
    the time, one more that sits inside BBMD subnet 0 and is registered with BBMD 1"""
    lans = [(ip_int('10.1.1.0'), 24), (ip_int('10.2.2.0'), 24), (ip_int('10.200.0.0'), 24)]
    nodes, bb = [], []
    for i in range(2):
        nodes.append({'lan': i, 'ip': lans[i][0] + 2, 'kind': 'bbmd', 'bdt': []})
        bb.append(len(nodes) - 1)
        for j in range(rng.randrange(1, 3)):
            nodes.append({'lan': i, 'ip': lans[i][0] + 10 + j, 'kind': 'simple'})
    for bi in bb:
        nodes[bi]['bdt'] = [(nodes[bj]['ip'], PORT, M32) for bj in bb]
    nodes.append({'lan': 2, 'ip': lans[2][0] + 40, 'kind': 'foreign', 'home': rng.choice(bb)})
    if rng.random() < 0.5:
        nodes.append({'lan': 0, 'ip': lans[0][0] + 41, 'kind': 'foreign', 'home': bb[1]})
    for i in range(3):
        nodes.append({'lan': i, 'ip': lans[i][0] + 90, 'kind': 'probe'})
    return {'lans': lans, 'nodes': nodes, 'style': 'two-hop', 'wf': True, 'fd_inside': True}


# ------------------------------------------------------------------ FDT level: histories on one BBMD
def run_hist(state, events):
    rig = NodeRig('bbmd', upper=state[3])
    bip = rig.bip
    set_bbmd_state(bip, state[0], state[1], state[2])
    out = [0]
    for ev in events:
        del rig.log[:]
        if ev[0] == 'conf':
            rig.inject(ev[1], ev[2], ev[3])
        elif ev[0] == 'ind':
            bip.indication(np_pdu(ev[2], ev[1]))
        else:
            bip.process_task()
        fdt = [len(bip.bbmdFDT)]
        for e in bip.bbmdFDT:
            ip, port = addr_ints(e.fdAddress)
            fdt += [ip, port, e.fdTTL, e.fdRemain]
        out += fdt + rig.actions()
    return out


def coq_bev(ev):
    if ev[0] == 'conf':
        return '(BConf %s %s %s)' % (coq_addr(ev[1]), coq_dest(ev[2]), coq_msg(ev[3]))
    if ev[0] == 'ind':
        return '(BInd %s %d)' % (coq_dest(ev[1]), ev[2])
    return 'BTick'


def hist_case(state, events, tag='fdt-history'):
    exp = run_hist(state, events)
    return Case(tag, 'canon_ok (canon_hist %s [%s])' % (coq_bbmd(*state), ';'.join(coq_bev(e) for e in events)), exp,
                key=('hist', repr(state), repr(events)), nontrivial=len(events) > 0,
                desc={'layer': 'fdt', 'state': state, 'events': events})


def gen_hist(rng, n):
    me = A('10.0.1.2')
    devs = [A('10.0.9.%d' % k) for k in range(40, 45)] + [A('10.0.9.40', 47809)]
    bdt = rng.choice([[], [me + (M32,)], [me + (M32,), A('10.0.2.2') + (M24,)]])
    st = (me, bdt, [], True)
    evs = []
    for _ in range(n):
        r = rng.random()
        if r < 0.5:
            evs.append(('tick',))
        elif r < 0.75:
            evs.append(('conf', rng.choice(devs), me, (5, rng.choice([0, 1, 2, 3, 5, 10, 30, 300, 65535]))))
        elif r < 0.83:
            evs.append(('conf', A('10.0.1.90'), me, (8,) + rng.choice(devs)))
        elif r < 0.9:
            evs.append(('conf', A('10.0.1.90'), me, (6,)))
        elif r < 0.95:
            evs.append(('conf', rng.choice(devs), me, (9, payload_id(b'\x05'))))
        else:
            evs.append(('ind', None, payload_id(b'\x06')))
    return st, evs


def hist_cases(rng, tier):
    out = []
    for _ in range(400 if tier == 'thorough' else 80):
        st, evs = gen_hist(rng, rng.choice([5, 20, 60]))
        out.append(hist_case(st, evs))
    # the served window, tick by tick: register with ttl T, then T+7 ticks with a read after each
    me = A('10.0.1.2')
    for T in ([0, 1, 2, 5, 30] if tier != 'thorough' else [0, 1, 2, 3, 5, 10, 30, 60, 300]):
        evs = [('conf', A('10.0.9.40'), me, (5, T))]
        for _ in range(T + 7):
            evs += [('tick',), ('conf', A('10.0.1.90'), me, (6,))]
        out.append(hist_case((me, [], [], True), evs, 'fdt-window'))
    # groups of devices whose entries run out in the same tick: same TTL registered between two ticks, or a later
    # registration with a TTL shorter by the number of ticks in between; table read and a broadcast after every tick
    devs = [A('10.0.9.%d' % k) for k in range(40, 46)]
    for _ in range(40 if tier == 'thorough' else 12):
        T = rng.choice([0, 1, 2, 3, 4])
        evs = []
        group = rng.sample(devs, rng.randrange(2, 6))
        lag = 0
        for g in group:
            if lag < T and rng.random() < 0.3:
                evs.append(('tick',))
                lag += 1
            evs.append(('conf', g, me, (5, T - lag)))
        if rng.random() < 0.4:       # a bystander with a longer life in a random position
            evs.insert(rng.randrange(len(evs) + 1), ('conf', A('10.0.9.60'), me, (5, 30)))
        for _k in range(T + 7):
            evs += [('tick',), ('conf', A('10.0.1.90'), me, (6,)), ('conf', A('10.0.1.10'), None, (11, payload_id(b'\x08')))]
        out.append(hist_case((me, [], [], True), evs, 'fdt-sametick'))
    return out


def interleave(groups):
    """spread the expensive cases evenly over the in-kernel shards"""
    groups = [list(g) for g in groups if g]
    total = sum(len(g) for g in groups)
    out, pos = [], [0] * len(groups)
    for k in range(total):
        # pick the group that is most behind its quota
        j = max(range(len(groups)), key=lambda j: (len(groups[j]) * (k + 1) / total) - pos[j] if pos[j] < len(groups[j]) else -1e9)
        out.append(groups[j][pos[j]])
        pos[j] += 1
    return out


def cases(rng, tier):
    return interleave([node_cases(rng, tier), hist_cases(rng, tier), net_cases(rng, tier), deliv_cases(rng, tier)])


# ------------------------------------------------------------------ direct, implementation-only predicate
class Book:
    """Runs a script on the real classes and keeps the facts the property talks about, taken from the
    datagrams seen on the LANs: when each foreign device's registration last reached its BBMD (and with
    which TTL), when it unregistered, when its entry was deleted.  From them the *weakest* verdict per
    device and instant: 'served' (must get broadcasts, must be listed), 'grace' (either), 'out' (must not)."""
    GRACE = 30000

    def __init__(self, layout):
        self.layout = layout
        self.net = Net(layout)
        self.nodes = layout['nodes']
        self.addr2node = {(n['ip'], PORT): i for i, n in enumerate(self.nodes)}
        self.lan_has_bbmd = [any(n['kind'] == 'bbmd' and n['lan'] == k for n in self.nodes) for k in range(len(layout['lans']))]
        self.f = {i: {'last': None, 'bbmd': None, 'link': True, 'continuous': False} for i in idx(layout, 'foreign')}
        self.failures = []
        self.full = layout.get('style') != 'partial' and layout.get('wf', True)
        self.t_last = 0
        self.trace = []

    def fail(self, kind, **kw):
        d = {'kind': kind, 'layout': self.layout, 'script': list(self.trace)}
        d.update(kw)
        self.failures.append(d)

    def step(self, t, ev):
        self.trace.append((t, ev))
        if ev[0] == 'link':
            st = self.f.get(ev[1])
            if st is not None:
                st['link'] = bool(ev[2])
                if not ev[2]:
                    st['continuous'] = False
        recs = self.net.step(t, ev)
        for ft, r in self.net.frame_times:
            if r[6] == 5 or r[6] == 8:
                src, dst = (r[2], r[3]), (r[4], r[5])
                bi = self.addr2node.get(dst)
                if bi is None or self.nodes[bi]['kind'] != 'bbmd' or self.nodes[bi]['lan'] != r[1]:
                    continue
                if r[6] == 5:
                    fi = self.addr2node.get(src)
                    if fi in self.f:
                        self.f[fi]['last'] = ('reg', ft, r[7]) if r[7] > 0 else ('unreg', ft, 0)
                        self.f[fi]['bbmd'] = bi
                else:
                    fi = self.addr2node.get((r[7], r[8]))
                    if fi in self.f and self.f[fi]['bbmd'] == bi and self.f[fi]['last'] is not None:
                        self.f[fi]['last'] = ('deleted', ft, 0)
                        self.f[fi]['continuous'] = False
        if ev[0] == 'register' and self.f[ev[1]]['link']:
            self.f[ev[1]]['continuous'] = True
        if ev[0] == 'unregister':
            self.f[ev[1]]['continuous'] = False
        return recs

    def state(self, fi, t):
        st = self.f[fi]
        if st['last'] is None:
            return 'out'
        kind, t0, ttl = st['last']
        if kind == 'deleted':
            return 'out'
        if kind == 'unreg':
            return 'grace' if t <= t0 + self.GRACE else 'out'
        if st['continuous'] and st['link']:
            return 'served'        # an undisturbed device has to keep itself registered
        if t <= t0 + ttl * 1000:
            return 'served' if st['link'] else 'grace'
        return 'grace' if t <= t0 + ttl * 1000 + self.GRACE else 'out'

    def broadcast(self, t, o, pid):
        """node o broadcasts at t; evaluate exactly-once / no echo / true source / served window"""
        nodes = self.nodes
        self.step(t, ('none',))       # let the clock reach t first (renewals on the way update the bookkeeping)
        before = {fi: self.state(fi, t) for fi in self.f}
        recs = self.step(t, ('bcast', o, pid))
        got = {}
        for r in recs:
            if r[0] == 1 and r[2] == 1 and r[-1] == pid:
                got.setdefault(r[1], []).append(r)
        oaddr = (nodes[o]['ip'], PORT)
        for ni, rs in got.items():
            if ni == o:
                self.fail('echo-to-originator', origin=o, payload=pid)
            if len(rs) > 1:
                self.fail('duplicate-delivery', origin=o, node=ni, copies=len(rs), payload=pid)
            for r in rs:
                if (r[3], r[4]) != oaddr:
                    self.fail('wrong-source', origin=o, node=ni, shown=[r[3], r[4]], payload=pid)
                if r[5:8] != [0, 0, 0]:
                    self.fail('not-a-broadcast-upstream', origin=o, node=ni, payload=pid)
        if not self.full:
            return got
        ok = nodes[o]
        if ok['kind'] == 'foreign':
            ost = before[o] if self.f[o]['link'] else 'down'
            reach = ost == 'served'
            if ost == 'out' and got:
                self.fail('distributed-for-unlisted-device', origin=o, payload=pid, receivers=sorted(got))
        else:
            reach = self.lan_has_bbmd[ok['lan']]
        for ni, nd in enumerate(nodes):
            if ni == o or nd['kind'] == 'probe':
                continue
            c = len(got.get(ni, []))
            if nd['kind'] == 'foreign':
                fs = before[ni]
                if fs == 'out' and c and ok['kind'] != 'foreign':
                    self.fail('served-after-expiry', origin=o, node=ni, payload=pid, at_ms=t, last=self.f[ni]['last'])
                if fs == 'served' and reach and c == 0:
                    self.fail('served-device-missed', origin=o, node=ni, payload=pid, at_ms=t, last=self.f[ni]['last'])
            elif self.lan_has_bbmd[nd['lan']]:
                if reach and c == 0:
                    self.fail('node-missed', origin=o, node=ni, payload=pid, at_ms=t)
            elif nd['lan'] == ok['lan'] and ok['kind'] == 'simple' and nd['kind'] == 'simple' and c == 0:
                self.fail('node-missed', origin=o, node=ni, payload=pid, at_ms=t)
        return got

    def read_tables(self, t, probe, bi):
        """Read-Foreign-Device-Table from a probe; compare the listing with the bookkeeping"""
        b = self.nodes[bi]
        self.step(t, ('none',))
        states = {fi: self.state(fi, t) for fi in self.f}
        recs = self.step(t, ('inject', probe, (b['ip'], PORT), (6,)))
        acks = [r for r in recs if r[0] == 2 and r[6] == 7 and (r[2], r[3]) == (b['ip'], PORT)]
        if not acks:
            self.fail('no-read-fdt-ack', bbmd=bi, at_ms=t)
            return None
        r = acks[0]
        rows = [tuple(r[8 + 4 * k: 12 + 4 * k]) for k in range(r[7])]
        listed = [(ip, port) for ip, port, ttl, rem in rows]
        if len(set(listed)) != len(listed):
            self.fail('fdt-duplicate-entry', bbmd=bi, rows=rows, at_ms=t)
        for fi, st in self.f.items():
            if st['bbmd'] != bi:
                continue
            a = (self.nodes[fi]['ip'], PORT)
            if states[fi] == 'served' and a not in listed:
                self.fail('served-device-not-listed', node=fi, bbmd=bi, at_ms=t, last=st['last'], rows=rows)
            if states[fi] == 'out' and a in listed:
                self.fail('listed-after-expiry', node=fi, bbmd=bi, at_ms=t, last=st['last'], rows=rows)
        return rows


def first_probe(layout, lan=None):
    ps = [i for i in idx(layout, 'probe') if lan is None or layout['nodes'][i]['lan'] == lan]
    return ps[0]


def scen_sweep(rng, layout, stats):
    """every node broadcasts, devices registered; then again at random later instants"""
    bk = Book(layout)
    T = Times(rng)
    nodes = layout['nodes']
    bbmds, fors = idx(layout, 'bbmd'), idx(layout, 'foreign')
    senders = [i for i, n in enumerate(nodes) if n['kind'] != 'probe']
    pid = 0x2000
    home = {}
    if bbmds:
        for f in fors:
            home[f] = nodes[f]['home'] if 'home' in nodes[f] else rng.choice(bbmds)
            bk.step(T.after(rng.choice([0, 500])), ('register', f, (nodes[home[f]]['ip'], PORT), rng.choice(TTLS)))
    for rnd in range(2):
        order = list(senders)
        rng.shuffle(order)
        for o in order:
            pid += 1
            bk.broadcast(T.after(rng.choice([0, 100, 1000, 4000] if rnd == 0 else [0, 3000, 20000, 61000])), o, payload_id(pid.to_bytes(2, 'big')))
            stats['broadcasts'] += 1
        for b in bbmds:
            bk.read_tables(T.after(0), first_probe(layout), b)
    return bk.failures


def scen_lifecycle(rng, layout, stats):
    """registrations, link cuts (expiry), unregistration, re-registration, deletion; broadcasts and table reads at
    random instants and just inside / outside each window"""
    bk = Book(layout)
    T = Times(rng)
    nodes = layout['nodes']
    bbmds, fors = idx(layout, 'bbmd'), idx(layout, 'foreign')
    senders = [i for i, n in enumerate(nodes) if n['kind'] != 'probe']
    if not bbmds or not fors:
        return []
    pid = [0x3000]
    home = {f: rng.choice(bbmds) for f in fors}
    ttl = {}

    def sample(gap):
        pid[0] += 1
        o = rng.choice(senders)
        bk.broadcast(T.after(gap), o, payload_id(pid[0].to_bytes(2, 'big')))
        stats['broadcasts'] += 1
        bk.read_tables(T.after(0), first_probe(layout), home[rng.choice(fors)])
    for f in fors:
        ttl[f] = rng.choice(TTLS)
        bk.step(T.after(rng.choice([0, 700])), ('register', f, (nodes[home[f]]['ip'], PORT), ttl[f]))
    for _ in range(rng.randrange(4, 10)):
        f = rng.choice(fors)
        r = rng.random()
        sample(rng.choice([0, 900, 5000]))
        if r < 0.35:      # pull the cable, watch the window close
            bk.step(T.after(rng.choice([0, 1500, 1000 * ttl[f]])), ('link', f, False))
            last = bk.f[f]['last']
            if last and last[0] == 'reg':
                t_end = last[1] + last[2] * 1000
                if T.t <= t_end - 2100:
                    T.t = t_end - 2100
                    sample(0)                       # still inside the TTL: must be served
                T.t = max(T.t, t_end + Book.GRACE)
                sample(1000)                        # past TTL + grace: must be out
            if rng.random() < 0.7:
                bk.step(T.after(500), ('link', f, True))
                sample(1000 * ttl[f] + 1000)        # it renews by itself once the cable is back
        elif r < 0.55 and bk.net.nodes[f]['bip'].bbmdAddress is not None:
            bk.step(T.after(300), ('unregister', f))
            sample(100)
            sample(Book.GRACE + 1000)
            if rng.random() < 0.7:
                ttl[f] = rng.choice(TTLS)
                bk.step(T.after(200), ('register', f, (nodes[home[f]]['ip'], PORT), ttl[f]))
                sample(300)
        elif r < 0.75:
            bk.step(T.after(300), ('inject', first_probe(layout), (nodes[home[f]]['ip'], PORT), (8, nodes[f]['ip'], PORT)))
            # "stops at once": sample right away, from a node other than the device itself
            pid[0] += 1
            others = [s for s in senders if s != f]
            if others:
                bk.broadcast(T.after(0), rng.choice(others), payload_id(pid[0].to_bytes(2, 'big')))
            bk.read_tables(T.after(0), first_probe(layout), home[f])
        else:
            sample(rng.choice([1000 * ttl[f], 1000 * (ttl[f] + 6), 2500 * ttl[f]]))
    return bk.failures


def scen_renewal(rng, stats, ttl):
    """an undisturbed device stays listed: the table is read twice a second for three periods"""
    layout = {'lans': [(ip_int('10.1.1.0'), 24), (ip_int('10.200.0.0'), 24)], 'style': 'two-hop', 'wf': True,
              'nodes': [{'lan': 0, 'ip': ip_int('10.1.1.2'), 'kind': 'bbmd', 'bdt': [(ip_int('10.1.1.2'), PORT, M32)]},
                        {'lan': 0, 'ip': ip_int('10.1.1.10'), 'kind': 'simple'},
                        {'lan': 1, 'ip': ip_int('10.200.0.40'), 'kind': 'foreign'},
                        {'lan': 0, 'ip': ip_int('10.1.1.90'), 'kind': 'probe'}]}
    bk = Book(layout)
    t0 = rng.randrange(100, 900)
    bk.step(t0, ('register', 2, (ip_int('10.1.1.2'), PORT), ttl))
    horizon = t0 + (3 * ttl + 45) * 1000
    t = t0 - (t0 % 1000)
    k = 0
    while t < horizon:
        t += 1000
        for r in (rng.randrange(1, 40), rng.randrange(960, 999)):
            bk.read_tables(t + r, 3, 0)
            k += 1
        if k % 14 == 0:
            bk.broadcast(t + 999, 1, payload_id((0x4000 + k).to_bytes(2, 'big')))
            stats['broadcasts'] += 1
    return bk.failures


def scen_unlisted(rng, stats):
    """a device the BBMD does not list hands it a Distribute-Broadcast-To-Network"""
    layout = {'lans': [(ip_int('10.1.1.0'), 24), (ip_int('10.200.0.0'), 24)], 'style': 'two-hop', 'wf': True,
              'nodes': [{'lan': 0, 'ip': ip_int('10.1.1.2'), 'kind': 'bbmd', 'bdt': [(ip_int('10.1.1.2'), PORT, M32)]},
                        {'lan': 0, 'ip': ip_int('10.1.1.10'), 'kind': 'simple'},
                        {'lan': 1, 'ip': ip_int('10.200.0.40'), 'kind': 'foreign'},
                        {'lan': 1, 'ip': ip_int('10.200.0.90'), 'kind': 'probe'}]}
    bk = Book(layout)
    pid = payload_id(b'\x50\x01')
    recs = bk.step(rng.randrange(100, 900), ('inject', 3, (ip_int('10.1.1.2'), PORT), (9, pid)))
    got = [r for r in recs if r[0] == 1 and r[2] == 1 and r[-1] == pid]
    if got:
        bk.fail('distribute-accepted-from-unlisted', receivers=sorted(r[1] for r in got), source='never registered')
    return bk.failures


def gen_layout_fd_inside(rng):
    """A legal topology the BBMD-less placement does not cover: a foreign device that physically sits on a subnet
    WITH its own BBMD but is registered with the BBMD of another subnet (the BBMDs list one another with /32
    two-hop entries, so nothing reaches the device's subnet by directed broadcast from its own BBMD's peers).
    Its Distribute-Broadcast comes back to its subnet as a unicast Forwarded-NPDU that the local BBMD re-broadcasts;
    the device itself ignores that copy (not from its BBMD)."""
    k = rng.randrange(2, 5)
    lans, nodes, bb = [], [], []
    for i in range(k):
        lans.append((ip_int('10.%d.%d.0' % (i + 1, i + 1)), 24))
    for i in range(k):
        nodes.append({'lan': i, 'ip': lans[i][0] + 2, 'kind': 'bbmd', 'bdt': []})
        bb.append(len(nodes) - 1)
        for j in range(rng.randrange(1, 4)):
            nodes.append({'lan': i, 'ip': lans[i][0] + 10 + j, 'kind': 'simple'})
    for bi in bb:
        nodes[bi]['bdt'] = [(nodes[bj]['ip'], PORT, M32) for bj in bb]
        rng.shuffle(nodes[bi]['bdt'])
    for j in range(rng.randrange(1, 3)):            # devices inside BBMD subnets, registered elsewhere
        a = rng.randrange(k)
        b = rng.choice([x for x in range(k) if x != a])
        nodes.append({'lan': a, 'ip': lans[a][0] + 40 + j, 'kind': 'foreign', 'home': bb[b]})
    if rng.random() < 0.5:                          # and ordinary foreign devices on a BBMD-less subnet
        lans.append((ip_int('10.200.0.0'), 24))
        for j in range(rng.randrange(1, 3)):
            nodes.append({'lan': k, 'ip': lans[k][0] + 40 + j, 'kind': 'foreign', 'home': rng.choice(bb)})
    for i in range(len(lans)):
        nodes.append({'lan': i, 'ip': lans[i][0] + 90, 'kind': 'probe'})
    return {'lans': lans, 'nodes': nodes, 'style': 'two-hop', 'wf': True, 'fd_inside': True}


def scen_expiry_order(rng, stats):
    """Several foreign devices on one BBMD stop renewing one after the other (unregister or cable pulled, mostly in
    registration order, a few seconds apart).  The table is read and a broadcast is sent in EVERY second until all
    are gone.  Besides the usual window checks: the grace a BBMD grants (ticks an un-renewed entry survives beyond
    its TTL) must be the same for every entry -- it may not depend on what happens to other entries -- and a listed
    device is a served device (a Forwarded-NPDU is addressed to exactly the listed devices)."""
    nf = rng.randrange(2, 5)
    layout = {'lans': [(ip_int('10.1.1.0'), 24), (ip_int('10.200.0.0'), 24)], 'style': 'two-hop', 'wf': True,
              'nodes': [{'lan': 0, 'ip': ip_int('10.1.1.2'), 'kind': 'bbmd', 'bdt': [(ip_int('10.1.1.2'), PORT, M32)]},
                        {'lan': 0, 'ip': ip_int('10.1.1.10'), 'kind': 'simple'}]
                       + [{'lan': 1, 'ip': ip_int('10.200.0.40') + j, 'kind': 'foreign'} for j in range(nf)]
                       + [{'lan': 0, 'ip': ip_int('10.1.1.90'), 'kind': 'probe'}]}
    bk = Book(layout)
    T = Times(rng)
    B = (ip_int('10.1.1.2'), PORT)
    fors = idx(layout, 'foreign')
    probe = idx(layout, 'probe')[0]
    ttl = {}
    for f in fors:
        ttl[f] = rng.choice([1, 2, 3, 5, 8, 13])
        bk.step(T.after(rng.choice([100, 600, 1400])), ('register', f, B, ttl[f]))
    bk.broadcast(T.after(rng.choice([500, 3000, 9000])), 1, payload_id(b'\x70\x00'))
    order = list(fors)
    if rng.random() < 0.3:
        rng.shuffle(order)
    how, stop_at = {}, {}
    sec = 1
    for f in order:
        how[f] = rng.choice(['unregister', 'unregister', 'cut'])
        stop_at[sec] = f
        sec += rng.choice([1, 1, 2, 3, 4])
    # one broadcast and one table read per inter-tick interval, from before the first device stops until all must be gone
    t0 = T.t - (T.t % 1000) + 1000
    first_absent, last_seen = {}, {}
    fd_addrs = {(layout['nodes'][f]['ip'], PORT) for f in fors}
    for i in range(sec + max(ttl.values()) + 40):
        base = t0 + 1000 * i
        if i in stop_at:
            f = stop_at[i]
            bk.step(base + rng.randrange(20, 300), ('unregister', f) if how[f] == 'unregister' else ('link', f, False))
        recs = bk.step(base + rng.randrange(320, 600), ('bcast', 1, payload_id((0x7100 + i).to_bytes(2, 'big'))))
        stats['broadcasts'] += 1
        served = {(r[4], r[5]) for r in recs if r[0] == 2 and r[1] == 0 and r[6] == 4 and (r[2], r[3]) == B}
        t_read = base + rng.randrange(620, 980)
        rows = bk.read_tables(t_read, probe, 0)
        if rows is None:
            continue
        listed = {(ip, port) for ip, port, _t, _r in rows}
        if served & fd_addrs != listed & fd_addrs:
            bk.fail('listed-and-served-differ', at_ms=t_read, listed=sorted(listed), served=sorted(served))
        for f in fors:
            a = (layout['nodes'][f]['ip'], PORT)
            if a in listed:
                last_seen[f] = t_read
                first_absent.pop(f, None)
            elif f not in first_absent:
                first_absent[f] = t_read
    graces = {}
    for f in fors:
        last = bk.f[f]['last']
        if last is None or f not in first_absent or f not in last_seen:
            bk.fail('entry-never-expired' if f in last_seen else 'entry-never-listed', node=f, last=last)
            continue
        kind, t_reg, t_ttl = last
        ticks = first_absent[f] // 1000 - t_reg // 1000        # whole-second ticks the entry survived after its last registration
        graces[f] = ticks - t_ttl
    if len(set(graces.values())) > 1:
        bk.fail('grace-depends-on-other-entries', graces={str(f): g for f, g in graces.items()}, ttl={str(f): bk.f[f]['last'][2] for f in graces},
                stopped={str(f): how[f] for f in fors}, order=order)
    return bk.failures


def scen_repeat(rng, layout, stats):
    """The same node broadcasts the SAME octets two and three times: at one instant, at different instants, with and
    without other traffic in between.  Every one of these broadcasts is a broadcast of its own: the copies are counted per
    broadcast event (each runs to quiescence before the next starts), not per payload."""
    bk = Book(layout)
    T = Times(rng)
    nodes = layout['nodes']
    bbmds, fors = idx(layout, 'bbmd'), idx(layout, 'foreign')
    senders = [i for i, n in enumerate(nodes) if n['kind'] != 'probe']
    if bbmds:
        for f in fors:
            home = nodes[f]['home'] if 'home' in nodes[f] else rng.choice(bbmds)
            bk.step(T.after(rng.choice([0, 500])), ('register', f, (nodes[home]['ip'], PORT), rng.choice([30, 60, 120, 300])))
    k = 0
    for o in rng.sample(senders, min(len(senders), 4)):
        k += 1
        same = payload_id(bytes([0x55, k]) + bytes(rng.randrange(256) for _ in range(rng.choice([0, 2, 6]))))
        t = T.after(rng.choice([200, 1500]))
        bk.broadcast(t, o, same)
        pattern = rng.choice(['instant', 'later', 'instant+later', 'traffic'])
        if pattern in ('instant', 'instant+later'):
            bk.broadcast(t, o, same)                 # again at the very same instant
            stats['broadcasts'] += 1
        if pattern in ('later', 'instant+later'):
            bk.broadcast(T.after(rng.choice([1, 300, 2500, 20000])), o, same)
            stats['broadcasts'] += 1
        if pattern == 'traffic':                     # somebody else broadcasts in between, then the repeat, then once more
            other = rng.choice([x for x in senders if x != o] or [o])
            bk.broadcast(T.after(rng.choice([1, 700])), other, payload_id(bytes([0x56, k])))
            bk.broadcast(T.after(rng.choice([1, 700])), o, same)
            bk.broadcast(T.after(rng.choice([1, 700])), o, same)
            stats['broadcasts'] += 3
        stats['broadcasts'] += 1
        stats['repeated-broadcasts'] += 1
    return bk.failures


def scen_reregister(rng, stats):
    """register -> stop (unregister / cable pulled and restored) -> register again with the same BBMD after 0.3..7 s, same or
    another TTL; a broadcast and a Read-FDT in every second of the following window.  One copy per broadcast at the device,
    one table entry per address."""
    nf = rng.randrange(1, 4)
    layout = {'lans': [(ip_int('10.1.1.0'), 24), (ip_int('10.2.2.0'), 24), (ip_int('10.200.0.0'), 24)], 'style': 'two-hop', 'wf': True,
              'nodes': [{'lan': 0, 'ip': ip_int('10.1.1.2'), 'kind': 'bbmd', 'bdt': [(ip_int('10.1.1.2'), PORT, M32), (ip_int('10.2.2.2'), PORT, M32)]},
                        {'lan': 0, 'ip': ip_int('10.1.1.10'), 'kind': 'simple'},
                        {'lan': 1, 'ip': ip_int('10.2.2.2'), 'kind': 'bbmd', 'bdt': [(ip_int('10.2.2.2'), PORT, M32), (ip_int('10.1.1.2'), PORT, M32)]},
                        {'lan': 1, 'ip': ip_int('10.2.2.10'), 'kind': 'simple'}]
                       + [{'lan': 2, 'ip': ip_int('10.200.0.40') + j, 'kind': 'foreign'} for j in range(nf)]
                       + [{'lan': 0, 'ip': ip_int('10.1.1.90'), 'kind': 'probe'}]}
    bk = Book(layout)
    T = Times(rng)
    nodes = layout['nodes']
    B = (ip_int('10.1.1.2'), PORT)
    fors = idx(layout, 'foreign')
    probe = idx(layout, 'probe')[0]
    senders = [0, 1, 2, 3] + fors
    pid = [0x7800]

    def second(gap):
        pid[0] += 1
        bk.broadcast(T.after(gap), rng.choice(senders), payload_id(pid[0].to_bytes(2, 'big')))
        stats['broadcasts'] += 1
        bk.read_tables(T.after(0), probe, 0)
    for f in fors:
        bk.step(T.after(rng.choice([100, 800])), ('register', f, B, rng.choice([5, 10, 30, 60])))
    second(rng.choice([300, 2000]))
    for _ in range(rng.randrange(1, 4)):
        f = rng.choice(fors)
        how = rng.choice(['unregister', 'unregister', 'cut'])
        if how == 'unregister':
            if bk.net.nodes[f]['bip'].bbmdAddress is None:
                continue
            bk.step(T.after(rng.choice([200, 900])), ('unregister', f))
        else:
            bk.step(T.after(rng.choice([200, 900])), ('link', f, False))
            bk.step(T.after(rng.choice([100, 1200, 3000])), ('link', f, True))
        bk.step(T.after(rng.choice([300, 800, 1500, 2500, 4200, 7000])), ('register', f, B, rng.choice([5, 10, 30, 60])))
        stats['re-registrations'] += 1
        for _i in range(8):                          # every second of the old entry's remaining life and a little beyond
            second(rng.choice([400, 700]))
    return bk.failures


def scen_long_run(rng, stats):
    """An undisturbed foreign device (sometimes a second one inside a BBMD subnet) lives through several renewals: from the
    registration until 2*(TTL+30)+TTL s later there is, in EVERY second, a broadcast to it (from an ordinary node / a BBMD /
    the other device) or from it, and every fifth second a table read.  A device that keeps renewing is served all the time:
    nothing that happened at the first acknowledgement may run out later."""
    layout = long_layout(rng)
    bk = Book(layout)
    T = Times(rng)
    nodes = layout['nodes']
    fors = idx(layout, 'foreign')
    senders = [i for i, n in enumerate(nodes) if n['kind'] != 'probe']
    others = [i for i in senders if i not in fors]
    ttls = []
    for f in fors:
        ttls.append(rng.choice(LONG_TTLS))
        bk.step(T.after(rng.choice([0, 400])), ('register', f, (nodes[nodes[f]['home']]['ip'], PORT), ttls[-1]))
    seconds = 2 * (max(ttls) + 30) + max(ttls) + 8
    pid = 0x5000
    for i in range(seconds):
        pid += 1
        o = rng.choice(fors) if i % 3 == 2 else rng.choice(others)
        bk.broadcast(T.after(rng.choice([700, 1000, 1000, 1300]) if i else 300), o, payload_id(pid.to_bytes(2, 'big')))
        stats['broadcasts'] += 1
        if i % 5 == 4:
            bk.read_tables(T.after(0), first_probe(layout), nodes[rng.choice(fors)]['home'])
    stats['long-run-seconds'] += seconds
    return bk.failures


def scen_same_tick(rng, stats):
    """2..5 entries of ONE table whose time runs out in the SAME 1 s tick: group B registers within one second with one TTL
    and loses its cable right after the same renewal (second R), group A unregisters in second R+TTL (TTL-0 entry, 5 s
    grace) -- all are due at tick R+TTL+5.  A broadcast and a table read in every inter-tick interval around it.  The grace
    the BBMD grants is the same for every entry and listed = served in every interval, whatever their positions in the table."""
    nf = rng.randrange(2, 6)
    layout = {'lans': [(ip_int('10.1.1.0'), 24), (ip_int('10.200.0.0'), 24)], 'style': 'two-hop', 'wf': True,
              'nodes': [{'lan': 0, 'ip': ip_int('10.1.1.2'), 'kind': 'bbmd', 'bdt': [(ip_int('10.1.1.2'), PORT, M32)]},
                        {'lan': 0, 'ip': ip_int('10.1.1.10'), 'kind': 'simple'}]
                       + [{'lan': 1, 'ip': ip_int('10.200.0.40') + j, 'kind': 'foreign'} for j in range(nf)]
                       + [{'lan': 0, 'ip': ip_int('10.1.1.90'), 'kind': 'probe'}]}
    bk = Book(layout)
    B = (ip_int('10.1.1.2'), PORT)
    fors = idx(layout, 'foreign')
    probe = idx(layout, 'probe')[0]
    ttl = rng.choice([1, 2, 3, 5, 8])
    mode = rng.choice(['cut', 'unregister', 'mixed'])
    group = {f: ('cut' if mode == 'cut' else 'unregister' if mode == 'unregister' else rng.choice(['cut', 'unregister'])) for f in fors}
    order = list(fors)
    rng.shuffle(order)                         # table order = registration order
    r0 = rng.randrange(1, 4)
    off = {f: 100 + 37 * k + rng.randrange(0, 30) for k, f in enumerate(order)}      # pairwise different, < 400 ms
    events = []
    for f in order:
        if group[f] == 'cut':
            events.append((r0 * 1000 + off[f], ('register', f, B, ttl)))
        else:
            events.append((rng.randrange(0, r0 + 1) * 1000 + off[f], ('register', f, B, rng.choice([ttl, 7, 30]))))
    R = r0 + ttl * rng.randrange(1, 3)         # the renewal after which group B falls silent
    X = R + ttl                                # the second in which group A unregisters
    for k, f in enumerate(order):
        if group[f] == 'cut':
            events.append((R * 1000 + 700 + 13 * k, ('link', f, False)))
        else:
            events.append((X * 1000 + off[f] + 5, ('unregister', f)))
    # one broadcast (ms 420..600) and one read (ms 620..680) per second, from second 0 until all must be gone
    for sec in range(0, X + 12):
        events.append((sec * 1000 + 420 + rng.randrange(0, 180), ('bcast!', sec)))
        events.append((sec * 1000 + 620 + rng.randrange(0, 60), ('read!', sec)))
    events.sort(key=lambda e: e[0])
    assert len({t for t, _ in events}) == len(events)
    first_absent, last_seen = {}, {}
    fd_addrs = {(layout['nodes'][f]['ip'], PORT) for f in fors}
    served = set()
    for t, ev in events:
        if ev[0] == 'bcast!':
            recs = bk.step(t, ('bcast', 1, payload_id((0x7400 + ev[1]).to_bytes(2, 'big'))))
            stats['broadcasts'] += 1
            served = {(r[4], r[5]) for r in recs if r[0] == 2 and r[1] == 0 and r[6] == 4 and (r[2], r[3]) == B}
        elif ev[0] == 'read!':
            rows = bk.read_tables(t, probe, 0)
            if rows is None:
                continue
            listed = {(ip, port) for ip, port, _t, _r in rows}
            if served & fd_addrs != listed & fd_addrs:
                bk.fail('listed-and-served-differ', at_ms=t, listed=sorted(listed), served=sorted(served))
            for f in fors:
                a = (layout['nodes'][f]['ip'], PORT)
                if a in listed:
                    last_seen[f] = t
                    first_absent.pop(f, None)
                elif f not in first_absent and f in last_seen:
                    first_absent[f] = t
        else:
            bk.step(t, ev)
    graces = {}
    for f in fors:
        last = bk.f[f]['last']
        if last is None or f not in first_absent or f not in last_seen:
            bk.fail('entry-never-expired' if f in last_seen else 'entry-never-listed', node=f, last=last)
            continue
        kind, t_reg, t_ttl = last
        graces[f] = first_absent[f] // 1000 - t_reg // 1000 - t_ttl
    if len(set(graces.values())) > 1:
        bk.fail('grace-depends-on-other-entries', graces={str(f): g for f, g in graces.items()}, ttl={str(f): bk.f[f]['last'][2] for f in graces},
                stopped={str(f): group[f] for f in fors}, order=order, same_tick=True)
    if len(set(first_absent.values())) > 1:
        bk.fail('same-deadline-different-expiry', first_absent_ms={str(f): v for f, v in first_absent.items()}, order=order,
                stopped={str(f): group[f] for f in fors}, ttl=ttl)
    stats['same-tick-entries'] += len(fors)
    return bk.failures


def _guard(fn, failures, stats, what, layout=None):
    """run one scenario; a forwarding loop (watchdog) is a failing input of the termination kind"""
    try:
        failures += fn()
    except Watchdog as e:
        stats['watchdog'] += 1
        failures.append({'kind': 'forwarding-loop', 'scenario': what, 'layout': layout, 'detail': str(e)})


def direct(rng, tier, focus=()):
    import collections, time
    stats = collections.Counter()
    failures = []
    nontriv = 0
    big = tier == 'thorough'
    t_start = time.time()
    budget = 900 if big else 150          # seconds; only ever reached on a broken tree

    def late():
        if time.time() - t_start > budget or len(failures) > 3000:
            stats['cut-short'] += 1
            return True
        return False
    for k in range(400 if big else 60):
        layout = gen_layout(rng, wf=True)
        if layout['style'] == 'mixed':
            consistent_mixed(layout, rng)
        if late():
            break
        _guard(lambda: scen_sweep(rng, layout, stats), failures, stats, 'sweep', layout)
        stats['layouts'] += 1
        stats['style-' + layout['style']] += 1
    for k in range(100 if big else 15):     # partial tables: no duplicates, no echo, true source only
        if late():
            break
        layout = gen_layout(rng, wf=True, partial=True)
        _guard(lambda: scen_sweep(rng, layout, stats), failures, stats, 'sweep-partial', layout)
        stats['layouts-partial'] += 1
    for k in range(300 if big else 50):
        layout = gen_layout(rng, wf=True, max_sub=3)
        if layout['style'] == 'mixed':
            consistent_mixed(layout, rng)
        if late():
            break
        _guard(lambda: scen_lifecycle(rng, layout, stats), failures, stats, 'lifecycle', layout)
        stats['lifecycles'] += 1
    for ttl in ([1, 2, 3, 5, 10, 30, 60] if big else [1, 2, 5, 30]):
        _guard(lambda: scen_renewal(rng, stats, ttl), failures, stats, 'renewal')
        stats['renewal-runs'] += 1
    _guard(lambda: scen_unlisted(rng, stats), failures, stats, 'unlisted')
    for k in range(120 if big else 25):     # foreign device inside a BBMD subnet, registered with another subnet's BBMD
        if late():
            break
        layout = gen_layout_fd_inside(rng)
        _guard(lambda: scen_sweep(rng, layout, stats), failures, stats, 'sweep-fd-inside', layout)
        stats['layouts-fd-inside'] += 1
    for k in range(150 if big else 30):     # identical broadcasts repeated by the same node
        if late():
            break
        layout = gen_layout_fd_inside(rng) if k % 3 == 0 else gen_layout(rng, wf=True, max_sub=4)
        if layout['style'] == 'mixed':
            consistent_mixed(layout, rng)
        _guard(lambda: scen_repeat(rng, layout, stats), failures, stats, 'repeat', layout)
        stats['repeat-layouts'] += 1
    for k in range(120 if big else 25):     # unregister / cable pull, then register again within seconds
        if late():
            break
        _guard(lambda: scen_reregister(rng, stats), failures, stats, 're-register')
        stats['re-register-runs'] += 1
    for k in range(100 if big else 20):     # expiry in every second, several devices on one BBMD
        if late():
            break
        _guard(lambda: scen_expiry_order(rng, stats), failures, stats, 'expiry-order')
        stats['expiry-order-runs'] += 1
    for k in range(40 if big else 8):       # undisturbed devices over several renewal periods, a broadcast in every second
        if late():
            break
        _guard(lambda: scen_long_run(rng, stats), failures, stats, 'long-run')
        stats['long-runs'] += 1
    for k in range(120 if big else 25):     # several entries of one table due in the same tick
        if late():
            break
        _guard(lambda: scen_same_tick(rng, stats), failures, stats, 'same-tick')
        stats['same-tick-runs'] += 1
    for d in list(focus)[:10]:
        if isinstance(d, dict) and d.get('layer') == 'net' and d['layout'].get('wf') and not late():
            _guard(lambda: scen_sweep(rng, d['layout'], stats), failures, stats, 'focus', d['layout'])
    ev = stats['broadcasts'] + stats['renewal-runs']
    return failures, {'evaluations': ev, 'distinct_nontrivial': stats['broadcasts'], 'exhaustive': False,
                      'histogram': dict(stats),
                      'samples': [{'direct': 'broadcast sweep / lifecycle / renewal / unlisted-distribute scenarios on vlan.IPNetwork+IPRouter',
                                   'counts': dict(stats)}]}


def classify(failure):
    k = failure.get('kind')
    if k == 'distribute-accepted-from-unlisted':
        return 'C13-K1'
    if k == 'distributed-for-unlisted-device':
        # the device's entry was deleted / had expired at the BBMD while the device itself still believed it was registered
        return 'C13-K1'
    return None


def replay(payload):
    f = payload.get('failure') or {}
    if not f:
        b = payload.get('broken', [{}])
        f = (b[0].get('minimal_case', {}) or {}).get('desc', {}) if b and isinstance(b[0], dict) else {}
    print('replay', json.dumps(f, default=str)[:2000])
    if f.get('layer') == 'node':
        st = f['state']
        print('implementation:', run_node(f['kind'], tuple(map(_tup, st)) if isinstance(st, list) else st, _tup(f['event']), f.get('now_ms', 0)))
    elif 'layout' in f and 'script' in f:
        script = [(_t, _tup(e)) for _t, e in f['script']]
        print('implementation (full observation lists):', run_net(f['layout'], script, full=True)[:4000])
        import core
        got, err = core.coq_eval(COQ_IMPORTS, 'canon_run_full %s %s' % (coq_world(f['layout']), coq_script(script)))
        print('model:', (got or err)[:4000])


def _tup(x):
    if isinstance(x, list):
        return tuple(_tup(y) for y in x)
    return x


# ------------------------------------------------------------------ delivery-tree semantics (BipDeliv.v) against the implementation
def gen_deliv_layout(rng, big=False):
    """BBMD subnets of any number, ordinary nodes, foreign devices on one BBMD-less subnet; per peer one table-entry
    style; full or partial tables.  Returns (layout, homes)."""
    k = rng.randrange(1, 9 if big else 6)
    lans, nodes = [], []
    style = {}
    for i in range(k):
        plen = rng.choice([24, 24, 25, 16])
        base = ip_int('10.%d.%d.0' % (i + 1, 0 if plen == 16 else i + 1))
        lans.append((base, plen))
    mode = rng.choice(['two-hop', 'one-hop', 'mixed'])
    for i in range(k):
        style[i] = M32 if mode == 'two-hop' or (mode == 'mixed' and rng.random() < 0.5) else mask_of(lans[i][1])
    partial = rng.random() < 0.35
    bb = []
    for i in range(k):
        nodes.append({'lan': i, 'ip': lans[i][0] + 2, 'kind': 'bbmd', 'bdt': []})
        bb.append(len(nodes) - 1)
        for j in range(rng.randrange(0, 6 if big else 4)):
            nodes.append({'lan': i, 'ip': lans[i][0] + 10 + j, 'kind': 'simple'})
    for bi in bb:
        for j, bj in enumerate(bb):
            if partial and rng.random() < 0.4:
                continue
            nodes[bi]['bdt'].append((nodes[bj]['ip'], PORT, style[j]))
        rng.shuffle(nodes[bi]['bdt'])
    lans.append((ip_int('10.200.0.0'), 24))
    homes = {}
    for j in range(rng.randrange(0, 7 if big else 5)):
        nodes.append({'lan': k, 'ip': lans[k][0] + 40 + j, 'kind': 'foreign'})
        homes[len(nodes) - 1] = rng.choice(bb)
    return {'lans': lans, 'nodes': nodes, 'style': 'partial' if partial else mode, 'wf': True}, homes


def coq_acfg(layout, homes):
    """the abstract configuration and the order of its nodes (all_rcvs): per BBMD subnet the BBMD then its ordinary
    nodes, then the foreign devices"""
    nodes, lans = layout['nodes'], layout['lans']
    order, subs, keep = [], [], []
    for i, n in enumerate(nodes):
        if n['kind'] != 'bbmd':
            continue
        sub, plen = lans[n['lan']]
        simples = [j for j, m in enumerate(nodes) if m['kind'] == 'simple' and m['lan'] == n['lan']]
        # the mask its peers list it with (consistent per peer by construction)
        masks = {m for b in nodes if b['kind'] == 'bbmd' for (ip, port, m) in b['bdt'] if ip == n['ip']}
        mask = masks.pop() if masks else M32
        bcast = (sub & mask_of(plen)) | (~mask_of(plen) & 0xFFFFFFFF)
        subs.append('mkSub %s %d %s [%s]' % (coq_addr((n['ip'], PORT)), mask, coq_addr((bcast, PORT)),
                                             ';'.join(coq_addr((nodes[j]['ip'], PORT)) for j in simples)))
        order += [i] + simples
        keep += ['(%s, %s)' % (coq_addr((n['ip'], PORT)), coq_addr((ip, port))) for ip, port, m in n['bdt']]
    fds = []
    for f in sorted(homes):
        fds.append('(%s, %s)' % (coq_addr((nodes[f]['ip'], PORT)), coq_addr((nodes[homes[f]]['ip'], PORT))))
        order.append(f)
    return '(mkAcfg [%s] [%s] (keep_list [%s]))' % (';'.join(subs), ';'.join(fds), ';'.join(keep)), order


def deliv_cases(rng, tier):
    out = []
    big = tier == 'thorough'
    for _ in range(120 if big else 30):
        layout, homes = gen_deliv_layout(rng, big or rng.random() < 0.3)
        expr, order = coq_acfg(layout, homes)
        try:
            net = Net(layout)
            T = Times(rng)
            for f in sorted(homes):
                net.step(T.after(50), ('register', f, (layout['nodes'][homes[f]]['ip'], PORT), 30))
            origins = list(range(len(order)))
            if len(origins) > (12 if big else 6):
                origins = sorted(rng.sample(origins, 12 if big else 6))
            for oi in origins:
                pid = payload_id((0x6000 + oi).to_bytes(2, 'big'))
                recs = net.step(T.after(100), ('bcast', order[oi], pid))
                dl = sorted([layout['nodes'][r[1]]['ip'], PORT] + r[3:5] + r[5:8] + [r[8]] for r in recs if r[0] == 1 and r[2] == 1)
                exp = [1, len(dl)] + [x for d in dl for x in d]
                out.append(Case('deliv-' + layout['style'], 'canon_deliv %s %d %d' % (expr, oi, pid), exp,
                                key=('deliv', json.dumps(layout, sort_keys=True), oi), nontrivial=len(dl) > 0,
                                desc={'layer': 'deliv', 'layout': layout, 'homes': {str(k): v for k, v in homes.items()}, 'origin': order[oi]}))
        except Watchdog:
            out.append(Case('deliv-watchdog', 'canon_deliv %s 0 1' % expr, [1, 17], key=('deliv-wd', expr), desc={'layer': 'deliv', 'layout': layout}))
    return out
