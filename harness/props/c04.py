"""C04 — a confirmed request ends in exactly one outcome, in bounded time, no residue.
Whole-trace correspondence of the world model (Ssm.v + SsmWorld.v) with StateMachineAccessPoint under a scripted
medium, and the direct predicate of the property on the implementation trace."""
import ssm_common as S
import iocb_common as I
import devcache_common as D
from core import Case

PROP = 'C04'
COQ_TARGETS = ['theories/SsmFacts.vo', 'theories/SsmC04.vo', 'theories/SsmC04t.vo', 'theories/SsmC04s.vo', 'theories/SsmC04w.vo', 'theories/SsmC04h.vo', 'theories/SsmC05.vo', 'theories/IocbFacts.vo', 'theories/DevCacheFacts.vo']
COQ_IMPORTS = 'From Bac Require Import Base Iocb Ssm SsmWorld.\nFrom Bac Require DevCache.'
RULE = ('cases: one confirmed request between two nodes (max-APDU 50..206, all 16 segmentation pairs, windows 1..8, retries 0..3, '
        'timeouts 250..3000 ms, payloads around every segment boundary, every kind of answer incl. silence and a slow application) under '
        'no fault, one or two faults (drop, duplicate, delay 125/500/2000 ms, late duplicate) at seeded frame indices or total silence '
        'from a frame on; plus every single fault at every frame of two fixed transfers; plus two or three stations that hold each other\'s device information records (from the start or from an I-Am arriving '
        'mid-history) with overlapping client transactions to one known peer and client + server transactions with the same peer at once, ending by answer / error / abort / time-out in every order; plus IOCB histories on a real ApplicationIOController (1..8 IOCBs over 1..3 addresses, several '
        'queued to one address, requests refused below, acks / errors from below, client aborts, batches of deferred functions) against Iocb.run_ops; plus DeviceInfoCache histories (I-Ams of 4 devices over 4 addresses incl. re-announcements, moves and instance changes, real ClientSSM / ServerSSM created towards known and unknown peers, finished in any order, records upgraded while shared) against DevCache.dc_run.  Compared: every frame (header, length, payload '
        'checksum, APDU length), every application event, every timer expiry (instant, owner, state), exception classes, residue.  '
        'non-trivial = at least one frame on the wire; distinct by scenario.')
TRUSTED = S.TRUSTED
ASSUMPTIONS = S.ASSUMPTIONS + ['IOCB layer: priorities all equal, wait_time = 0, IOCB numbers submitted once; IOChain/IOGroup/ClientController not modelled']


def fixed_grid(rng):
    out = []
    nodes = S.two_nodes(know=True)
    for req in ({'t': 0, 'src': 1, 'dst': 2, 'len': 130, 'service': 12, 'resp': ['complex', 120], 'resp_delay': 0},
                {'t': 0, 'src': 1, 'dst': 2, 'len': 10, 'service': 12, 'resp': ['simple'], 'resp_delay': 0}):
        for spec, fault, base in S.single_fault_family(rng, nodes=nodes, req=req, kinds=('drop', 'dup', 'delay500', 'latedup')):
            out.append(spec)
    return out


def cases(rng, tier):
    out = []
    n = 6000 if tier == 'thorough' else 420
    for i in range(n):
        out.append(S.scenario_case(S.gen_transaction(rng, big=(i % 10 == 0)), 'transaction'))
    for spec in fixed_grid(rng):
        out.append(S.scenario_case(spec, 'single-fault-grid'))
    for _ in range(400 if tier == 'thorough' else 60):
        out.append(S.scenario_case(S.gen_request_tail(rng), 'request-tail'))
    for _ in range(300 if tier == 'thorough' else 40):
        out.append(S.scenario_case(S.gen_concurrent(rng), 'concurrent'))
    # stations that hold each other's device information records and use them in overlapping transactions (both roles)
    for _ in range(400 if tier == 'thorough' else 40):
        out.append(S.scenario_case(S.gen_known_overlap(rng), 'known-peers-overlap'))
    # two faults over every pair of frames of a short segmented transfer (seeded slice in quick)
    nodes = S.two_nodes(know=False, retries=1, apduTimeout=1000, segTimeout=500)
    req = {'t': 0, 'src': 1, 'dst': 2, 'len': 70, 'service': 12, 'resp': ['complex', 70], 'resp_delay': 0}
    pairs = [(i, j) for i in range(8) for j in range(i + 1, 9)]
    if tier != 'thorough':
        pairs = rng.sample(pairs, 12)
    for (i, j) in pairs:
        for ka in ('drop', 'dup'):
            for kb in ('drop', 'delay500'):
                out.append(S.scenario_case({'nodes': nodes, 'requests': [req], 'faults': {i: list(S.FAULT_KINDS[ka]), j: list(S.FAULT_KINDS[kb])}},
                                           'two-fault-grid'))
    for _ in range(1500 if tier == 'thorough' else 250):
        ops, n = I.gen_history(rng) if rng.random() < 0.75 else I.gen_queue_abort(rng)
        exp, det = I.run_history(ops, n)
        out.append(Case('iocb-history', 'Iocb.run_ops %d %s' % (n, I.coq_ops(ops).replace('OSubmit', 'Iocb.OSubmit').replace('OConfirm', 'Iocb.OConfirm').replace('OAbort', 'Iocb.OAbort').replace('ORun', 'Iocb.ORun')),
                        exp, key=('iocb', repr(ops)), nontrivial=any(o[0] == 'submit' for o in ops), desc={'ops': ops, 'n': n}))
    # DeviceInfoCache histories on the real cache and the real ClientSSM / ServerSSM constructors and set_state
    for _ in range(2000 if tier == 'thorough' else 250):
        ops = D.gen_history(rng)
        exp, det = D.run_history(ops)
        out.append(Case('devcache-history', D.coq_ops(ops), exp, key=('devcache', repr(ops)),
                        nontrivial=any(o[0] == 'open' for o in ops) and any(o[0] == 'iam' for o in ops), desc={'dc_ops': ops}))
    return out


def direct(rng, tier, focus=()):
    big = tier == 'thorough'
    fams = [('transaction', lambda r: S.gen_transaction(r, big=r.random() < 0.1), 80000 if big else 2500),
            ('concurrent', lambda r: S.gen_concurrent(r), 3000 if big else 120),
            ('capability', lambda r: S.gen_capability(r), 8000 if big else 300),
            ('request-tail', lambda r: S.gen_request_tail(r), 6000 if big else 600),
            ('bidirectional', lambda r: S.gen_bidirectional(r), 2000 if big else 200),
            ('parked-answers', lambda r: S.gen_park_flush(r), 1000 if big else 100),
            ('known-peers-overlap', lambda r: S.gen_known_overlap(r), 6000 if big else 400)]
    failures, stats = S.direct_families(rng, fams, S.check_c04, focus)
    for spec in fixed_grid(rng):
        tr, fs = S.run_checked(spec, S.check_c04)
        stats['evaluations'] += 1
        for f in fs:
            f['family'] = 'grid'
            f['max_nsegs'] = S.max_transfer_segments(tr)
        failures.extend(fs)
    # the design's long transfers: the sender's window start is kept modulo 256
    for nseg, win in ((258, 3), (300, 8)) if not big else ((258, 3), (300, 8), (600, 8), (257, 1)):
        L = 50 * nseg - 7
        spec = {'nodes': S.two_nodes(cwin=win, swin=win, cmaxsegs=0, smaxsegs=0), 'requests': [{'t': 0, 'src': 1, 'dst': 2, 'len': L, 'service': 12, 'resp': ['simple'], 'resp_delay': 0}]}
        tr, fs = S.run_checked(spec, S.check_c04, max_steps=8000)
        stats['evaluations'] += 1
        for f in fs:
            f['family'] = 'long'
            f['max_nsegs'] = S.max_transfer_segments(tr)
            f['spec'] = spec
        failures.extend(fs)
    nh = 0
    for _ in range(20000 if big else 1500):
        ops, n = I.gen_history(rng) if rng.random() < 0.75 else I.gen_queue_abort(rng)
        fs, det = I.check_drained(ops, n)
        nh += 1
        failures.extend(fs)
    nd = 0
    for _ in range(30000 if big else 2500):
        fs, det = D.check_history(D.gen_history(rng))
        nd += 1
        failures.extend(fs)
    for d in focus or ():
        if isinstance(d, dict) and d.get('dc_ops'):
            failures.extend(D.check_history(d['dc_ops'])[0])
    stats['evaluations'] += nd
    stats['devcache_histories'] = nd
    import core as _core, json as _json
    for e in _core.load_findings('C04'):
        ops = ((e.get('replay') or {}).get('failure') or {}).get('ops')
        if e.get('status') == 'known' and ops:
            fs, det = I.check_drained(ops, 1 + max([o[1] for o in ops if o[0] == 'submit'] + [o[4][0] for o in ops if o[0] == 'submit' and len(o) > 4 and o[4]]))
            failures.extend(fs)
    stats['evaluations'] += nh
    stats['iocb_histories'] = nh
    io_f, io_n = iocb_check(rng, 60 if big else 12)
    failures.extend(io_f)
    stats['evaluations'] += io_n
    stats['iocb_scenarios'] = io_n
    failures.extend(S.known_replays('C04', S.check_c04))
    return failures, stats


def classify(f):
    k = f.get('kind')
    if k == 'exception' and f.get('class') == 'RuntimeError' and f.get('where') in ('rx', 'respond'):
        if str(f.get('msg', '')).startswith('invalid APDU ('):
            return 'C04-K1'
    if k == 'exception' and f.get('class') == 'RuntimeError' and f.get('where') in ('rx', 'timer'):
        if str(f.get('msg', '')).startswith('invalid segment number'):
            return 'C04-K2'
    if k == 'iocb-answer-for-other-request' and f.get('active_request_aborted_to_this_peer'):
        # known: after a client-side abort of the active IOCB the next one is started while the aborted request's
        # transaction is still open below; its late answer is matched by address only
        return 'C04-K4'
    if k in ('livelock', 'no-outcome', 'residue-transactions', 'residue-timers', 'multiple-outcomes') and f.get('max_nsegs', 0) > 256:
        return 'C04-K3'
    return None


def replay(payload):
    f = payload.get('failure') or {}
    dc = f.get('dc_ops')
    if dc is None and isinstance((payload.get('broken') or [{}])[0], dict):
        dc = ((((payload.get('broken') or [{}])[0].get('minimal_case') or {}).get('desc') or {}).get('dc_ops'))
    if dc:
        exp, det = D.run_history(dc)
        print('DeviceInfoCache history:', dc)
        print('exceptions:', det['log'])
        for x in D.check_history(dc)[0]:
            print('  FAIL', {k: v for k, v in x.items() if k != 'dc_ops'})
        import core
        got, err = core.coq_eval(COQ_IMPORTS, D.coq_ops(dc))
        print('model observation equals implementation observation:', got == exp)
        return
    ops = f.get('ops') or (((payload.get('broken') or [{}])[0].get('minimal_case') or {}).get('desc') or {}).get('ops') \
        if isinstance((payload.get('broken') or [{}])[0], dict) else f.get('ops')
    if ops:
        n = 1 + max([o[1] for o in ops if o[0] == 'submit'] + [0])
        exp, det = I.run_history(ops, n)
        print('IOCB history:', ops)
        print('implementation log:', det['log'], 'states', det['states'], 'queues', det['queues'])
        fs, _ = I.check_drained(ops, n)
        for x in fs:
            print('  FAIL', {k: v for k, v in x.items() if k != 'ops'}, '->', classify(x))
        import core
        got, err = core.coq_eval('From Bac Require Import Base Iocb.', 'run_ops %d %s' % (n, I.coq_ops(ops)))
        print('model observation equals implementation observation:', got == exp)
        return
    S.replay_generic(payload, S.check_c04, 'C04')


# ---------------------------------------------------------------------------------------------
# IOCB layer: ApplicationIOController -> SieveQueue/IOQController -> Application.request, over the same medium

def iocb_check(rng, n):
    """each IOCB submitted through ApplicationIOController.request_io is completed or aborted exactly once,
    the per-destination queue advances, and nothing is left queued or active at quiescence"""
    from bacpypes.app import ApplicationIOController, DeviceInfoCache
    from bacpypes.appservice import StateMachineAccessPoint, ApplicationServiceAccessPoint
    from bacpypes.comm import bind, Server
    from bacpypes.iocb import IOCB, COMPLETED, ABORTED
    from bacpypes.apdu import ReadPropertyRequest, ReadPropertyACK, SimpleAckPDU, Error, AbortPDU, APDU
    from bacpypes.pdu import Address, PDU
    from bacpypes.primitivedata import Unsigned
    from bacpypes.constructeddata import Any
    import bacpypes.core as bcore
    failures = []
    for it in range(n):
        tm = S._setup_clock()
        cfg = S.node_cfg(1, retries=rng.choice([0, 1, 2]), apduTimeout=rng.choice([500, 1000]), segTimeout=500)
        wire = []

        class Med(Server):
            def indication(self, apdu):
                wire.append(apdu)

        app = ApplicationIOController(None, deviceInfoCache=DeviceInfoCache())
        asap = ApplicationServiceAccessPoint()
        smap = StateMachineAccessPoint(S.Dev(cfg), app.deviceInfoCache)
        med = Med()
        bind(app, asap, smap, med)
        nreq = rng.randrange(1, 9)
        peers = [10, 11]
        iocbs = []
        calls = {}
        for i in range(nreq):
            rq = ReadPropertyRequest(objectIdentifier=('analogValue', i), propertyIdentifier='presentValue')
            rq.pduDestination = Address(rng.choice(peers))
            io = IOCB(rq)
            calls[id(io)] = 0

            def cb(iocb, _k=id(io)):
                calls[_k] += 1
            io.add_callback(cb)
            iocbs.append(io)
            app.request_io(io)
        script = [rng.choice(['ack', 'ack', 'error', 'abort', 'drop', 'dupack']) for _ in range(200)]
        steps = 0
        exn = None
        while steps < 4000:
            steps += 1
            while bcore.deferredFns:
                fn, args, kwargs = bcore.deferredFns.pop(0)
                try:
                    fn(*args, **kwargs)
                except Exception as e:
                    exn = e
            if wire:
                apdu = wire.pop(0)
                x = APDU()
                apdu.encode(x)
                how = script.pop(0) if script else 'ack'
                if x.apduType != 0 or how == 'drop':
                    continue
                src = apdu.pduDestination
                reps = 2 if how == 'dupack' else 1
                for _ in range(reps):
                    if how in ('ack', 'dupack'):
                        r = ReadPropertyACK(objectIdentifier=('analogValue', 1), propertyIdentifier='presentValue', propertyValue=Any(Unsigned(7)))
                    elif how == 'error':
                        r = Error(errorClass='object', errorCode='unknownObject')
                        r.apduService = 12
                    else:
                        r = AbortPDU(True, x.apduInvokeID, 4)
                    r.apduInvokeID = x.apduInvokeID
                    y = APDU()
                    r.encode(y)
                    p = PDU()
                    y.encode(p)
                    z = APDU()
                    z.decode(PDU(p.pduData, source=src, destination=Address(1)))
                    try:
                        smap.confirmation(z)
                    except Exception as e:
                        exn = e
                continue
            if tm.tasks:
                S.NOW[0] = max(S.NOW[0], tm.tasks[0][0])
                task, _ = tm.get_next_task()
                if task is not None:
                    try:
                        tm.process_task(task)
                    except Exception as e:
                        exn = e
                continue
            break
        desc = {'iocb_scenario': it, 'nreq': nreq, 'retries': cfg['retries']}
        if exn is not None:
            failures.append(dict(desc, kind='iocb-exception', exc=repr(exn)[:120]))
        for io in iocbs:
            if calls[id(io)] != 1:
                failures.append(dict(desc, kind='iocb-callback-count', count=calls[id(io)], state=io.ioState))
            if io.ioState not in (COMPLETED, ABORTED):
                failures.append(dict(desc, kind='iocb-not-finished', state=io.ioState))
        for addr, q in app.queue_by_address.items():
            if q.ioQueue.queue or q.active_iocb is not None:
                failures.append(dict(desc, kind='iocb-queue-residue', queued=len(q.ioQueue.queue)))
        if smap.clientTransactions or tm.tasks:
            failures.append(dict(desc, kind='iocb-residue', transactions=len(smap.clientTransactions), tasks=len(tm.tasks)))
    return failures, n
