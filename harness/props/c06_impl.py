"""C06 implementation drivers: real NetworkServiceAccessPoint / NetworkServiceElement / vlan.Network / vlan.Node
objects under a virtual clock and a step watchdog, with an independent NPDU decoder for the frames seen on
each LAN.  Nothing here knows about the Coq model."""
import sys, logging

logging.disable(logging.CRITICAL)      # silences the 'path error' warnings of process_npdu

NOW = [0.0]
_TM = [None]


def _modules():
    import bacpypes.task as task
    import bacpypes.core as bcore
    if _TM[0] is None:
        task._time = lambda: NOW[0]
        _TM[0] = task.TaskManager()
    return task, bcore


class Watchdog(Exception):
    pass


def drain(limit):
    """run every scheduled zero-delay task (= every frame in flight) FIFO; returns number of steps,
    raises Watchdog when more than `limit` are needed"""
    task, bcore = _modules()
    tm = _TM[0]
    steps = 0
    while True:
        while bcore.deferredFns:
            fns = bcore.deferredFns
            bcore.deferredFns = []
            for fn, a, kw in fns:
                fn(*a, **kw)
        t, delta = tm.get_next_task()
        if t is None:
            break
        tm.process_task(t)
        steps += 1
        if steps > limit:
            tm.tasks[:] = []
            raise Watchdog(steps)
    return steps


def drain_upto(limit):
    """run at most `limit` zero-delay tasks FIFO; returns the number still queued"""
    task, bcore = _modules()
    tm = _TM[0]
    for _ in range(limit):
        t, delta = tm.get_next_task()
        if t is None:
            return 0
        tm.process_task(t)
    return len(tm.tasks)


def pending_tasks():
    _modules()
    return len(_TM[0].tasks)


def reset_tasks():
    _modules()
    _TM[0].tasks[:] = []


# ---------------------------------------------------------------- independent NPDU codec (clause 6.2)
def npdu_encode(d):
    """d: dict(dadr=None|('g',)|('b',net)|('s',net,mac), sadr=None|(net,mac), hop=int, msg=None|int, data=bytes,
    er=bool, prio=int)"""
    ctl = (0x80 if d.get('msg') is not None else 0) | (0x20 if d.get('dadr') else 0) | (0x08 if d.get('sadr') else 0)
    ctl |= (0x04 if d.get('er') else 0) | (d.get('prio', 0) & 3)
    out = bytearray([1, ctl])
    da = d.get('dadr')
    if da:
        if da[0] == 'g':
            out += bytes([0xFF, 0xFF, 0])
        elif da[0] == 'b':
            out += bytes([da[1] >> 8, da[1] & 255, 0])
        else:
            out += bytes([da[1] >> 8, da[1] & 255, len(da[2])]) + bytes(da[2])
    sa = d.get('sadr')
    if sa:
        out += bytes([sa[0] >> 8, sa[0] & 255, len(sa[1])]) + bytes(sa[1])
    if da:
        out.append(d.get('hop', 255))
    if d.get('msg') is not None:
        out.append(d['msg'])
    out += bytes(d.get('data', b''))
    return bytes(out)


def npdu_decode(bs):
    bs = bytes(bs)
    if len(bs) < 2 or bs[0] != 1:
        return {'bad': bs.hex()}
    ctl = bs[1]
    i = 2
    d = {'dadr': None, 'sadr': None, 'hop': None, 'msg': None, 'er': bool(ctl & 4), 'prio': ctl & 3}
    if ctl & 0x20:
        net = bs[i] * 256 + bs[i + 1]
        ln = bs[i + 2]
        mac = bs[i + 3:i + 3 + ln]
        i += 3 + ln
        d['dadr'] = ('g',) if net == 0xFFFF else (('b', net) if ln == 0 else ('s', net, mac))
    if ctl & 0x08:
        net = bs[i] * 256 + bs[i + 1]
        ln = bs[i + 2]
        d['sadr'] = (net, bs[i + 3:i + 3 + ln])
        i += 3 + ln
    if ctl & 0x20:
        d['hop'] = bs[i]
        i += 1
    if ctl & 0x80:
        d['msg'] = bs[i]
        i += 1
    d['data'] = bs[i:]
    return d


def addr_tuple(a):
    """neutral form of a bacpypes Address; when the address carries a route (settings.route_aware) its link address is
    appended as a last element ('via', mac)"""
    if a is None:
        return ('none',)
    t = a.addrType
    if t == 0: out = ('null',)
    elif t == 1: out = ('lb',)
    elif t == 2: out = ('ls', bytes(a.addrAddr))
    elif t == 3: out = ('rb', a.addrNet)
    elif t == 4: out = ('rs', a.addrNet, bytes(a.addrAddr))
    elif t == 5: out = ('gb',)
    else: out = ('other', t)
    r = getattr(a, 'addrRoute', None)
    if r is not None:
        out = out + (('via', bytes(r.addrAddr)),)
    return out


def strip_route(t):
    return tuple(x for x in t if not (isinstance(x, tuple) and x and x[0] == 'via'))


def route_of(t):
    for x in t:
        if isinstance(x, tuple) and x and x[0] == 'via':
            return x[1]
    return None


def mk_addr(t):
    from bacpypes.pdu import LocalStation, LocalBroadcast, RemoteStation, RemoteBroadcast, GlobalBroadcast
    via = route_of(t)
    route = LocalStation(bytes(via)) if via is not None else None
    t = strip_route(t)
    k = t[0]
    if k == 'ls': return LocalStation(bytes(t[1]), route=route) if route is not None else LocalStation(bytes(t[1]))
    if k == 'lb': return LocalBroadcast(route=route) if route is not None else LocalBroadcast()
    if k == 'rs': return RemoteStation(t[1], bytes(t[2]), route=route)
    if k == 'rb': return RemoteBroadcast(t[1], route=route)
    if k == 'gb': return GlobalBroadcast(route=route)
    raise ValueError(t)


class RouteAware:
    """context manager: settings.route_aware switched on, always restored"""
    def __init__(self, on=True):
        self.on = on

    def __enter__(self):
        from bacpypes.settings import settings
        self.old = settings.route_aware
        settings.route_aware = self.on
        return self

    def __exit__(self, *a):
        from bacpypes.settings import settings
        settings.route_aware = self.old


# ---------------------------------------------------------------- nodes
def _classes():
    from bacpypes.comm import Client, Server, bind
    from bacpypes.netservice import NetworkServiceAccessPoint, NetworkServiceElement

    class NSE(NetworkServiceElement):
        _startup_disabled = True

    class App(Client):
        """minimal layer above the network layer: records what is handed up"""
        def __init__(self, log, name):
            Client.__init__(self)
            self.log, self.name = log, name

        def confirmation(self, apdu):
            from bacpypes.pdu import PDU
            p = PDU()
            apdu.encode(p)
            self.log.append(('up', self.name, addr_tuple(apdu.pduSource), addr_tuple(apdu.pduDestination), bytes(p.pduData)))

    class Wire(Server):
        """stands in for a vlan.Node in single-node tests: records frames the adapter sends"""
        def __init__(self, log, idx):
            Server.__init__(self)
            self.log, self.idx = log, idx

        def indication(self, pdu):
            self.log.append(('tx', self.idx, addr_tuple(pdu.pduDestination), bytes(pdu.pduData)))

    return Client, Server, bind, NetworkServiceAccessPoint, NSE, App, Wire


class ImplNode:
    """one network-layer entity.  ports: list of (net|None, mac bytes|None); has_app: an application is bound above."""

    def __init__(self, name, ports, has_app, log, lans=None):
        Client, Server, bind, NSAP, NSE, App, Wire = _classes()
        from bacpypes.pdu import Address, LocalStation
        from bacpypes.vlan import Node
        self.name, self.ports, self.log = name, ports, log
        self.nsap = NSAP()
        self.nse = NSE()
        bind(self.nse, self.nsap)
        self.app = None
        if has_app:
            self.app = App(log, name)
            bind(self.app, self.nsap)
        self.wires = []
        for i, (net, mac, *rest) in enumerate(ports):
            if lans is None:
                w = Wire(log, i)
            else:
                lan, wmac = rest
                w = Node(LocalStation(bytes(wmac)), lan)
            self.wires.append(w)
            self.nsap.bind(w, net, LocalStation(bytes(mac)) if mac is not None else None)
        self.adapters = list(self.nsap.adapters.values())

    # --- events
    def send(self, dest, payload):
        from bacpypes.apdu import UnconfirmedRequestPDU
        pdu = UnconfirmedRequestPDU(99)
        pdu.put_data(bytes(payload))
        pdu.pduDestination = mk_addr(dest)
        self.app.request(pdu)

    def arrive(self, port, src_mac, dst, frame):
        """a frame is delivered by the LAN to adapter `port` (single-node tests)"""
        from bacpypes.pdu import PDU, LocalStation
        pdu = PDU(bytes(frame), source=LocalStation(bytes(src_mac)), destination=mk_addr(dst))
        self.wires[port].response(pdu)

    # --- state observation / set-up
    def learn(self, port, mac, dnets):
        self.nsap.router_info_cache.update_router_info(self.adapters[port].adapterNet, _ls(mac), list(dnets))

    def cache_view(self, dnets):
        """next-hop MAC recorded for (port network, dnet), for every port and every dnet of the grid"""
        out = []
        for i, ad in enumerate(self.adapters):
            for d in dnets:
                ri = self.nsap.router_info_cache.get_router_info(ad.adapterNet, d)
                out.append((i, d, bytes(ri.address.addrAddr) if ri else None))
        return out

    def pending_view(self):
        out = []
        for dnet, lst in self.nsap.pending_nets.items():
            out.append((dnet, [(addr_tuple(n.npduDADR), bytes(n.pduData)) for n in lst]))
        return out


def _ls(mac):
    from bacpypes.pdu import LocalStation
    return LocalStation(bytes(mac))


# ---------------------------------------------------------------- whole internetworks
class Internet:
    """topology: nets = {net: [station macs]}, routers = [[(net, mac), ...]], station_mode[(net,mac)] in
    {'none','addr','net'} = what the station was told at bind time (nothing / its address / network and address)"""

    def __init__(self, nets, routers, station_mode=None, router_apps=()):
        from bacpypes.vlan import Network
        from bacpypes.pdu import LocalBroadcast
        _modules()
        reset_tasks()
        self.log = []
        self.frames = []
        self.lans = {}
        for net in nets:
            lan = Network(name=str(net), broadcast_address=LocalBroadcast())
            lan.traffic_log = self._traffic
            self.lans[net] = lan
        self.routers = []
        for ri, ports in enumerate(routers):
            self.routers.append(ImplNode(('r', ri), [(net, mac, self.lans[net], mac) for net, mac in ports],
                                         ri in router_apps, self.log, lans=self.lans))
        self.stations = {}
        for net, macs in nets.items():
            for mac in macs:
                mode = (station_mode or {}).get((net, mac), 'net')
                port = {'none': (None, None), 'addr': (None, mac), 'net': (net, mac)}[mode]
                self.stations[(net, mac)] = ImplNode(('s', net, mac), [port + (self.lans[net], mac)], True, self.log,
                                                     lans=self.lans)

    def _traffic(self, name, pdu):
        self.frames.append((int(name), addr_tuple(pdu.pduSource), addr_tuple(pdu.pduDestination), bytes(pdu.pduData)))

    def run(self, limit=20000):
        return drain(limit)
