"""C14 — scheduled work runs once, in order, never early; failures stay isolated.

Correspondence: the real TaskManager / core.run_once / core.run driven under a virtual clock
(bacpypes.task._time replaced) against the Gallina model coq/theories/Sched.v + Deferred.v,
and the direct, implementation-only predicate (a bookkeeping reference of what is pending)."""
import itertools, logging, signal, sys, time
from fractions import Fraction as F
from core import Case

PROP = 'C14'
COQ_TARGETS = ['theories/SchedIv.vo', 'theories/SchedIvFacts.vo', 'theories/DeferredExnFacts.vo', 'theories/DeferredFacts.vo', 'theories/SchedFacts.vo', 'theories/SchedThms.vo', 'theories/SchedPassive.vo', 'theories/SchedOrder.vo', 'theories/SchedRun.vo', 'theories/SchedC14.vo']
COQ_IMPORTS = 'From Bac Require Import Base Deferred Sched SchedIv.'
RULE_BASE = ('cases: one case = the whole observable outcome (event trace of fire/call/raise/API-error, heap in pop order with '
        'counters, isScheduled/taskTime of every task, deferredFns) of a history run on the real TaskManager under a virtual '
        'clock and on the model.  (A) every op sequence of length <= 3 (quick) / <= 4 plus 30% of length 5 (thorough) over 2 one-shot tasks and a '
        '15-letter alphabet {install at 1|2, install after 1, re-install, suspend, resume} x task + {advance 1, poll, run_once} '
        'with colliding times (quick: all of length <= 3 and a quarter of length 4), each followed by a flush; the same over 3 tasks one of which raises; random histories of length 200 over 4 tasks (raising / deferring '
        'callbacks, Defer, Poll, RunOnce, Run); (B) recurring tasks over interval/offset grids incl. 0.1 s, 0.3 s, 1/3 s with '
        'small and epoch-sized clocks, on-time and late firing, compared by tick (small clocks) or slot index (epoch clocks), and the API refusals '
        '(when=/delta= on a recurring task, resume before install, interval <= 0); '
        '(D) deferred batches of <= 6 with every raising subset, flat and self-deferring, through run_once and run, the functions being '
        'bound methods, plain functions, lambdas, functools.partial objects, callable instances and builtins in turn; (L) 8-24 tasks pending at once '
        'with removals from the middle of the heap; (K) install counter beyond 65536; (U) operations before the TaskManager exists.  '
        'non-trivial = at least one task fired or one deferred function was called; distinct by (config, op list).')
TRUSTED = ['models coq/theories/Sched.v, Deferred.v written by hand after task.py:58-79,179-216,264-382 and core.py:123-233; tie = correspondence',
           'heapq (pop order = sorted order of (time, counter)) and binary64 arithmetic of RecurringTask.install_task: modelled exactly '
           '(rationals), compared by tick / slot index only',
           'asyncore.loop(timeout=0, count=1) with only the TaskManager trigger registered returns without side effects on the schedule']
RULE = RULE_BASE
ASSUMPTIONS = ['single thread; callbacks record, defer functions, call the _Task API (install/suspend/resume of any task) and raise; nothing else',
               'symmetry reduction (S): the implementation is a function of the state captured by impl_state_key (heap array, counters up to order, flags, task times relative to the clock, deferred queue) and is invariant under renaming of identically configured tasks and under time translation',
               'core.run is driven with spin=0 and stopped (core.stop) by the clock hook once nothing is due and nothing is deferred',
               'recurring-task scenarios keep every clock reading at least 5 us away from any other pending due time unless it is that time itself']

TICKS_PER_S = 3 * 10 ** 6        # family B: 1 tick = 1/3 us, so 1/3 s and 0.1 s are exact; jitter 1e-6 s = 3 ticks
JIT_B = 3


def ctor_attrs(kind):
    """(interval, offset) in ticks handed to the RecurringTask constructor; None = not given.  The 3-tuple
    ('rec', iv, off) hands over the offset only when it is non-zero; ('rec', iv, off, 'x') hands over exactly
    what it says (interval None, offset None, offset 0)"""
    if len(kind) > 3:
        return kind[1], kind[2]
    return kind[1], (kind[2] if kind[2] else None)


def acts_of(x):
    """scheduling actions of a task config (kind, raises, defers[, acts]) or of a deferred function
    (id, raises, spawns[, acts])"""
    return x[3] if len(x) > 3 else ()


# ------------------------------------------------------------------ pure-python port of the model
class Ref:
    """Port of Sched.v used by the generators (exact clock / margins) and as a fast pre-check."""

    def __init__(self, cfg, jit, guard=True):
        self.cfg, self.jit, self.guard = cfg, jit, guard
        self.now, self.ctr, self.heap = 0, 0, []
        self.sched, self.ttime, self.dq = {}, {}, []
        self.ev = []
        # taskInterval / taskIntervalOffset of the recurring tasks (attributes: install_task(interval=, offset=) overwrites them)
        self.ivs = {i: list(ctor_attrs(k[0])) for i, k in enumerate(cfg) if k[0][0] == 'rec'}

    def kind(self, i):
        return self.cfg[i][0]

    LIMIT = 32              # iterations beyond the due entries before a loop is called a livelock (model slack: 64)
    livelock = False

    def do_act(self, a):
        k = a[0]
        if k == 'install': return self.install_when(a[1], a[2])
        if k == 'after': return self.install_when(a[1], self.now + a[2])
        if k == 'reinstall': return self.reinstall(a[1])
        if k == 'suspend': self.tm_suspend(a[1]); return None
        if k == 'resume': return self.tm_install(a[1])
        raise ValueError(a)

    def run_acts(self, acts):
        for a in acts:
            if self.do_act(a) is not None:
                return True
        return False

    def due_count(self):
        return sum(1 for e in self.heap if e[0] <= self.now)

    def tm_suspend(self, i):
        for k, e in enumerate(self.heap):
            if e[2] == i:
                del self.heap[k]
                self.sched[i] = False
                return

    def tm_install(self, i):
        if self.ttime.get(i) is None:
            return 15
        if self.sched.get(i):
            self.tm_suspend(i)
        self.heap.append((self.ttime[i], self.ctr, i))
        self.heap.sort(key=lambda e: (e[0], e[1]))
        self.ctr += 1
        self.sched[i] = True
        return None

    def rec_install(self, i):
        iv, off = self.ivs[i]
        off = off or 0
        if iv is None or iv <= 0:
            return 15
        x = self.now + self.jit - off
        self.ttime[i] = x + iv - x % iv + off
        return self.tm_install(i)

    def install_when(self, i, t):
        if self.kind(i)[0] == 'rec':
            return 8
        self.ttime[i] = t
        return self.tm_install(i)

    def install_iv(self, i, iv, off):
        if self.kind(i)[0] != 'rec':
            return 8
        if iv is not None: self.ivs[i][0] = iv
        if off is not None: self.ivs[i][1] = off
        return self.rec_install(i)

    def reinstall(self, i):
        if self.kind(i)[0] == 'rec':
            return self.rec_install(i)
        if self.ttime.get(i) is None:
            return 15
        return self.tm_install(i)

    def get_next(self):
        if not self.heap:
            return None, False
        e = self.heap[0]
        if e[0] <= self.now:
            self.heap.pop(0)
            self.sched[e[2]] = False
            return e, bool(self.heap) and self.heap[0][0] <= self.now
        return None, False

    def process(self, e):
        i = e[2]
        k = self.cfg[i]
        self.dq = self.dq + list(k[2])
        self.ev.append(('fire', i, e[0], self.now))
        failed = self.run_acts(acts_of(k))
        if failed or k[1]:
            return True
        if k[0][0] == 'rec':
            return self.rec_install(i) is not None
        return False

    def drain(self):
        while self.dq:
            b, self.dq = self.dq, []
            for d in b:
                self.ev.append(('call', d[0]))
                self.dq = self.dq + list(d[2])
                failed = self.run_acts(acts_of(d))
                if d[1] or failed:
                    self.ev.append(('raise',))
                    if not self.guard:
                        return True
        return False

    def run_once(self):
        zero = True
        budget = self.due_count() + 1 + self.LIMIT
        while zero:
            budget -= 1
            if budget < 0:
                self.livelock = True
                return
            e, zero = self.get_next()
            if e is not None and self.process(e):
                self.ev.append(('raise',)); return
            if self.drain():
                return

    def quiescent(self):
        return not self.dq and (not self.heap or self.heap[0][0] > self.now)

    def run(self):
        budget = 2 * self.due_count() + 2 + self.LIMIT
        while not self.quiescent():
            budget -= 1
            if budget < 0:
                self.livelock = True
                return
            e, _ = self.get_next()
            if e is not None and self.process(e):
                self.ev.append(('raise',)); continue
            self.drain()

    def step(self, o):
        k = o[0]
        err = None
        if k in ('install', 'after', 'reinstall', 'suspend', 'resume'): err = self.do_act(o)
        elif k == 'installiv': err = self.install_iv(o[1], o[2], o[3])
        elif k == 'advance': self.now += o[1]
        elif k == 'todue':
            if self.heap: self.now = max(self.now, self.heap[0][0])
        elif k == 'poll':
            e, _ = self.get_next()
            if e is not None and self.process(e):
                self.ev.append(('raise',))
        elif k == 'defer': self.dq = self.dq + [o[1]]
        elif k == 'burn':
            for _ in range(o[3]):
                self.install_when(o[1], o[2])
        elif k == 'runonce': self.run_once()
        elif k == 'run': self.run()
        if err is not None:
            self.ev.append(('err', err))


# ------------------------------------------------------------------ implementation driver
class Boom(Exception):
    pass


class BoomStr(Exception):
    """an exception that cannot be printed"""
    def __str__(self):
        raise RuntimeError('str() of this exception fails')
    __repr__ = __str__


class _Unprintable(object):
    def __str__(self):
        raise RuntimeError('unprintable argument')
    __repr__ = __str__


class BoomInit(Exception):
    """__init__ with its own signature that does not pass anything on (args is still what the caller gave)"""
    def __init__(self, code, detail=None):
        self.code, self.detail = code, detail


class BoomNoArgsAttr(Exception):
    """args emptied after construction"""
    def __init__(self, *a):
        Exception.__init__(self, *a)
        self.args = ()


# the exception VALUES a raising callback may produce (subclasses of Exception: KeyboardInterrupt / SystemExit are
# control flow for the loops, not failures of a callback).  What varies: the class (library / builtin / raised by
# the interpreter), the number of arguments (none, one, several), their types, whether the value can be printed.
XSHAPES = ('msg', 'noargs', 'bare-class', 'assert-no-message', 'zerodivision', 'keyerror', 'valueerror-noargs', 'two-args',
           'oserror-errno', 'empty-string', 'empty-tuple-arg', 'stopiteration-noargs', 'str-raises', 'arg-unprintable',
           'unicode-5-args', 'indexerror', 'own-init', 'args-emptied', 'none-arg', 'assert-message', 'runtimeerror-noargs',
           'exception-noargs', 'chained', 'in-except-block')


def raise_shape(shape, label):
    if shape == 'msg': raise Boom(label)
    if shape == 'noargs': raise Boom()
    if shape == 'bare-class': raise Boom
    if shape == 'assert-no-message': assert label is None
    if shape == 'zerodivision': 1 // 0
    if shape == 'keyerror': {}[label]
    if shape == 'valueerror-noargs': raise ValueError()
    if shape == 'two-args': raise Boom(7, label)
    if shape == 'oserror-errno': raise OSError(2, label)
    if shape == 'empty-string': raise Boom('')
    if shape == 'empty-tuple-arg': raise Boom(())
    if shape == 'stopiteration-noargs': raise StopIteration()
    if shape == 'str-raises': raise BoomStr(label)
    if shape == 'arg-unprintable': raise Boom(_Unprintable())
    if shape == 'unicode-5-args': u'\u20ac'.encode('ascii')
    if shape == 'indexerror': [][0]
    if shape == 'own-init': raise BoomInit(3)
    if shape == 'args-emptied': raise BoomNoArgsAttr(label)
    if shape == 'none-arg': raise Boom(None)
    if shape == 'assert-message': assert label is None, label
    if shape == 'runtimeerror-noargs': raise RuntimeError
    if shape == 'exception-noargs': raise Exception()
    if shape == 'chained':
        try:
            raise Boom()
        except Boom as e:
            raise TypeError() from e
    if shape == 'in-except-block':
        try:
            [][0]
        except IndexError:
            raise Boom()
    raise ValueError(shape)


class _Watchdog(BaseException):
    """raised by SIGALRM inside a library loop that does not return (BaseException: the loops' own
    `except Exception` must not swallow it)"""


class Hang(Exception):
    pass


HANGS = [0]
MAX_FAILS = 20000
DEADLINE = [None]          # wall-clock budget of the direct predicate (a slow, not hanging, mutated library)


class _Budget(Exception):
    pass
LOOP_TIMEOUT = 3.0


WD = {'fired': 0, 'armed': False}


def _alarm(sig, frm):
    # the exception may be raised inside a destructor or a logging callback, where it is swallowed
    # ("Exception ignored in ..."): remember that the deadline passed and re-arm, so that the loop is
    # interrupted again shortly and guarded_loop reports the hang whatever happens to this exception
    WD['fired'] += 1
    if WD['armed']:
        signal.setitimer(signal.ITIMER_REAL, 0.2)
    raise _Watchdog()


def guarded_loop(fn):
    """run one library loop (run_once / run / get_next_task+process_task) under a watchdog"""
    if HANGS[0] >= 3:
        raise Hang('implementation loops do not return (3 hangs seen), giving up')
    old = signal.signal(signal.SIGALRM, _alarm)
    WD['fired'], WD['armed'] = 0, True
    signal.setitimer(signal.ITIMER_REAL, LOOP_TIMEOUT)
    hung = False
    try:
        try:
            fn()
        except _Watchdog:
            hung = True
    finally:
        WD['armed'] = False
        signal.setitimer(signal.ITIMER_REAL, 0)
        signal.signal(signal.SIGALRM, old)
    if hung or WD['fired']:
        # also when the exception was swallowed somewhere and the loop came back on its own later
        HANGS[0] += 1
        raise Hang('library loop did not return within %.0f s' % LOOP_TIMEOUT)


class _Hook(logging.Handler):
    def __init__(self, trace):
        logging.Handler.__init__(self)
        self.trace = trace

    def emit(self, record):
        self.trace.append(('raise',))


class Impl:
    """The real TaskManager + core loops under a virtual clock.  `tf` maps model ticks to the float
    handed to the library."""

    def __init__(self, cfg, tf=float, pre=(), kshift=0, xshift=None):
        import bacpypes.task as task, bacpypes.core as core
        self.task, self.core, self.tf = task, core, tf
        self.kshift = kshift
        self.xshift = xshift        # None: every raising callback raises Boom('<who>'); n: the shape of callback k is XSHAPES[(k + n) % len]
        self.NOW = [0.0]
        self.trace = []
        self.submitted = []          # ids in the order core.deferred was called
        # reset the singleton
        tm = task._task_manager
        if tm is not None and getattr(tm, 'trigger', None) is not None:
            try:
                tm.trigger.close()
            except Exception:
                pass
        task._task_manager = None
        task._unscheduled_tasks[:] = []
        task.TaskManager._singleton_instance = None
        core.deferredFns = []
        core.taskManager = None
        core.running = False
        core.sleeptime = 0.0
        self.in_run = False
        task._time = self.clock
        self.hook = _Hook(self.trace)
        for fn in (core.run, core.run_once):
            lg = fn._logger
            lg.handlers[:] = [self.hook]
            lg.propagate = False
            lg.setLevel(logging.ERROR)
        outer = self

        class HOne(task.OneShotTask):
            def __init__(s, i):
                task.OneShotTask.__init__(s)
                s.i = i

            def process_task(s):
                outer.callback(s)

        class HRec(task.RecurringTask):
            def __init__(s, i, iv_ms, off_ms):
                task.RecurringTask.__init__(s, iv_ms, off_ms)
                s.i = i

            def process_task(s):
                outer.callback(s)

        self.cfg = cfg
        self.tasks = []
        for i, t in enumerate(cfg):
            kind = t[0]
            if kind[0] == 'rec':
                # interval / offset are handed over in milliseconds, as floats
                civ, coff = ctor_attrs(kind)
                self.tasks.append(HRec(i, self.ms(civ), self.ms(coff)))
            else:
                self.tasks.append(HOne(i))
        # operations issued before a TaskManager exists go to task._unscheduled_tasks
        for o in pre:
            if o[0] == 'install':
                self.api(lambda: self.tasks[o[1]].install_task(when=self.tf(o[2])))
            elif o[0] == 'suspend':
                self.api(lambda: self.tasks[o[1]].suspend_task())
            else:
                raise ValueError(o)
        self.tm = task.TaskManager()

    ticks_per_s = TICKS_PER_S

    def ms(self, ticks):
        """ticks -> the float number of milliseconds handed to the RecurringTask API (None stays None)"""
        return None if ticks is None else float(F(ticks * 1000, self.ticks_per_s))

    def attr_ticks(self, i):
        """taskInterval / taskIntervalOffset of a recurring task in ticks (None = unset), None for other tasks"""
        t = self.tasks[i]
        if not hasattr(t, 'taskInterval'):
            return None
        return tuple(None if v is None else int(round(F(v) * self.ticks_per_s / 1000)) for v in (t.taskInterval, t.taskIntervalOffset))

    def throw(self, who, k):
        label = '%s %d' % (who, k)
        if self.xshift is None:
            raise Boom(label)
        raise_shape(XSHAPES[(k + self.xshift + (5 if who == 'task' else 0)) % len(XSHAPES)], label)

    def loop(self, fn):
        """a library loop under the watchdog; an exception that comes out of it is recorded"""
        def body():
            try:
                fn()
            except Exception as e:
                self.trace.append(('escape', type(e).__name__))
        guarded_loop(body)

    def clock(self):
        # core.run is stopped at the top of an iteration only (the read made by get_next_task), never by the
        # reads a callback makes through get_time()
        if self.in_run and sys._getframe(1).f_code.co_name == 'get_next_task':
            core = self.core
            tm = self.tm
            if not core.deferredFns and (not tm.tasks or tm.tasks[0][0] > self.NOW[0]):
                core.stop()
        return self.NOW[0]

    def callback(self, t):
        self.trace.append(('fire', t.i, t.taskTime, self.NOW[0]))
        for d in self.cfg[t.i][2]:
            self.submit(d)
        self.do_acts(acts_of(self.cfg[t.i]))
        if self.cfg[t.i][1]:
            self.throw('task', t.i)

    def do_acts(self, acts):
        """the scheduling actions of a callback, through the _Task API; an exception propagates"""
        T = self.tasks
        for a in acts:
            k, j = a[0], a[1]
            try:
                if k == 'install': T[j].install_task(when=self.tf(a[2]))
                elif k == 'after': T[j].install_task(delta=self.tf(a[2]))
                elif k == 'reinstall': T[j].install_task()
                elif k == 'suspend': T[j].suspend_task()
                elif k == 'resume': T[j].resume_task()
                else: raise ValueError(a)
            except Exception:
                self.trace.append(('act', k, j, False, None))
                raise
            self.trace.append(('act', k, j, True, T[j].taskTime))

    KINDS = ('bound-method', 'function', 'lambda', 'partial', 'callable-instance', 'builtin')

    def kind_of(self, d):
        k = self.KINDS[(d[0] + self.kshift) % len(self.KINDS)]
        if k == 'builtin' and (d[1] or d[2] or acts_of(d)):
            k = 'function'            # a builtin can only stand for a plain function that does nothing but being logged
        return k

    def submit(self, d):
        """core.deferred with every kind of callable: bound method, plain function, lambda, functools.partial,
        instance with __call__, builtin (list.append of the trace)"""
        import functools
        self.submitted.append(d[0])
        k = self.kind_of(d)
        outer = self
        if k == 'bound-method':
            self.core.deferred(self.call_dfn, d)
        elif k == 'function':
            def deferred_function():
                outer.call_dfn(d)
            deferred_function._dfn_id = d[0]
            self.core.deferred(deferred_function)
        elif k == 'lambda':
            f = lambda: outer.call_dfn(d)
            f._dfn_id = d[0]
            self.core.deferred(f)
        elif k == 'partial':
            f = functools.partial(self.call_dfn, d)
            self.core.deferred(f)
        elif k == 'callable-instance':
            class Callable(object):
                _dfn_id = d[0]

                def __call__(s):
                    outer.call_dfn(d)
            self.core.deferred(Callable())
        else:
            self.core.deferred(self.trace.append, ('call', d[0]))

    def call_dfn(self, d):
        self.trace.append(('call', d[0]))
        for s in d[2]:
            self.submit(s)
        self.do_acts(acts_of(d))
        if d[1]:
            self.throw('deferred', d[0])

    def api(self, fn):
        from pyerr import exc_code
        try:
            fn()
        except Exception as e:
            self.trace.append(('err', exc_code(e)))

    def step(self, o):
        k = o[0]
        tm, T = self.tm, self.tasks
        if k == 'install': self.api(lambda: T[o[1]].install_task(when=self.tf(o[2])))
        elif k == 'after': self.api(lambda: T[o[1]].install_task(delta=self.tf(o[2])))
        elif k == 'reinstall': self.api(lambda: T[o[1]].install_task())
        elif k == 'installiv': self.api(lambda: T[o[1]].install_task(interval=self.ms(o[2]), offset=self.ms(o[3])))
        elif k == 'suspend': self.api(lambda: T[o[1]].suspend_task())
        elif k == 'resume': self.api(lambda: T[o[1]].resume_task())
        elif k == 'advance':
            if len(o) > 2:
                self.NOW[0] = self.tf(o[2])       # absolute exact target supplied by the generator
            else:
                self.NOW[0] = self.NOW[0] + self.tf(o[1])
        elif k == 'todue':
            if tm.tasks:
                self.NOW[0] = max(self.NOW[0], sorted(tm.tasks, key=lambda e: e[:2])[0][0])
        elif k == 'poll':
            def poll():
                task, _ = tm.get_next_task()
                if task:
                    try:
                        tm.process_task(task)
                    except Exception:
                        self.trace.append(('raise',))
            self.loop(poll)
        elif k == 'defer': self.submit(o[1])
        elif k == 'burn':
            t, w = T[o[1]], self.tf(o[2])
            for _ in range(o[3]):
                t.install_task(when=w)
        elif k == 'runonce': self.loop(self.core.run_once)
        elif k == 'run':
            self.in_run = True
            try:
                self.loop(lambda: self.core.run(spin=0.0, sigterm=None, sigusr1=None))
            finally:
                self.in_run = False
        else:
            raise ValueError(o)

    def heap_sorted(self):
        return sorted(((w, n, t.i) for (w, n, t) in self.tm.tasks), key=lambda e: e[:2])

    def counter_value(self):
        # itertools.count: peek without consuming; anything else is shown as -1 (and so disagrees with the model)
        r = repr(self.tm.counter)
        try:
            return int(r[r.index('(') + 1:r.index(')')])
        except ValueError:
            return -1

    def pending_ids(self):
        import functools
        out = []
        for (f, a, kw) in self.core.deferredFns:
            if hasattr(f, '_dfn_id'):
                out.append(f._dfn_id)
            elif isinstance(f, functools.partial):
                out.append(f.args[0][0])
            elif a and a[0] and a[0][0] == 'call':
                out.append(a[0][1])
            else:
                out.append(a[0][0])
        return out


def canon_outcome(trace, heap, ctr, now, tasks, dqids, ct, showclock):
    out = [sum(1 for e in trace if e[0] != 'act')]
    for e in trace:
        if e[0] == 'fire': out += [1, e[1], ct(e[1], e[2], 'due'), ct(e[1], e[3], 'at', e[2])]
        elif e[0] == 'call': out += [2, e[1]]
        elif e[0] == 'raise': out += [3]
        elif e[0] == 'err': out += [4, e[1]]
        elif e[0] == 'escape': out += [5]            # an exception came out of run_once / run: the model has no such event
    out.append(len(heap))
    for (w, n, i) in heap:
        out += [ct(i, w, 'due'), n, i]
    out.append(ctr)
    if showclock:
        out.append(ct(None, now, 'now'))
    for i, (sch, tt) in enumerate(tasks):
        out.append(1 if sch else 0)
        out += [0] if tt is None else [1, ct(i, tt, 'due')]
    out.append(len(dqids))
    out += dqids
    return out


def ct_int(i, x, what, due=None):
    assert float(x) == int(x), x
    return int(x)


def ct_tick(i, x, what, due=None):
    return round(F(x) * TICKS_PER_S)


def make_ct_slot(cfg):
    def ct(i, x, what, due=None):
        if i is None or cfg[i][0][0] != 'rec':
            return 0
        iv, off = F(cfg[i][0][1], TICKS_PER_S), F(cfg[i][0][2], TICKS_PER_S)
        if what == 'at' and x != due:
            return int((F(x) - off) // iv)
        v = due if what == 'at' else x
        return round((F(v) - off) / iv)
    return ct


def tf_tick(t):
    return float(F(t, TICKS_PER_S))


FINE = 2.0 ** -22            # mode 'fine': 1 tick = 2^-22 s = 0.238 us; every value used is an exact binary64


def tf_fine(t):
    return float(t) * FINE


def ct_fine(i, x, what, due=None):
    v = x * 2.0 ** 22
    assert v == int(v), x
    return int(v)


FINER = 2.0 ** -25           # mode 'finer': 1 tick = 2^-25 s = 0.0298 us (exact up to 2^28 s)


def tf_finer(t):
    return float(t) * FINER


def ct_finer(i, x, what, due=None):
    v = x * 2.0 ** 25
    assert v == int(v), x
    return int(v)


def tf_of(mode):
    return float if mode == 'int' else tf_fine if mode == 'fine' else tf_finer if mode == 'finer' else tf_tick


def boundary_histories():
    """never-early probes: the clock strictly inside the last microseconds before a due time (t - 1.43 us ... t - 0.03 us,
    including ~t-1e-6, ~t-5e-7, ~t-1e-7), on it and after it; a second task due 0 .. 2 us later, observed between
    the two due times; clocks 0, 1000 s and (2^-22 unit only) 1.7e9 s.  All floats exact."""
    out = []
    for mode, unit_bases, probes, gaps in (
            ('fine', (0, 1000 * 2 ** 22, 1700000000 * 2 ** 22), (6, 5, 4, 3, 2, 1), (0, 1, 3, 4, 5, 9)),
            ('finer', (0, 1000 * 2 ** 25, 2 ** 27 * 2 ** 25), (40, 34, 33, 17, 7, 3, 1), (0, 1, 3, 7, 17, 33, 34, 67))):
        for base in unit_bases:
            for gap in gaps:
                due = base + 100
                ops = [('advance', base), ('install', 0, due), ('install', 1, due + gap)]
                now = base
                for k in probes:                      # before the first due time
                    ops += [('advance', due - k - now), ('poll',), ('runonce',)]
                    now = due - k
                ops += [('advance', due - now), ('runonce',)]
                now = due
                if gap > 1:                           # strictly between the two due times
                    mid = due + gap // 2
                    ops += [('advance', mid - now), ('poll',), ('run',)]
                    now = mid
                    ops += [('advance', due + gap - 1 - now), ('runonce',)]
                    now = due + gap - 1
                ops += [('advance', due + gap - now), ('poll',), ('runonce',), ('advance', 50), ('run',)]
                out.append(([ONE, ONE], ops, mode))
    return out


def impl_outcome(cfg, ops, mode, pre=(), kshift=0, xshift=None, attrs=False):
    """mode: 'int' (clock in whole seconds = ticks), 'tick' (1/3 us ticks), 'slot' (same, shown as slot indices);
    attrs: the outcome is followed by taskInterval / taskIntervalOffset of every task (ticks)"""
    im = Impl(cfg, tf_of(mode), pre=pre, kshift=kshift, xshift=xshift)
    try:
        for o in ops:
            im.step(o)
    except Hang:
        if HANGS[0] >= 3:
            raise
        return [99], im
    ct = ct_int if mode == 'int' else ct_fine if mode == 'fine' else ct_finer if mode == 'finer' else ct_tick if mode == 'tick' else make_ct_slot(cfg)
    tasks = [(t.isScheduled, t.taskTime) for t in im.tasks]
    out = canon_outcome(im.trace, im.heap_sorted(), im.counter_value(), im.NOW[0], tasks, im.pending_ids(), ct, mode != 'slot')
    if attrs:
        out += canon_attrs([im.attr_ticks(i) for i in range(len(cfg))])
    return out, im


def canon_attrs(al):
    out = []
    for a in al:
        for v in (a or (None, None)):
            out += [0] if v is None else [1, v]
    return out


def ref_outcome(cfg, ops, mode, jit, guard=True, attrs=False):
    r = Ref(cfg, jit, guard)
    for o in ops:
        r.step(o)
    if mode == 'slot':
        def ct(i, x, what, due=None):
            if i is None or cfg[i][0][0] != 'rec':
                return 0
            return (x - cfg[i][0][2]) // cfg[i][0][1]
    else:
        def ct(i, x, what, due=None):
            return x
    tasks = [(bool(r.sched.get(i)), r.ttime.get(i)) for i in range(len(cfg))]
    out = canon_outcome(r.ev, r.heap, r.ctr, r.now, tasks, [d[0] for d in r.dq], ct, mode != 'slot')
    if attrs:
        out += canon_attrs([r.ivs.get(i) for i in range(len(cfg))])
    return out, r


# ------------------------------------------------------------------ Coq syntax
def zc(x):
    return '(%d)' % x if x < 0 else str(x)


def coq_act(a):
    k = a[0]
    if k == 'install': return 'AInstall %d %s' % (a[1], zc(a[2]))
    if k == 'after': return 'AInstallAfter %d %s' % (a[1], zc(a[2]))
    if k == 'reinstall': return 'AReinstall %d' % a[1]
    if k == 'suspend': return 'ASuspend %d' % a[1]
    if k == 'resume': return 'AResume %d' % a[1]
    raise ValueError(a)


def coq_acts(acts):
    return '[' + ';'.join(coq_act(a) for a in acts) + ']'


def coq_dfn(d):
    return '(DF %d %s [%s] %s)' % (d[0], 'true' if d[1] else 'false', ';'.join(coq_dfn(s) for s in d[2]), coq_acts(acts_of(d)))


def coq_cfg(cfg):
    ts = []
    for t in cfg:
        kind, raises, defers = t[0], t[1], t[2]
        k = 'OneShot' if kind[0] == 'one' else '(Recurring %s %s)' % (zc(kind[1] or 0), zc(kind[2] or 0))
        ts.append('mkT %s %s [%s] %s' % (k, 'true' if raises else 'false', ';'.join(coq_dfn(d) for d in defers), coq_acts(acts_of(t))))
    return '[' + ';'.join(ts) + ']'


def coq_op(o):
    k = o[0]
    if k == 'install': return 'Install %d %s' % (o[1], zc(o[2]))
    if k == 'after': return 'InstallAfter %d %s' % (o[1], zc(o[2]))
    if k == 'reinstall': return 'Reinstall %d' % o[1]
    if k == 'suspend': return 'Suspend %d' % o[1]
    if k == 'resume': return 'Resume %d' % o[1]
    if k == 'advance': return 'Advance %s' % zc(o[1])
    if k == 'todue': return 'ToDue'
    if k == 'poll': return 'Poll'
    if k == 'defer': return 'Defer %s' % coq_dfn(o[1])
    if k == 'runonce': return 'RunOnce'
    if k == 'run': return 'Run'
    raise ValueError(o)


def coq_ops(ops):
    """a list literal; ('burn', i, t, n) = n times Install i t, written with `repeat`"""
    if not any(o[0] == 'burn' for o in ops):
        return '[' + ';'.join(coq_op(o) for o in ops) + ']'
    parts, cur = [], []
    for o in ops:
        if o[0] == 'burn':
            parts.append('[' + ';'.join(coq_op(x) for x in cur) + ']')
            parts.append('repeat (Install %d %s) %d' % (o[1], zc(o[2]), o[3]))
            cur = []
        else:
            cur.append(o)
    parts.append('[' + ';'.join(coq_op(x) for x in cur) + ']')
    return '(' + ' ++ '.join(parts) + ')'


def coq_run(cfg, ops, mode, jit):
    tc = '(tc_slot %s)' % coq_cfg(cfg) if mode == 'slot' else 'tc_id'
    return 'canon_run %s %s %d (run_ops true %s %s st0 %s)' % (
        tc, 'false' if mode == 'slot' else 'true', len(cfg), zc(jit), coq_cfg(cfg), coq_ops(ops))


def coq_oz(v):
    return 'None' if v is None else '(Some %s)' % zc(v)


def coq_op2(o):
    if o[0] == 'installiv':
        return 'InstallIv %d %s %s' % (o[1], coq_oz(o[2]), coq_oz(o[3]))
    return 'Plain (%s)' % coq_op(o)


def coq_run2(cfg, ops, jit):
    """SchedIv.v: interval / offset are attributes; the constructor arguments are the initial attributes"""
    ctor = ';'.join('(%s, %s)' % tuple(coq_oz(v) for v in (ctor_attrs(k[0]) if k[0][0] == 'rec' else (None, None))) for k in cfg)
    return 'canon_run2 %d (run_ops2 true %s %s (attrs0 [%s], st0) [%s])' % (
        len(cfg), zc(jit), coq_cfg(cfg), ctor, ';'.join(coq_op2(o) for o in ops))


def mk_case2(kind, cfg, ops, jit):
    exp, _ = impl_outcome(cfg, ops, 'tick', attrs=True)
    return Case(kind, coq_run2(cfg, ops, jit), exp, key=(repr(cfg), repr(ops), 'attrs'),
                nontrivial=nontrivial(exp), desc=desc_of(cfg, ops, 'tick'))


def desc_of(cfg, ops, mode):
    return {'cfg': repr(cfg), 'ops': repr(ops), 'mode': mode}


def nontrivial(out):
    # at least one fire / call event in the trace
    if out == [99]:                      # a library loop did not return: certainly worth looking at
        return True
    n, k, i = out[0], 0, 1
    while k < n:
        tag = out[i]
        if tag in (1, 2):
            return True
        i += {3: 1, 4: 2, 5: 1}[tag]
        k += 1
    return False


def mk_case(kind, cfg, ops, mode, jit, kshift=0, xshift=None):
    exp, _ = impl_outcome(cfg, ops, mode, kshift=kshift, xshift=xshift)
    d = desc_of(cfg, ops, mode)
    if kshift:
        d['kshift'] = kshift
    if xshift is not None:
        d['xshift'] = xshift
    return Case(kind, coq_run(cfg, ops, mode, jit), exp, key=(repr(cfg), repr(ops), mode, kshift, xshift),
                nontrivial=nontrivial(exp), desc=d)


ONE = (('one',), False, ())


def alphabet(ntasks):
    a = []
    for i in range(ntasks):
        a += [('install', i, 1), ('install', i, 2), ('after', i, 1), ('reinstall', i), ('suspend', i), ('resume', i)]
    a += [('advance', 1), ('poll',), ('runonce',)]
    return a


FLUSH = [('advance', 5), ('runonce',)]


def mk_packed_case(kind, cfg, prefix, alpha, mode, jit):
    """one case = the outcomes of prefix+[o]+FLUSH for every o of the alphabet, concatenated"""
    exp = []
    for o in alpha:
        e, _ = impl_outcome(cfg, list(prefix) + [o] + FLUSH, mode)
        exp += e
    coq = 'flat_map (fun o => canon_run tc_id true %d (run_ops true %s %s st0 (%s ++ o :: %s))) %s' % (
        len(cfg), zc(jit), coq_cfg(cfg), coq_ops(prefix), coq_ops(FLUSH), coq_ops(alpha))
    return Case(kind, coq, exp, key=(repr(cfg), repr(prefix), 'packed'), nontrivial=True,
                desc={'cfg': repr(cfg), 'prefix': repr(prefix), 'mode': mode, 'packed_over': 'alphabet', 'letters': repr(list(alpha))})


# ------------------------------------------------------------------ generators
def gen_dfn_forest(rng, nmax, nextid, raise_p=0.3, depth=0):
    """random forest with at most nmax functions; ids from nextid (a 1-element list)"""
    out = []
    budget = nmax
    while budget > 0 and (not out or rng.random() < 0.7):
        i = nextid[0]; nextid[0] += 1
        budget -= 1
        kids = ()
        if budget > 0 and depth < 3 and rng.random() < 0.4:
            k = rng.randrange(1, budget + 1)
            kids = tuple(gen_dfn_forest(rng, k, nextid, raise_p, depth + 1))
            budget -= sum(size_dfn(c) for c in kids)
        out.append((i, rng.random() < raise_p, kids))
    return out


def size_dfn(d):
    return 1 + sum(size_dfn(c) for c in d[2])


def relabel(shape, mask, counter):
    """shape: forest without flags; assign ids in DFS order and raising flags from mask bits"""
    out = []
    for d in shape:
        i = counter[0]; counter[0] += 1
        kids = relabel(d, mask, counter)
        out.append((i, bool((mask >> i) & 1), tuple(kids)))
    return out


def forest_shapes(n):
    """all ordered forests with n nodes (as nested tuples of children)"""
    if n == 0:
        return [()]
    res = []
    for k in range(1, n + 1):            # size of the first tree
        for kids in forest_shapes(k - 1):
            for rest in forest_shapes(n - k):
                res.append((kids,) + rest)
    return res


def random_history_A(rng, length=200):
    nt = 4
    nextid = [0]
    cfg = []
    for i in range(nt):
        defers = tuple(gen_dfn_forest(rng, 3, nextid)) if rng.random() < 0.4 else ()
        cfg.append((('one',), rng.random() < 0.25, defers))
    ops = []
    for _ in range(length):
        r = rng.random()
        i = rng.randrange(nt)
        if r < 0.22: ops.append(('install', i, rng.randrange(0, 12) + (rng.randrange(0, 40) if rng.random() < 0.3 else 0)))
        elif r < 0.34: ops.append(('after', i, rng.choice([0, 0, 1, 1, 2, 3, -1])))
        elif r < 0.40: ops.append(('reinstall', i))
        elif r < 0.50: ops.append(('suspend', i))
        elif r < 0.56: ops.append(('resume', i))
        elif r < 0.70: ops.append(('advance', rng.choice([0, 1, 1, 1, 2, 3])))
        elif r < 0.74: ops.append(('todue',))
        elif r < 0.84: ops.append(('poll',))
        elif r < 0.90: ops.append(('defer', gen_dfn_forest(rng, 3, nextid)[0]))
        elif r < 0.97: ops.append(('runonce',))
        else: ops.append(('run',))
    ops += [('advance', 60), ('runonce',), ('runonce',), ('run',)]
    return cfg, ops


IV_GRID_MS = [F(100), F(300), F(1000, 3), F(1000), F(250), F(7), F(60000), F(1, 10), F(2000, 3), F(1), F(12345, 1000)]
BASES_SMALL = [0, 1, 999, 3600, 86400 * 30]
BASES_EPOCH = [1700000000, 1758600000, 2 ** 31, 4000000000]
MARGIN = 15                       # ticks = 5 us


def boundary_safe(cfg, t, owner=None):
    """clock reading t is at least MARGIN away from every slot boundary of every recurring task (both as
    read and with the install jitter added), except for `owner`, whose slot it is exactly"""
    for i, k in enumerate(cfg):
        if k[0][0] == 'rec':
            iv, off = k[0][1], k[0][2]
            m0 = (t - off) % iv
            if i == owner and m0 == 0:
                continue
            for m in (m0, (t + JIT_B - off) % iv):
                if m < MARGIN or iv - m < MARGIN:
                    return False
    return True


def gen_recurring(rng, epoch, nops=30, with_acts=False):
    """recurring-task history with the exact clock tracked by Ref; returns (cfg, ops) or None when a
    clock reading would come within MARGIN of another pending due time (floats could then order
    differently from exact arithmetic: not part of what is compared)"""
    nt = rng.choice([1, 2, 2, 3])
    cfg = []
    for i in range(nt):
        if i > 0 and rng.random() < 0.3:
            cfg.append((('one',), rng.random() < 0.2, ()))
            continue
        iv = rng.choice(IV_GRID_MS) * TICKS_PER_S / 1000
        assert iv.denominator == 1
        iv = int(iv)
        off = rng.choice([0, 0, iv // 3, iv // 2, iv - 3000, rng.randrange(iv), iv + iv // 3, 2 * iv + 5000])
        acts = ()
        if with_acts and rng.random() < 0.7:
            acts = tuple(rng.choice([('suspend', i), ('suspend', i), ('reinstall', i), ('suspend', rng.randrange(nt)),
                                     ('resume', rng.randrange(nt)), ('reinstall', rng.randrange(nt))])
                         for _ in range(rng.choice([1, 1, 2])))
        cfg.append((('rec', iv, off), rng.random() < 0.1, (), acts))
    base = rng.choice(BASES_EPOCH if epoch else BASES_SMALL) * TICKS_PER_S + rng.randrange(TICKS_PER_S)
    ref = Ref(cfg, JIT_B)
    ops = []

    def safe_now(t, todue=False):
        # the task whose own due time the clock is moved onto by ToDue is exempt: the library then
        # compares a float with itself.  An `advance` that lands exactly on a due time is not (the
        # clock float is then computed along another path than the due float).
        owner = ref.heap[0][2] if todue and ref.heap and ref.heap[0][0] == t else None
        for (w, n, i) in ref.heap:
            if i != owner and abs(w - t) < MARGIN:
                return False
        return boundary_safe(cfg, t, owner)

    def heap_safe():
        hs = ref.heap
        for a in range(len(hs)):
            for b in range(a + 1, len(hs)):
                if abs(hs[a][0] - hs[b][0]) < MARGIN:
                    return False
        return True

    def push(o):
        ops.append(o)
        ref.step(o)

    if not safe_now(base):
        return None
    push(('advance', base, base))
    for _ in range(nops):
        r = rng.random()
        i = rng.randrange(nt)
        one = cfg[i][0][0] == 'one'
        if r < 0.25:
            if one:
                push(('install', i, ref.now + rng.randrange(0, 3 * TICKS_PER_S)))
            else:
                push(('reinstall', i))
        elif r < 0.32: push(('suspend', i))
        elif r < 0.37: push(('resume', i))
        elif r < 0.62:
            if ref.heap and not safe_now(max(ref.now, ref.heap[0][0]), todue=True):
                return None
            push(('todue',))
            push(rng.choice([('poll',), ('runonce',), ('poll',), ('run',)]))
        elif r < 0.80:
            # late: move past the head by a generic amount, then fire
            d = rng.choice([rng.randrange(1, 3000), rng.randrange(1, 4 * TICKS_PER_S), rng.randrange(1, 200) * 30000])
            tgt = ref.now + d
            if not safe_now(tgt):
                return None
            push(('advance', d, tgt))
            push(rng.choice([('poll',), ('runonce',), ('run',)]))
        else:
            push(rng.choice([('poll',), ('runonce',)]))
        if not heap_safe():
            return None
    return cfg, ops


# ---- (R) installation histories of recurring tasks: interval / offset given to the constructor, at install time,
#      again with / without new values, while pending or suspended, refused values
def boundary_safe_dyn(ivs, t, owner=None):
    """boundary_safe for the attributes in force (i -> [interval, offset], None = unset)"""
    for i, (iv, off) in ivs.items():
        if iv is None or iv <= 0:
            continue
        off = off or 0
        m0 = (t - off) % iv
        if i == owner and m0 == 0:
            continue
        for m in (m0, (t + JIT_B - off) % iv):
            if m < MARGIN or iv - m < MARGIN:
                return False
    return True


def gen_recurring_R(rng, nops=26):
    """returns (cfg, ops) or None (a clock reading too close to a slot boundary / foreign due time)"""
    nt = rng.choice([1, 1, 2, 2, 3])

    def pick_iv():
        return int(rng.choice(IV_GRID_MS[:7] + IV_GRID_MS[8:]) * TICKS_PER_S / 1000)

    def pick_off(iv):
        iv = iv if iv and iv > 0 else 300000
        return rng.choice([0, iv // 3, iv // 2, iv - 3000, rng.randrange(iv), iv + iv // 3])
    cfg = []
    for i in range(nt):
        if i > 0 and rng.random() < 0.2:
            cfg.append((('one',), False, ()))
            continue
        iv = None if rng.random() < 0.3 else pick_iv()
        off = rng.choice([None, None, 0, pick_off(iv)])
        cfg.append((('rec', iv, off, 'x'), rng.random() < 0.05, ()))
    base = rng.choice(BASES_SMALL) * TICKS_PER_S + rng.randrange(TICKS_PER_S)
    ref = Ref(cfg, JIT_B)
    ops = []

    def safe_now(t, todue=False, ivs=None):
        owner = ref.heap[0][2] if todue and ref.heap and ref.heap[0][0] == t else None
        for (w, n, i) in ref.heap:
            if i != owner and abs(w - t) < MARGIN:
                return False
        return boundary_safe_dyn(ivs or ref.ivs, t, owner)

    def heap_safe():
        hs = ref.heap
        return all(abs(hs[a][0] - hs[b][0]) >= MARGIN for a in range(len(hs)) for b in range(a + 1, len(hs)))

    def push(o):
        ops.append(o)
        ref.step(o)

    if not safe_now(base):
        return None
    push(('advance', base, base))
    for _ in range(nops):
        r = rng.random()
        i = rng.randrange(nt)
        one = cfg[i][0][0] == 'one'
        if r < 0.30:
            if one:
                push(rng.choice([('install', i, ref.now + rng.randrange(0, 3 * TICKS_PER_S)), ('installiv', i, 300000, None)]))
            else:
                # install_task(interval=, offset=): new values, the old ones again, only one of the two, refused ones
                cur = ref.ivs[i]
                iv = rng.choice([None, None, pick_iv(), pick_iv(), cur[0], 0 if rng.random() < 0.3 else pick_iv(), -3000 if rng.random() < 0.2 else pick_iv()])
                off = rng.choice([None, None, 0, 0, cur[1], pick_off(iv if iv and iv > 0 else cur[0])])
                new = dict(ref.ivs)
                new[i] = [cur[0] if iv is None else iv, cur[1] if off is None else off]
                if not safe_now(ref.now, ivs=new):
                    continue
                push(('installiv', i, iv, off))
        elif r < 0.38: push(('reinstall', i))
        elif r < 0.46: push(('suspend', i))
        elif r < 0.52: push(('resume', i))
        elif r < 0.74:
            if ref.heap and not safe_now(max(ref.now, ref.heap[0][0]), todue=True):
                return None
            push(('todue',))
            push(rng.choice([('poll',), ('runonce',), ('poll',), ('run',)]))
        elif r < 0.90:
            d = rng.choice([rng.randrange(1, 3000), rng.randrange(1, 4 * TICKS_PER_S), rng.randrange(1, 200) * 30000])
            tgt = ref.now + d
            if not safe_now(tgt):
                return None
            push(('advance', d, tgt))
            push(rng.choice([('poll',), ('runonce',), ('run',)]))
        else:
            push(rng.choice([('poll',), ('runonce',)]))
        if not heap_safe():
            return None
    return cfg, ops


def recurring_R_grid():
    """every way of giving the interval (constructor / first install / a later install while pending / after a suspend /
    after a suspend + resume / twice in a row) x every way of giving the offset (never, constructor, constructor 0, install,
    reset to 0 at a later install), each followed by four on-time firings, a late one and a suspend"""
    A, B = 300000, 750000            # 0.1 s and 0.25 s in ticks
    out = []
    fire = [('todue',), ('poll',)]
    for civ in (None, A):
        for coff in (None, 0, 30000):
            for first in ((None, None), (A, None), (B, None), (B, 60000), (None, 60000), (A, 0)):
                for later in (None, (None, None), (B, None), (A, None), (None, 90000), (None, 0), (B, 0), (A, 45000)):
                    for between in ((), (('suspend', 0),), (('suspend', 0), ('resume', 0)), (('reinstall', 0),)):
                        if later is None and between:
                            continue
                        cfg = [(('rec', civ, coff, 'x'), False, ())]
                        ops = [('advance', 777, 777), ('installiv', 0, first[0], first[1])] + fire * 2
                        if later is not None:
                            ops += list(between) + [('installiv', 0, later[0], later[1])] + fire * 3
                        ops += [('advance', 1000000, None), ('runonce',)] + fire + [('suspend', 0), ('advance', 3100777, None), ('runonce',)]
                        # absolute targets for the two late advances, margins checked on the port of the model
                        ref, fixed, ok = Ref(cfg, JIT_B), [], True
                        for o in ops:
                            if o[0] == 'advance' and o[2] is None:
                                o = ('advance', o[1], ref.now + o[1])
                            if o[0] == 'advance' and not (boundary_safe_dyn(ref.ivs, o[2]) and all(abs(w - o[2]) >= MARGIN for (w, n, i) in ref.heap)):
                                ok = False
                            if o[0] == 'installiv':
                                cur = ref.ivs[0]
                                new = {0: [cur[0] if o[2] is None else o[2], cur[1] if o[3] is None else o[3]]}
                                if not boundary_safe_dyn(new, ref.now, owner=0):
                                    ok = False
                            fixed.append(o)
                            ref.step(o)
                        if ok:
                            out.append((cfg, fixed))
    return out


# ---- (H) heap-position-targeted histories: for every heap size and every array slot, the task sitting in that slot
#      is suspended / moved later / moved earlier, then more tasks are installed and time goes on
def heap_layout(installs):
    """the array heapq builds for these pushes (time, task) in order; heapq is trusted (a pure function)"""
    import heapq
    h = []
    for n, (t, i) in enumerate(installs):
        heapq.heappush(h, (t, n, i))
    return h


def heap_time_layouts(rng, n, nrandom):
    zig = [(k // 2 + 1) if k % 2 == 0 else (10 + k // 2) for k in range(n)]          # 1,10,2,11,3,12,...
    lay = [list(range(1, n + 1)), list(range(n, 0, -1)), zig]
    for _ in range(nrandom):
        lay.append([rng.randrange(1, 22) for _ in range(n)])
    return lay


_HEAP_ARRAYS = {}


def heap_arrays(n):
    """every array of the keys 1..n that satisfies the heap condition a[(k-1)//2] < a[k]: 1, 1, 2, 3, 8, 20, 80, 210
    arrays for n = 1..8.  Pushing the keys in array order builds exactly that array (nothing sifts)."""
    if n not in _HEAP_ARRAYS:
        res = []

        def go(arr, left):
            k = len(arr)
            if k == n:
                res.append(list(arr))
                return
            for v in sorted(left):
                if k == 0 or arr[(k - 1) // 2] < v:
                    arr.append(v); left.remove(v)
                    go(arr, left)
                    arr.pop(); left.add(v)
        go([], set(range(1, n + 1)))
        _HEAP_ARRAYS[n] = res
    return _HEAP_ARRAYS[n]


def heap_order_type_histories(rng, nmax, tie_nmax, sample_from=99, keep=1.0):
    """[(cfg, [history, ...])]: for every heap size n <= nmax and EVERY heap-ordered arrangement of n distinct due
    times (and, for n <= tie_nmax, the same arrangements with the times colliding in pairs), one history per array slot
    and action: the task in that slot is suspended / moved behind everything / moved in front of everything; 2 and 6 more
    tasks are installed; when everything is due the queue is emptied one poll at a time and by run_once"""
    groups = []
    for n in range(2, nmax + 1):
        for arr in heap_arrays(n):
            if n >= sample_from and rng.random() >= keep:
                continue
            for ties in ((False, True) if n <= tie_nmax else (False,)):
                times = [2 * ((v + 1) // 2 if ties else v) for v in arr]
                installs = [('install', i, times[i]) for i in range(n)]          # task i sits in slot i
                extra = [('install', n + k, rng.randrange(0, 2 * n + 3)) for k in range(6)]
                hs = []
                for p in range(n):
                    for ai, action in enumerate((('suspend', p), ('install', p, 2 * n + 4), ('install', p, 0))):
                        # 2 or 6 further installs (a damaged spot stays inside the heap only while it is not the last entry)
                        for ne in (2, 6):
                            tail = [('poll',)] * (n + ne) if (p + ai) % 2 == 0 else [('poll',)] * (n // 2) + [('runonce',), ('poll',)]
                            hs.append(installs + [action] + extra[:ne] + [('advance', 2 * n + 4)] + tail)
                groups.append(([ONE] * (n + 6), hs))
    return groups


def heap_position_histories(rng, sizes, nrandom):
    """[(cfg, [history, ...])]: one group per (heap size, time layout); a history per (slot, action)"""
    groups = []
    for n in sizes:
        for times in heap_time_layouts(rng, n, nrandom):
            installs = [('install', i, times[i]) for i in range(n)]
            arr = heap_layout([(times[i], i) for i in range(n)])
            later = [rng.randrange(1, 22) for _ in range(3)]
            hs = []
            for p in range(n):
                victim = arr[p][2]
                for action in (('suspend', victim), ('install', victim, 23), ('install', victim, 0), ('after', victim, 3)):
                    ops = installs + [action] + [('install', n + k, later[k]) for k in range(3)]
                    for _ in range(12):
                        ops = ops + [('advance', 2), ('poll',), ('runonce',)]
                    hs.append(ops)
            groups.append(([ONE] * (n + 3), hs))
    return groups


def mk_group_case(kind, cfg, histories, mode='int', jit=1):
    """one case = the outcomes of several histories over one configuration, concatenated"""
    exp = []
    for ops in histories:
        e, _ = impl_outcome(cfg, ops, mode)
        exp += e
    coq = 'flat_map (fun ops => canon_run tc_id true %d (run_ops true %s %s st0 ops)) [%s]' % (
        len(cfg), zc(jit), coq_cfg(cfg), ';'.join(coq_ops(h) for h in histories))
    return Case(kind, coq, exp, key=(repr(cfg), repr(histories[0]), len(histories), 'group'), nontrivial=True,
                desc={'cfg': repr(cfg), 'histories': repr(histories), 'mode': mode})


# ---- (X) exception values: every shape x every kind of callable x every position of a batch; raising tasks
def exception_value_histories():
    """[(cfg, ops, kshift, xshift)]"""
    out = []
    NS, NK = len(XSHAPES), 6
    for shape in range(NS):
        for kind in range(5):                                   # a builtin leaf cannot raise
            for pos in range(3):
                # a batch of four: the function at `pos` raises with that shape and is that kind of callable; function 0
                # defers one more (so that the queue "looks alive" when the rest of the batch is dropped)
                batch = [(0, pos == 0, ((4, False, ()),)), (1, pos == 1, ()), (2, pos == 2, ()), (3, False, ())]
                ksh, xsh = (kind - pos) % NK, (shape - pos) % NS
                for loop in ('runonce', 'run'):
                    out.append(([], [('defer', d) for d in batch] + [(loop,)], ksh, xsh))
        # two raising functions of different shapes in one batch, the second deferred by the first
        batch = [(0, True, ((3, True, ()),)), (1, False, ()), (2, True, ())]
        out.append(([], [('defer', d) for d in batch] + [('runonce',)], shape % NK, shape))
        out.append(([], [('defer', d) for d in batch] + [('run',)], (shape + 2) % NK, shape))
        # a raising TASK (shape of task k = XSHAPES[(k + xshift + 5) % NS]) among tasks due at the same time, with deferred
        # functions queued before and by the tasks
        cfg = [(('one',), False, ((1, False, ()),)), (('one',), True, ((2, True, ()), (3, False, ()))), ONE]
        pre = [('install', 0, 1), ('install', 1, 1), ('install', 2, 1), ('defer', (0, True, ())), ('advance', 1)]
        xsh = (shape - 1 - 5) % NS
        out.append((cfg, pre + [('runonce',), ('runonce',), ('runonce',)], shape % NK, xsh))
        out.append((cfg, pre + [('run',)], (shape + 1) % NK, xsh))
        out.append((cfg, pre + [('poll',), ('poll',), ('runonce',)], (shape + 2) % NK, xsh))
    return out


def deferred_cases(tier):
    """every raising subset of every batch shape: flat batches of 1..6, and all forests of <= 4 (quick) / 5 functions"""
    out = []
    for n in range(1, 7):
        shape = tuple(() for _ in range(n))
        for mask in range(1 << n):
            out.append(relabel(shape, mask, [0]))
    for n in range(2, 5 if tier != 'thorough' else 6):
        for shape in forest_shapes(n):
            if all(s == () for s in shape):
                continue
            for mask in range(1 << n):
                out.append(relabel(shape, mask, [0]))
    return out


# ---- (L) many tasks pending at once: heap shapes of depth 3-5, entries removed from the middle
def random_history_L(rng, nops=140):
    nt = rng.randrange(8, 25)
    cfg = [ONE] * nt
    ops = []
    order = list(range(nt))
    rng.shuffle(order)
    for i in order:                                   # fill the heap: colliding times, arbitrary insertion order
        ops.append(('install', i, rng.randrange(1, 30)))
    clock = 0
    for _ in range(nops):
        r = rng.random()
        i = rng.randrange(nt)
        if r < 0.22: ops.append(('suspend', i))
        elif r < 0.52: ops.append(('install', i, clock + rng.randrange(0, 25)))
        elif r < 0.57: ops.append(('after', i, rng.randrange(0, 12)))
        elif r < 0.62: ops.append(('resume', i))
        elif r < 0.80:
            ops.append(('advance', 1)); clock += 1
        elif r < 0.93: ops.append(('poll',))
        else: ops.append(('runonce',))
    for _ in range(12):                               # then time goes on step by step
        ops += [('advance', 3), ('poll',), ('poll',), ('runonce',)]
    return cfg, ops


# ---- (U) operations issued before a TaskManager exists (task._unscheduled_tasks)
def gen_premanager(rng, restricted):
    """returns (cfg, pre, equivalent model ops).  restricted: every task that is suspended is installed again later in
    the prelude, so that the model (which has no pre-manager list) reaches the same state by plain installs"""
    nt = rng.randrange(3, 7)
    pre, lst, last = [], [], {}
    for _ in range(rng.randrange(3, 12)):
        if lst and rng.random() < 0.35:
            i = rng.choice(lst)
            pre.append(('suspend', i)); lst.remove(i)
        else:
            i = rng.randrange(nt)
            t = rng.choice([1, 1, 2, 3])               # equal deadlines on purpose
            pre.append(('install', i, t)); lst.append(i); last[i] = t
    if restricted:
        for i in sorted(last):
            if i not in lst:
                t = rng.choice([1, 2]); pre.append(('install', i, t)); lst.append(i); last[i] = t
    return [ONE] * nt, pre, [('install', i, last[i]) for i in lst]


# ---- (C) callbacks with scheduling actions
def act_alphabet(nt):
    a = []
    for j in range(nt):
        a += [('install', j, 1), ('install', j, 3), ('after', j, 0), ('after', j, 1), ('reinstall', j), ('suspend', j), ('resume', j)]
    return a


def livelocks(cfg, ops, jit=1):
    r = Ref(cfg, jit)
    for o in ops:
        r.step(o)
        if r.livelock:
            return True
    return False


def mk_packed_case_f(kind, cfg, prefix, alpha, jit=1):
    """like mk_packed_case, letters whose history would spin (callbacks re-installing due tasks for ever) left out"""
    letters = [o for o in alpha if not livelocks(cfg, list(prefix) + [o] + FLUSH, jit)]
    if not letters:
        return None
    return mk_packed_case(kind, cfg, prefix, letters, 'int', jit)


def random_acts(rng, nt, pmax=2, relnow=None):
    n = rng.choice([0, 0, 1, 1, 2][:pmax + 3])
    return tuple(rng.choice(act_alphabet(nt)) for _ in range(n))


def gen_dfn_forest_acts(rng, nmax, nextid, nt):
    def deco(d):
        acts = random_acts(rng, nt) if rng.random() < 0.4 else ()
        return (d[0], d[1], tuple(deco(c) for c in d[2]), acts)
    return [deco(d) for d in gen_dfn_forest(rng, nmax, nextid)]


def random_history_C(rng, length=60):
    nt = rng.choice([2, 3, 4])
    nextid = [0]
    cfg = []
    for i in range(nt):
        defers = tuple(gen_dfn_forest_acts(rng, 2, nextid, nt)) if rng.random() < 0.3 else ()
        cfg.append((('one',), rng.random() < 0.15, defers, random_acts(rng, nt) if rng.random() < 0.7 else ()))
    for _ in range(20):
        ops = []
        for _ in range(length):
            r = rng.random()
            i = rng.randrange(nt)
            if r < 0.25: ops.append(('install', i, rng.randrange(0, 12)))
            elif r < 0.35: ops.append(('after', i, rng.choice([0, 1, 1, 2])))
            elif r < 0.40: ops.append(('reinstall', i))
            elif r < 0.46: ops.append(('suspend', i))
            elif r < 0.50: ops.append(('resume', i))
            elif r < 0.68: ops.append(('advance', rng.choice([0, 1, 1, 2])))
            elif r < 0.72: ops.append(('todue',))
            elif r < 0.84: ops.append(('poll',))
            elif r < 0.88: ops.append(('defer', gen_dfn_forest_acts(rng, 2, nextid, nt)[0]))
            elif r < 0.96: ops.append(('runonce',))
            else: ops.append(('run',))
        ops += [('advance', 30), ('runonce',), ('poll',)]
        if not livelocks(cfg, ops):
            return cfg, ops
    return None


def gen_recurring_acts(rng, epoch):
    """recurring tasks whose callbacks suspend / re-install themselves or each other"""
    for _ in range(50):
        g = gen_recurring(rng, epoch, nops=20, with_acts=True)
        if g is not None and not livelocks(g[0], g[1], JIT_B):
            return g
    return None


# ---- (S) symmetry-reduced exhaustive exploration
def rel_alphabet(nt):
    a = []
    for i in range(nt):
        a += [('rel', i, 1), ('rel', i, 2), ('after', i, 1), ('reinstall', i), ('suspend', i), ('resume', i)]
    return a + [('advance', 1), ('poll',), ('runonce',)]


def resolve_rel(seq):
    """'rel' letters (install_task(when=now+d)) become absolute installs; the clock only moves by 'advance 1'"""
    out, clock = [], 0
    for o in seq:
        if o[0] == 'rel':
            out.append(('install', o[1], clock + o[2]))
        else:
            out.append(o)
            if o[0] == 'advance':
                clock += o[1]
    return out


def impl_state_key(im):
    """the whole state of the implementation (heap ARRAY as laid out, counters, flags, task times, clock, deferred
    queue) up to task renaming (within a config class), time translation and order-preserving counter renaming"""
    now = im.NOW[0]
    arr = [(w, n, t.i) for (w, n, t) in im.tm.tasks]
    ranks = {n: k for k, n in enumerate(sorted(n for (_, n, _) in arr))}
    pos = {i: (k, ranks[n], w - now) for k, (w, n, i) in enumerate(arr)}
    sig = []
    for t in im.tasks:
        tt = None if t.taskTime is None else t.taskTime - now
        sig.append((repr(im.cfg[t.i]), tt is None, tt or 0, t.isScheduled, pos.get(t.i, (-1, -1, 0))))
    return (tuple(sorted(sig)), tuple(im.pending_ids()))


def explore(cfg, depth, reps=1, mode='int'):
    """breadth-first over the implementation's own states; returns {state key: [representative histories]}
    for every state reachable by <= depth letters"""
    alpha = rel_alphabet(len(cfg))

    def run(seq):
        im = Impl(cfg, tf_of(mode))
        for o in resolve_rel(seq):
            im.step(o)
        return im
    seen = {impl_state_key(run(())): [()]}
    frontier = [()]
    for d in range(depth):
        nxt = []
        for seq in frontier:
            for o in alpha:
                s2 = seq + (o,)
                k = impl_state_key(run(s2))
                if k not in seen:
                    seen[k] = [s2]
                    nxt.append(s2)
                elif len(seen[k]) < reps and len(s2) > len(seen[k][0]):
                    seen[k].append(s2)          # a second, longer way into the same state
        frontier = nxt
    return seen


def symmetric_cases(cfg, depth, kind, reps=1, mode='int'):
    """one packed case per (state, representative): the representative history followed by every letter"""
    out = []
    alpha = rel_alphabet(len(cfg))
    states = explore(cfg, depth, reps, mode)
    for key, seqs in states.items():
        for seq in seqs:
            exp = []
            coq_parts = []
            for o in alpha:
                ops = resolve_rel(list(seq) + [o]) + FLUSH
                e, _ = impl_outcome(cfg, ops, mode)
                exp += e
                coq_parts.append(coq_ops(ops))
            coq = 'flat_map (fun ops => canon_run tc_id true %d (run_ops true 1 %s st0 ops)) [%s]' % (
                len(cfg), coq_cfg(cfg), ';'.join(coq_parts))
            out.append(Case(kind, coq, exp, key=(repr(cfg), repr(seq), 'sym', mode), nontrivial=True,
                            desc={'cfg': repr(cfg), 'prefix': repr(resolve_rel(seq)), 'mode': mode, 'packed_over': 'rel-alphabet',
                                  'letters': repr(alpha)}))
    return out, len(states)


EXHAUSTIVE_NOTE = {}


def cases(rng, tier):
    HANGS[0] = 0
    out = []
    # (A) exhaustive short histories over 2 one-shot tasks, packed by last letter: every history of
    # length <= 3 (quick: + a sample of length 4) / <= 5 (thorough)
    big = tier == 'thorough'
    cfg2 = [ONE, ONE]
    alpha = alphabet(2)
    for L in range(0, 5 if big else 4):
        for prefix in itertools.product(alpha, repeat=L):
            if L == 3 and not big and rng.random() >= 0.25:
                continue
            if L == 4 and rng.random() >= 0.3:
                continue
            out.append(mk_packed_case('A-exhaustive', cfg2, prefix, alpha, 'int', 1))
    # a raising task among colliding ones, over 3 tasks
    cfg3 = [ONE, (('one',), True, ()), ONE]
    alpha3 = alphabet(3)
    for L in range(0, 4 if big else 3):
        for prefix in itertools.product(alpha3, repeat=L):
            if L == 2 and not big and rng.random() >= 0.35:
                continue
            if L == 3 and rng.random() >= 0.3:
                continue
            out.append(mk_packed_case('A-exhaustive-raising', cfg3, prefix, alpha3, 'int', 1))
    # (S) symmetry-reduced exhaustive exploration: every history of <= depth+1 letters over 4 one-shot tasks and the
    # 27-letter relative alphabet, one representative per implementation state (see impl_state_key)
    plain4 = [ONE, ONE, ONE, ONE]
    d4 = 6 if not big else 9
    cs, n4 = symmetric_cases(plain4, d4, 'S-symmetric-4tasks', reps=1 if not big else 2)
    out += cs
    # the same exploration with a clock that moves in steps of 2^-22 s (0.24 us): the clock sits 1, 2, ... ticks
    # before due times, all floats exact (a release "within the timer resolution" shows here)
    cs, nf = symmetric_cases(plain4, 5 if not big else 7, 'S-symmetric-4tasks-fine-clock', reps=1, mode='fine')
    out += cs
    for cfgb, ops, mode in boundary_histories():
        out.append(mk_case('F-boundary-sub-microsecond', cfgb, ops, mode, 1))
    cs, nf2 = symmetric_cases(plain4, 4 if not big else 6, 'S-symmetric-4tasks-fine-clock', reps=1, mode='finer')
    out += cs
    mixed3 = [ONE, (('one',), True, ()), ONE, (('one',), False, (), (('suspend', 0),))]
    d3 = 4 if not big else 6
    cs, n3 = symmetric_cases(mixed3, d3, 'S-symmetric-raising+acting', reps=1)
    out += cs
    note3 = ''
    if big:
        defer3 = [(('one',), False, ((0, True, ()), (1, False, ()))), (('one',), True, ((2, False, ((3, False, ()),)),)), ONE]
        cs, n5 = symmetric_cases(defer3, 5, 'S-symmetric-deferring', reps=1)
        out += cs
        note3 = '; to length 6 over {deferring [raising fn, fn], raising and deferring a spawning fn, plain}: %d states x 21 letters' % n5
    EXHAUSTIVE_NOTE['S'] = ('every history of length <= %d over 4 interchangeable one-shot tasks and the 27 letters {install_task(when=now+1|now+2), '
                            'install_task(delta=1), install_task(), suspend, resume} x task + {advance 1, poll, run_once}, followed by a flush, '
                            'explored breadth-first on the IMPLEMENTATION: %d distinct states (heap array layout, counters up to order, flags, '
                            'task times relative to the clock, up to task renaming) each extended by all 27 letters; the same to length %d over '
                            '{plain, raising, plain, plain-with-callback-suspending-task-0}: %d states x 27 letters%s; the 4-task exploration again to length %d with a '
                            'clock unit of 2^-22 s (%d states) and to length %d with 2^-25 s (%d states); 42 never-early boundary histories (clock 0.03 .. 1.4 us '
                            'before / between / on due times, exact floats, clocks 0, 1000 s, 1.7e9 s)' % (d4 + 1, n4, d3 + 1, n3, note3, (5 if not big else 7) + 1, nf, (4 if not big else 6) + 1, nf2))
    # raw sample that does not use the reduction: uniformly drawn histories of length 7 over the same 4 tasks and 27 letters
    ralpha4 = rel_alphabet(4)
    for n in range(300 if not big else 5000):
        seq = [rng.choice(ralpha4) for _ in range(7)]
        out.append(mk_case('S-raw-sample-len7-4tasks', plain4, resolve_rel(seq) + FLUSH, 'int' if n % 3 else 'fine', 1))
    # (L) 8-24 tasks pending at once
    for _ in range(120 if not big else 1500):
        cfgl, opsl = random_history_L(rng)
        out.append(mk_case('L-random-many-tasks', cfgl, opsl, 'int', 1))
    # (K) the install counter far beyond 65536: ties among equal times still go by installation order
    for n in ((65534, 70000) if big else (65534,)):
        opsk = [('install', 0, 5), ('burn', 1, 9, n), ('install', 2, 5), ('install', 3, 5), ('install', 4, 5), ('install', 0, 5),
                ('advance', 5), ('poll',), ('runonce',), ('advance', 9), ('runonce',)]
        out.append(mk_case('K-counter-beyond-65536', [ONE] * 5, opsk, 'int', 1))
    # (U) installs / suspends issued before the TaskManager exists, then the manager is created and time goes on
    for _ in range(60 if not big else 600):
        cfgu, pre, eq = gen_premanager(rng, restricted=True)
        tail = [('advance', 1), ('poll',), ('runonce',), ('advance', 2), ('run',)]
        exp, _ = impl_outcome(cfgu, tail, 'int', pre=pre)
        out.append(Case('U-before-manager-exists', coq_run(cfgu, eq + tail, 'int', 1), exp, key=(repr(pre), 'pre'),
                        nontrivial=nontrivial(exp), desc={'cfg': repr(cfgu), 'ops': repr(tail), 'pre': repr(pre), 'mode': 'int'}))
    # (C) callbacks that install / re-install / suspend / resume themselves or the other task
    alpha2 = alphabet(2)
    single = [()] + [(a,) for a in act_alphabet(2)]
    preludes = [(), (('install', 0, 1), ('install', 1, 1)), (('install', 1, 1), ('install', 0, 1)), (('install', 0, 1), ('install', 1, 2)),
                (('install', 0, 2), ('install', 1, 1))] + [(o,) for o in alpha2]
    for a0 in single:
        for a1 in single:
            if not a0 and not a1:
                continue
            cfgc = [(('one',), False, (), a0), (('one',), False, (), a1)]
            for pre in preludes:
                if not big and len(pre) == 1 and rng.random() >= 0.08:
                    continue
                c = mk_packed_case_f('C-callback-actions', cfgc, pre, alpha2)
                if c is not None:
                    out.append(c)
    for _ in range(150 if not big else 1500):
        g = random_history_C(rng)
        if g is not None:
            out.append(mk_case('C-random-60', g[0], g[1], 'int', 1))
    for epoch, mode in ((False, 'tick'), (True, 'slot')):
        for _ in range(80 if not big else 800):
            g = gen_recurring_acts(rng, epoch)
            if g is not None:
                out.append(mk_case('C-recurring-actions', g[0], g[1], mode, JIT_B))
    global RULE
    RULE = RULE_BASE + '  EXHAUSTIVE in this run: (S) ' + EXHAUSTIVE_NOTE['S'] + ('; (A) every history of length <= %d over 2 one-shot tasks and the '
            '15 absolute letters without symmetry reduction%s; (D) every raising subset of flat deferred batches of <= 6 and of every forest of <= %d '
            'functions, through run_once and run; (C) every pair of single-action callbacks over 2 tasks (15 x 15 - 1 configurations) with %s.'
            % ((4, ' plus 30% of length 5', 5, 'every prelude of the list x every letter') if big else
               (3, ' plus a quarter of length 4', 4, 'the 5 multi-task preludes and 8% of the one-letter preludes x every letter')))
    # (H) every heap size x every array slot: the task in that slot suspended / moved, more installs, time goes on
    for cfgh, hs in heap_position_histories(rng, range(2, 17), 1 if not big else 8):
        out.append(mk_group_case('H-heap-slot-targeted', cfgh, hs))
    for cfgh, hs in heap_order_type_histories(rng, 8 if not big else 9, 5 if not big else 8, sample_from=8 if not big else 9, keep=0.34 if not big else 0.5):
        out.append(mk_group_case('H-heap-every-order-type', cfgh, hs))
    # (X) exception values: every shape x kind of callable x position, raising tasks of every shape
    # (the model has no exception values: one model run stands for every shape / kind of callable of the same history)
    byhist = {}
    for cfgx, opsx, ksh, xsh in exception_value_histories():
        byhist.setdefault((repr(cfgx), repr(opsx)), (cfgx, opsx, []))[2].append((ksh, xsh))
    for cfgx, opsx, variants in byhist.values():
        exp = []
        for ksh, xsh in variants:
            exp += impl_outcome(cfgx, opsx, 'int', kshift=ksh, xshift=xsh)[0]
        out.append(Case('X-exception-values', 'concat (repeat (%s) %d)' % (coq_run(cfgx, opsx, 'int', 1), len(variants)), exp,
                        key=(repr(cfgx), repr(opsx), 'xvalues'), nontrivial=True,
                        desc={'cfg': repr(cfgx), 'ops': repr(opsx), 'mode': 'int', 'variants (kshift, xshift)': repr(variants)}))
    # (R) recurring tasks: installation histories with interval / offset as attributes (SchedIv.v)
    for nth, (cfgr, opsr) in enumerate(recurring_R_grid()):
        if big or nth % 3 == rng.randrange(3) or len(opsr) < 16:        # quick: a third of the grid (the direct predicate runs all of it)
            out.append(mk_case2('R-recurring-install-grid', cfgr, opsr, JIT_B))
    got = tries = 0
    while got < (250 if not big else 2500) and tries < 50000:
        tries += 1
        g = gen_recurring_R(rng)
        if g is not None:
            got += 1
            out.append(mk_case2('R-recurring-install-histories', g[0], g[1], JIT_B))
    # (A) random long histories
    for n in range(40 if tier != 'thorough' else 600):
        cfg, ops = random_history_A(rng)
        out.append(mk_case('A-random-200', cfg, ops, 'int' if n % 2 == 0 else 'fine', 1, xshift=None if n % 4 < 2 else n))
    # (B) recurring
    want = 200 if tier != 'thorough' else 2000
    for epoch, mode, kind in ((False, 'tick', 'B-recurring-tick'), (True, 'slot', 'B-recurring-epoch-slot')):
        got = tries = 0
        while got < want and tries < want * 20:
            tries += 1
            g = gen_recurring(rng, epoch)
            if g is None:
                continue
            got += 1
            out.append(mk_case(kind, g[0], g[1], mode, JIT_B))
    # grid: every interval x offset x base, installed then fired on time 6 times, then late once
    for epoch, mode in ((False, 'tick'), (True, 'slot')):
        for ivms in IV_GRID_MS:
            iv = int(ivms * TICKS_PER_S / 1000)
            for off in (0, iv // 3, iv - 3000, iv + iv // 3, 3 * iv + 600):
                for b in (BASES_EPOCH if epoch else BASES_SMALL):
                    base = b * TICKS_PER_S + 777
                    cfg = [(('rec', iv, off), False, ())]
                    if not boundary_safe(cfg, base):
                        continue
                    ops = [('advance', base, base), ('reinstall', 0)] + [('todue',), ('poll',)] * 6
                    out.append(mk_case('B-grid', cfg, ops, mode, JIT_B))
    # API refusals on recurring tasks: install_task(when=) / (delta=) are TypeErrors, resume before any
    # install and non-positive intervals are RuntimeErrors; the task stays unqueued
    for kind in (('rec', 300000, 0), ('rec', 0, 0), ('rec', -3000, 0)):
        cfgr = [(kind, False, ()), ONE]
        for first in (('install', 0, 5), ('after', 0, 5), ('resume', 0), ('reinstall', 0), ('suspend', 0)):
            ops = [('advance', 777, 777), first, ('reinstall', 0), ('install', 1, 900), ('todue',), ('runonce',), ('todue',), ('poll',)]
            out.append(mk_case('B-api-errors', cfgr, ops, 'tick', JIT_B))
    # (D) deferred batches
    for nth, forest in enumerate(deferred_cases(tier)):
        ops = [('defer', d) for d in forest]
        # the callable kind of function k is KINDS[(k + shift) % 6]: over the masks every position is, in turn, a bound
        # method, a plain function, a lambda, a functools.partial, an instance with __call__ (and a builtin when it is a leaf)
        # the exception raised by function k has shape XSHAPES[(k + xshift) % len]; one run in three keeps Boom('<who>')
        xs = None if nth % 3 == 0 else (nth * 7) % len(XSHAPES)
        out.append(mk_case('D-run_once', [], ops + [('runonce',)], 'int', 1, kshift=nth % 6, xshift=xs))
        out.append(mk_case('D-run', [], ops + [('run',)], 'int', 1, kshift=(nth + 3) % 6, xshift=None if xs is None else (xs + 11) % len(XSHAPES)))
    # deferred work submitted from (possibly raising) task callbacks that collide in time
    for _ in range(100 if tier != 'thorough' else 1000):
        nextid = [0]
        cfg = [(('one',), rng.random() < 0.3, tuple(gen_dfn_forest(rng, 3, nextid, 0.4))) for _ in range(3)]
        ops = [('install', i, rng.choice([1, 1, 2])) for i in range(3)]
        rng.shuffle(ops)
        ops += [('defer', d) for d in gen_dfn_forest(rng, 3, nextid, 0.4)]
        ops += [('advance', rng.choice([1, 2])), rng.choice([('runonce',), ('run',)]), ('advance', 2), ('runonce',), ('run',)]
        out.append(mk_case('D-from-tasks', cfg, ops, 'int', 1, kshift=rng.randrange(6), xshift=rng.choice([None, rng.randrange(len(XSHAPES))])))
    return out


# ------------------------------------------------------------------ direct predicate (implementation only)
def has_acts(cfg, ops):
    def walk(ds):
        for d in ds:
            yield d
            yield from walk(d[2])
    return any(acts_of(t) for t in cfg) or any(acts_of(d) for t in cfg for d in walk(t[2])) or \
        any(acts_of(d) for o in ops if o[0] == 'defer' for d in walk([o[1]]))


def check_history(cfg, ops, mode, fails, stats, pre=(), kshift=0, xshift=None):
    """Weakest reading of C14 on one history.  Bookkeeping (not a scheduler): which task is pending
    with which due time and installation rank, which deferred functions were submitted."""
    if DEADLINE[0] is not None and time.time() > DEADLINE[0]:
        raise _Budget()
    im = Impl(cfg, tf_of(mode), pre=pre, kshift=kshift, xshift=xshift)
    pending = {}            # i -> [due or None, rank]
    rank = itertools.count()
    if pre:
        # what was handed over before the manager existed: a suspend takes back one hand-over of that task;
        # creating the manager installs what is left, in order
        lst = []
        for o in pre:
            if o[0] == 'install':
                lst.append(o[1])
            elif o[1] in lst:
                lst.remove(o[1])
        for i in lst:
            pending[i] = [im.tasks[i].taskTime, next(rank)]
    last_fire_at = {}
    desc = desc_of(cfg, ops, mode)
    if pre:
        desc['pre'] = repr(list(pre))
    if kshift:
        desc['kshift'] = kshift
    if xshift is not None:
        desc['xshift'] = xshift
    seen_trace = len(im.trace)
    calls_seen = []
    fired_any = False

    def fail(kind, **kw):
        if len(fails) >= MAX_FAILS:          # badly broken tree: enough evidence, keep the check fast
            return
        d = dict(desc); d['kind'] = kind; d.update(kw)
        fails.append(d)

    # interval / offset last handed to each recurring task (constructor, then install_task(interval=, offset=), refused or
    # not): process_task can re-install the task after a firing only when that interval is a positive number
    handed = {i: list(ctor_attrs(k[0])) for i, k in enumerate(cfg) if k[0][0] == 'rec'}
    acted = [False]          # a callback installed something during the current op
    rearmed = []             # recurring tasks re-installed by process_task although their callback suspended them

    def absorb(opname):
        """process the new trace entries produced by one op, in order: firings, the scheduling actions of the
        callbacks (they change what is pending), deferred calls"""
        nonlocal seen_trace, fired_any
        new = im.trace[seen_trace:]
        seen_trace = len(im.trace)
        raised = False
        cur = [None, False, False]          # callback being followed: ('task', i) / ('dfn', id); an action failed; suspended itself

        def close():
            nonlocal raised
            if cur[0] is not None and cur[0][0] == 'task':
                i = cur[0][1]
                if cfg[i][1] or cur[1]:
                    raised = True
                elif cfg[i][0][0] == 'rec' and not (handed[i][0] and handed[i][0] > 0):
                    raised = True                            # the re-install is refused (RuntimeError out of process_task)
                elif cfg[i][0][0] == 'rec':
                    if cur[2]:
                        rearmed.append(i)
                    pending[i] = [None, next(rank)]          # process_task re-installs it
            cur[0], cur[1], cur[2] = None, False, False

        for e in new:
            if e[0] == 'act':
                _, kind, j, ok, tt = e
                if not ok:
                    cur[1] = True
                elif kind == 'suspend':
                    pending.pop(j, None)
                    if cur[0] == ('task', j):
                        cur[2] = True
                else:
                    pending[j] = [tt, next(rank)]
                    acted[0] = True
                    if cur[0] == ('task', j):
                        cur[2] = False
                continue
            close()
            if e[0] == 'fire':
                fired_any = True
                _, i, due, at = e
                if i not in pending:
                    fail('fired-while-not-pending', task=i, op=opname)     # twice, or after suspend
                    continue
                pdue, prank = pending[i]
                if pdue is not None and due != pdue:
                    fail('fired-with-stale-time', task=i, due=repr(due), expected=repr(pdue))
                if pdue is None and not (due > last_fire_at.get(i, float('-inf'))):
                    fail('recurring-slot-not-after-previous-fire', task=i, due=repr(due))
                if at < due:
                    fail('fired-early', task=i, due=repr(due), at=repr(at))
                for j, (dj, rj) in pending.items():
                    if j != i and dj is not None and pdue is not None and (dj, rj) < (due, prank):
                        fail('fired-out-of-order', task=i, before=j, due=repr(due), other_due=repr(dj))
                del pending[i]
                last_fire_at[i] = at
                cur[0] = ('task', i)
            elif e[0] == 'call':
                calls_seen.append(e[1])
                cur[0] = ('dfn', e[1])
        close()
        # the recurring tasks re-installed during this op now show their next time
        for i, p in pending.items():
            if p[0] is None:
                p[0] = im.tasks[i].taskTime
                if not (p[0] > last_fire_at[i]):
                    fail('recurring-next-not-after-fire', task=i, next=repr(p[0]), fired_at=repr(last_fire_at[i]))
        queued = {t.i for (_, _, t) in im.tm.tasks}
        for i in rearmed:
            if i in queued:
                fail('recurring-rearmed-after-self-suspend', task=i, op=opname)
        del rearmed[:]
        return raised

    for o in ops:
        k = o[0]
        before = len(im.trace)
        try:
            im.step(o)
        except Hang as h:
            fail('loop-does-not-return', op=k, why=str(h))
            if HANGS[0] >= 3:
                raise
            return im
        errs = [e for e in im.trace[before:] if e[0] == 'err']
        if k == 'installiv' and o[1] in handed:
            if o[2] is not None: handed[o[1]][0] = o[2]
            if o[3] is not None: handed[o[1]][1] = o[3]
        for e in im.trace[before:]:
            if e[0] == 'escape':
                # the loops contain what a callback raises (`except Exception`): an exception that comes out of run /
                # run_once / process_task's caller ends the loop for everybody else
                fail('exception-escaped-loop', op=k, exc=e[1])
        if k in ('install', 'after', 'reinstall', 'installiv', 'resume', 'burn') and not errs:
            pending[o[1]] = [im.tasks[o[1]].taskTime, next(rank)]
            if k in ('reinstall', 'installiv') and cfg[o[1]][0][0] == 'rec' and not (im.tasks[o[1]].taskTime > im.NOW[0]):
                fail('recurring-first-slot-not-strictly-after-install', task=o[1])
        elif k == 'suspend':
            pending.pop(o[1], None)
        acted[0] = False
        raised = absorb(k)
        now = im.NOW[0]
        if k in ('runonce', 'run', 'poll'):
            stats['evaluations'] += 1
            # a callback that installs a due task in the last iteration legitimately leaves it for the next pass
            due_left = [] if acted[0] else [j for j, (dj, rj) in pending.items() if dj is not None and dj <= now]
            if k == 'poll':
                fired = [e for e in im.trace[before:] if e[0] == 'fire']
                if len(fired) > 1:
                    fail('poll-fired-more-than-one')
            if k == 'run' and due_left:
                fail('due-task-not-run', op=k, tasks=due_left)            # run has a try per iteration
            if k == 'runonce' and due_left and not raised:
                fail('due-task-not-run', op=k, tasks=due_left)
            if k == 'run' or (k == 'runonce' and not raised):
                if calls_seen != im.submitted:
                    fail('deferred-not-once-in-order', op=k, submitted=list(im.submitted), called=list(calls_seen))
        # heap never holds two entries for one task
        ids_in_heap = [t.i for (_, _, t) in im.tm.tasks]
        if len(ids_in_heap) != len(set(ids_in_heap)):
            fail('task-queued-twice', heap=ids_in_heap)
        if sorted(ids_in_heap) != sorted(pending):
            fail('queue-differs-from-pending', heap=sorted(ids_in_heap), pending=sorted(pending))
    if has_acts(cfg, ops):
        # callbacks that re-install or suspend tasks: "everything fires exactly once in the end" is not implied
        if fired_any or calls_seen:
            stats['nontrivial'].add((repr(cfg), repr(ops)))
        return im
    # flush: everything queued or due must run in the end, whatever raised before
    horizon = max([p[0] for p in pending.values() if p[0] is not None] + [im.NOW[0]])
    im.NOW[0] = horizon
    want = {i for i, p in pending.items()}
    before = len(im.trace)
    try:
        for _ in range(len(cfg) + 2):
            im.step(('runonce',))
    except Hang as h:
        fail('loop-does-not-return', op='flush', why=str(h))
        if HANGS[0] >= 3:
            raise
        return im
    fired = [e[1] for e in im.trace[before:] if e[0] == 'fire']
    raised = absorb('flush')
    stats['evaluations'] += 1
    for i in want:
        if fired.count(i) != 1:
            fail('flush-fire-count', task=i, count=fired.count(i))
    if calls_seen != im.submitted or im.pending_ids():
        fail('deferred-not-once-in-order', op='flush', submitted=list(im.submitted), called=list(calls_seen))
    if fired_any or calls_seen:
        stats['nontrivial'].add((repr(cfg), repr(ops)))
    return im


def check_slots(cfg, ops, fails, stats):
    """recurring tasks: every due time is a slot off + k*iv (within 1 us), k strictly increases, the first
    slot is the least one strictly later than install time + 1 us, on-time firing advances k by one"""
    im = Impl(cfg, tf_tick)
    desc = desc_of(cfg, ops, 'tick')
    lastk, ontime = {}, {}
    seen = 0
    # the interval / offset each recurring task was last installed with (bookkeeping from the calls made, not from the
    # library's attributes): constructor values until install_task(interval=, offset=) succeeds with others
    # `handed`: the values last handed over (a refused call counts: the library stores them before it checks);
    # `inforce`: what was in `handed` at the last successful (re-)installation, i.e. the grid a pending entry lies on
    handed = {i: list(ctor_attrs(k[0])) for i, k in enumerate(cfg) if k[0][0] == 'rec'}
    inforce = {i: list(v) for i, v in handed.items()}
    for o in ops:
        try:
            im.step(o)
        except Hang as h:
            fails.append(dict(desc, kind='loop-does-not-return', op=o[0], why=str(h)))
            return
        for e in im.trace[seen:]:
            if e[0] != 'fire' or cfg[e[1]][0][0] != 'rec':
                continue
            _, i, due, at = e
            if not inforce[i][0] or inforce[i][0] <= 0:
                fails.append(dict(desc, kind='recurring-fired-without-interval', task=i, due=repr(due)))
                continue
            iv, off = F(inforce[i][0], TICKS_PER_S), F(inforce[i][1] or 0, TICKS_PER_S)
            k = round((F(due) - off) / iv)
            dev = abs(F(due) - (off + k * iv))
            if dev > F(1, 10 ** 6):
                fails.append(dict(desc, kind='recurring-due-off-slot', task=i, due=repr(due), dev=float(dev)))
            if i in lastk and k <= lastk[i]:
                fails.append(dict(desc, kind='recurring-slot-repeated', task=i, k=k, prev=lastk[i]))
            if i in lastk and ontime.get(i) and k != lastk[i] + 1:
                fails.append(dict(desc, kind='recurring-slot-skipped-on-time', task=i, k=k, prev=lastk[i]))
            lastk[i] = k
            ontime[i] = (at == due)
            if inforce[i] != handed[i] and handed[i][0] and handed[i][0] > 0:
                # process_task re-installs with what the task carries now (refused when that is not a valid interval:
                # the task then keeps its old time, which resume_task may queue again)
                inforce[i] = list(handed[i])
                lastk.pop(i, None); ontime.pop(i, None)
            stats['nontrivial'].add(('slot', repr(cfg[i][0]), k))
        refused = any(e[0] == 'err' for e in im.trace[seen:])
        seen = len(im.trace)
        if o[0] == 'installiv' and cfg[o[1]][0][0] == 'rec':
            if o[2] is not None: handed[o[1]][0] = o[2]
            if o[3] is not None: handed[o[1]][1] = o[3]
        if o[0] in ('reinstall', 'installiv') and cfg[o[1]][0][0] == 'rec' and not refused:
            i = o[1]
            inforce[i] = list(handed[i])
            if not inforce[i][0] or inforce[i][0] <= 0:
                fails.append(dict(desc, kind='recurring-installed-without-interval', task=i))
                continue
            iv, off = F(inforce[i][0], TICKS_PER_S), F(inforce[i][1] or 0, TICKS_PER_S)
            t = im.tasks[i].taskTime
            k = round((F(t) - off) / iv)
            # least slot strictly after install + jitter, computed exactly from the float clock actually read
            x = F(im.NOW[0]) + F(1, 10 ** 6)
            kmin = (x - off) // iv + 1
            near = min((x - off) % iv, iv - (x - off) % iv) < F(1, 10 ** 6)
            if k != kmin and not near:
                fails.append(dict(desc, kind='recurring-first-slot-wrong', task=i, k=k, expected=int(kmin)))
            lastk.pop(i, None); ontime.pop(i, None)
        elif o[0] in ('suspend', 'resume'):
            lastk.pop(o[1], None); ontime.pop(o[1], None)
        stats['evaluations'] += 1


def direct(rng, tier, focus=()):
    HANGS[0] = 0
    fails = []
    stats = {'evaluations': 0, 'nontrivial': set()}
    samples = []
    DEADLINE[0] = time.time() + (1500 if tier == 'thorough' else 300)
    budget_hit = False
    try:
        _direct(rng, tier, focus, fails, stats, samples)
    except Hang:
        pass                                  # recorded by check_history; no point in waiting 3 s thousands of times
    except _Budget:
        budget_hit = True
        if not fails:                         # slow machine, nothing wrong seen: say so rather than pretend full coverage
            samples.append({'direct': 'time budget exhausted before all histories were run'})
    finally:
        DEADLINE[0] = None
    # shortest first, so that the replay written is the smallest
    fails.sort(key=lambda f: len(f.get('ops', '')))
    return fails, {'evaluations': stats['evaluations'], 'distinct_nontrivial': len(stats['nontrivial']),
                   'exhaustive': True,
                   'exhaustive_domain': 'all op sequences of length <= %d over the 15-letter alphabet on 2 one-shot tasks; every raising '
                                        'subset of flat deferred batches of <= 6 and of all forests of <= %d functions; every state of the '
                                        'implementation reachable in <= %d letters of the 27-letter relative alphabet over 4 one-shot tasks (up to task '
                                        'renaming / time translation) x every letter, and the same to 5 letters with a 2^-22 s clock unit; every pair of '
                                        'single-action callbacks over 2 tasks x 3 preludes x 3 drivers'
                                        % ((4, 5, 7) if tier == 'thorough' else (3, 4, 6)),
                   'samples': samples}


def _direct(rng, tier, focus, fails, stats, samples):
    import ast
    big = tier == 'thorough'
    # 1. the probe of DESIGN.md: [bad, good1, good2]
    probe_cfg, probe_ops = [], [('defer', (0, True, ())), ('defer', (1, False, ())), ('defer', (2, False, ())), ('runonce',)]
    check_history(probe_cfg, probe_ops, 'int', fails, stats)
    check_history(probe_cfg, probe_ops[:-1] + [('run',)], 'int', fails, stats)
    samples.append({'direct': 'deferred batch [raising, plain, plain] through run_once and run', 'ops': repr(probe_ops)})
    # 2. every raising subset of every batch shape
    for forest in deferred_cases(tier):
        ops = [('defer', d) for d in forest]
        check_history([], ops + [('runonce',)], 'int', fails, stats)
        check_history([], ops + [('run',)], 'int', fails, stats)
    # 3. exhaustive short histories (2 tasks) and random long ones
    alpha = alphabet(2)
    for L in range(0, 5 if not big else 6):
        for seq in itertools.product(alpha, repeat=L):
            if L == 4 and not big and rng.random() < 0.8:
                continue
            if L == 5 and rng.random() < 0.9:
                continue
            check_history([ONE, ONE], list(seq), 'int', fails, stats)
    cfg3 = [ONE, (('one',), True, ((0, True, ()), (1, False, ()))), ONE]
    for L in range(0, 4):
        for seq in itertools.product(alphabet(3), repeat=L):
            if L == 3 and not big and rng.random() < 0.7:
                continue
            check_history(cfg3, list(seq), 'int', fails, stats)
    for n in range(150 if not big else 3000):
        cfg, ops = random_history_A(rng)
        check_history(cfg, ops, 'int' if n % 2 == 0 else 'fine', fails, stats, xshift=None if n % 4 < 2 else n)
    for cfgb, ops, mode in boundary_histories():
        check_history(cfgb, ops, mode, fails, stats)
    samples.append({'direct': 'pending-set bookkeeping over random histories of length 200', 'alphabet': repr(alpha)})
    # 3b. symmetry-reduced exploration of 4 tasks (every state reachable in <= 6 letters, then every letter)
    plain4 = [ONE, ONE, ONE, ONE]
    ralpha = rel_alphabet(4)
    for key, seqs in explore(plain4, 6 if not big else 7).items():
        for o in ralpha:
            check_history(plain4, resolve_rel(list(seqs[0]) + [o]), 'int', fails, stats)
    for key, seqs in explore(plain4, 5, mode='fine').items():
        for o in ralpha:
            check_history(plain4, resolve_rel(list(seqs[0]) + [o]), 'fine', fails, stats)
    # 3d. many tasks pending at once; the install counter beyond 65536; operations before the manager exists;
    #     deferred batches with every kind of callable
    for _ in range(200 if not big else 2500):
        cfgl, opsl = random_history_L(rng)
        check_history(cfgl, opsl, 'int', fails, stats)
    for n in ((65534, 70000, 140000) if big else (65534,)):
        check_history([ONE] * 5, [('install', 0, 5), ('burn', 1, 9, n), ('install', 2, 5), ('install', 3, 5), ('install', 4, 5), ('install', 0, 5),
                                  ('advance', 5), ('poll',), ('runonce',)], 'int', fails, stats)
    for _ in range(150 if not big else 1500):
        cfgu, pre, eq = gen_premanager(rng, restricted=False)
        check_history(cfgu, [('advance', 1), ('poll',), ('runonce',), ('advance', 2), ('run',)], 'int', fails, stats, pre=pre)
    for nth, forest in enumerate(deferred_cases(tier)):
        opsd = [('defer', d) for d in forest]
        for sh in ((nth % 6, (nth + 2) % 6, (nth + 4) % 6) if len(forest) <= 3 or big else ((nth + 1) % 6,)):
            xs = (nth * 5 + sh) % len(XSHAPES)
            check_history([], opsd + [('runonce',)], 'int', fails, stats, kshift=sh, xshift=xs)
            check_history([], opsd + [('run',)], 'int', fails, stats, kshift=(sh + 3) % 6, xshift=(xs + 7) % len(XSHAPES))
    # 3e. heap-slot-targeted histories, exception values, recurring installation histories
    for cfgh, hs in heap_position_histories(rng, range(2, 17), 2 if not big else 10):
        for opsh in hs:
            check_history(cfgh, opsh, 'int', fails, stats)
    for cfgh, hs in heap_order_type_histories(rng, 8 if not big else 9, 5 if not big else 8, sample_from=8 if not big else 9, keep=0.34 if not big else 0.5):
        for opsh in hs:
            check_history(cfgh, opsh, 'int', fails, stats)
    samples.append({'direct': 'every heap-ordered arrangement of <= 8 pending tasks x every array slot x {suspend, move to the back, move to the front}, '
                              'two more installs, queue emptied when everything is due; heap sizes 2..16 with structured / random due times, stepwise clock'})
    for cfgx, opsx, ksh, xsh in exception_value_histories():
        check_history(cfgx, opsx, 'int', fails, stats, kshift=ksh, xshift=xsh)
    for cfgr, opsr in recurring_R_grid():
        check_history(cfgr, opsr, 'tick', fails, stats)
        check_slots(cfgr, opsr, fails, stats)
    n = 0
    while n < (300 if not big else 4000):
        g = gen_recurring_R(rng)
        if g is None:
            continue
        n += 1
        check_history(g[0], g[1], 'tick', fails, stats)
        check_slots(g[0], g[1], fails, stats)
    samples.append({'direct': 'recurring installation histories: slots of the interval / offset the task was last installed with',
                    'grid': 'interval by constructor / first install / later install x offset never / ctor / ctor 0 / install / reset to 0 x pending / suspended / resumed / re-installed'})
    # 3c. callbacks with scheduling actions; the recorded finding first
    selfsusp = [(('rec', 3 * TICKS_PER_S, 0), False, (), (('suspend', 0),))]
    check_history(selfsusp, [('advance', 777, 777), ('reinstall', 0), ('todue',), ('poll',), ('todue',), ('poll',)], 'tick', fails, stats)
    samples.append({'direct': 'recurring task whose callback suspends itself (finding C14-recurring-self-suspend-rearmed)', 'cfg': repr(selfsusp)})
    single = [()] + [(a,) for a in act_alphabet(2)]
    preludes = [(('install', 0, 1), ('install', 1, 1)), (('install', 1, 1), ('install', 0, 2)), (('install', 0, 1),)]
    for a0 in single:
        for a1 in single:
            cfgc = [(('one',), False, (), a0), (('one',), False, (), a1)]
            for pre in preludes:
                for tail in ([('advance', 1), ('runonce',), ('advance', 1), ('runonce',)], [('advance', 2), ('run',)], [('advance', 1), ('poll',), ('poll',), ('advance', 3), ('poll',)]):
                    ops = list(pre) + tail
                    if not livelocks(cfgc, ops):
                        check_history(cfgc, ops, 'int', fails, stats)
    for _ in range(300 if not big else 3000):
        g = random_history_C(rng)
        if g is not None:
            check_history(g[0], g[1], 'int', fails, stats)
    for _ in range(100 if not big else 1000):
        g = gen_recurring_acts(rng, rng.random() < 0.5)
        if g is not None:
            check_history(g[0], g[1], 'tick', fails, stats)
    # 4. recurring
    n = 0
    while n < (300 if not big else 5000):
        g = gen_recurring(rng, rng.random() < 0.5)
        if g is None:
            continue
        n += 1
        check_history(g[0], g[1], 'tick', fails, stats)
        check_slots(g[0], g[1], fails, stats)
    # 5. around correspondence disagreements
    for d in focus:
        if isinstance(d, dict) and 'variants (kshift, xshift)' in d:
            for ksh, xsh in ast.literal_eval(d['variants (kshift, xshift)']):
                check_history(ast.literal_eval(d['cfg']), ast.literal_eval(d['ops']), 'int', fails, stats, kshift=ksh, xshift=xsh)
        elif isinstance(d, dict) and 'ops' in d:
            try:
                check_history(ast.literal_eval(d['cfg']), ast.literal_eval(d['ops']), d.get('mode', 'int'), fails, stats,
                              kshift=int(d.get('kshift', 0)), xshift=d.get('xshift'))
                if d.get('mode') == 'tick' and 'installiv' in d['ops']:
                    check_slots(ast.literal_eval(d['cfg']), ast.literal_eval(d['ops']), fails, stats)
            except Hang:
                raise
            except Exception as e:
                fails.append({'kind': 'direct-crash-on-focus', 'exc': repr(e)[:200], 'cfg': d['cfg'], 'ops': d['ops']})
        elif isinstance(d, dict) and 'histories' in d:
            cfg = ast.literal_eval(d['cfg'])
            for ops in ast.literal_eval(d['histories']):
                check_history(cfg, ops, d.get('mode', 'int'), fails, stats)
        elif isinstance(d, dict) and 'prefix' in d:
            cfg = ast.literal_eval(d['cfg'])
            for ops in packed_histories(d):
                check_history(cfg, ops, 'int', fails, stats)


def _has_raising_before_other(cfg, ops):
    """some detached batch can contain a raising function followed by another one"""
    import itertools as it

    def walk(ds):
        for d in ds:
            yield d
            yield from walk(d[2])
    fns = list(walk([o[1] for o in ops if o[0] == 'defer'])) + [d for k in cfg for d in walk(k[2])]
    return any(d[1] for d in fns) and len(fns) >= 2


def packed_histories(d):
    """the histories a packed case stands for (desc of mk_packed_case / symmetric_cases)"""
    import ast
    prefix = list(ast.literal_eval(d['prefix']))
    letters = ast.literal_eval(d['letters']) if 'letters' in d else alphabet(len(ast.literal_eval(d['cfg'])))
    clock = sum(o[1] for o in prefix if o[0] == 'advance')
    out = []
    for o in letters:
        if o[0] == 'rel':
            o = ('install', o[1], clock + o[2])
        out.append(prefix + [o] + FLUSH)
    return out


def classify(failure):
    """C14-deferred-batch-lost (status fixed: suppresses nothing, only names the cause): the deferred calls
    differ from the submissions and the history submits a raising function among others"""
    import ast
    if failure.get('kind') == 'recurring-rearmed-after-self-suspend':
        # C14-recurring-self-suspend-rearmed: the task is recurring and its OWN callback suspends it
        try:
            cfg = ast.literal_eval(failure['cfg'])
            t = cfg[failure['task']]
        except Exception:
            return None
        if t[0][0] == 'rec' and ('suspend', failure['task']) in acts_of(t):
            return 'C14-recurring-self-suspend-rearmed'
        return None
    if failure.get('kind') == 'deferred-not-once-in-order':
        try:
            cfg, ops = ast.literal_eval(failure['cfg']), ast.literal_eval(failure['ops'])
        except Exception:
            return None
        called, submitted = failure.get('called', []), failure.get('submitted', [])
        lost = [x for x in submitted if x not in called]
        if lost and _has_raising_before_other(cfg, ops) and called == [x for x in submitted if x in called]:
            return 'C14-deferred-batch-lost'
    return None


def replay(payload):
    import ast
    f = payload.get('failure') or payload.get('broken', [{}])[0].get('minimal_case', {}).get('desc', {})
    print('replay', f)
    if 'ops' in f:
        cfg, ops, mode = ast.literal_eval(f['cfg']), ast.literal_eval(f['ops']), f.get('mode', 'int')
        pre = ast.literal_eval(f['pre']) if 'pre' in f else ()
        ksh = int(f.get('kshift', 0))
        xsh = f.get('xshift')
        if 'installiv' in f['ops']:
            out, im = impl_outcome(cfg, ops, 'tick', attrs=True)
            print('implementation trace:', im.trace)
            print('implementation outcome:', out)
            print('reference (port of the model):', ref_outcome(cfg, ops, 'tick', JIT_B, attrs=True)[0])
            import core
            got, err = core.coq_eval(COQ_IMPORTS, coq_run2(cfg, ops, JIT_B))
            print('model (Coq, vm_compute):', got if got is not None else 'not evaluated: ' + err[-300:])
            fails, stats = [], {'evaluations': 0, 'nontrivial': set()}
            check_history(cfg, ops, 'tick', fails, stats)
            check_slots(cfg, ops, fails, stats)
            print('direct predicate:', fails or 'holds')
            return
        if pre or ksh or xsh is not None:
            fails, stats = [], {'evaluations': 0, 'nontrivial': set()}
            im = check_history(cfg, ops, mode, fails, stats, pre=pre, kshift=ksh, xshift=xsh)
            print('implementation trace:', im.trace)
            print('direct predicate:', fails or 'holds')
            return
        out, im = impl_outcome(cfg, ops, mode)
        print('implementation trace:', im.trace)
        print('implementation outcome:', out)
        jit = 1 if mode == 'int' else JIT_B
        print('reference (port of the model):', ref_outcome(cfg, ops, mode, jit)[0])
        import core
        got, err = core.coq_eval(COQ_IMPORTS, coq_run(cfg, ops, mode, jit))
        print('model (Coq, vm_compute):', got if got is not None else 'not evaluated: ' + err[-300:])
        fails, stats = [], {'evaluations': 0, 'nontrivial': set()}
        check_history(cfg, ops, mode, fails, stats)
        print('direct predicate:', fails or 'holds')
