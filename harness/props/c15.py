"""C15 — property reads and writes over the wire are consistent, typed, all-or-nothing.

Correspondence: random histories of ReadProperty / WriteProperty / ReadPropertyMultiple requests, exchanged as
real PDUs between a client stack and a device stack on the virtual LAN (harness/vnet.py), against the model
coq/theories/Obj.v (`run device ops` = canonical replies + canonical final `_values`).
Direct: the implementation-only predicate of the property statement (weakest reading)."""
import copy, logging
from core import Case, nlist
from pyerr import exc_code
import os, sys
import vnet, valgen
sys.path.insert(0, os.path.join(os.path.dirname(os.path.dirname(os.path.dirname(os.path.abspath(__file__)))), 'translator'))
import gen_objtables as G
from gen_objtables import (KEEP, ERRNAME, DEV_PIDS, code, cid, classes, atom_code, abs_elem, sdt_of, proto_of, dt_of,
                           q_opt, q_elem, q_sdt, q_dt, q_bool, pid_num, _CODES, _CIDS)

PROP = 'C15'
COQ_TARGETS = ['theories/ObjFacts.vo', 'theories/ObjRw.vo', 'theories/ObjRpm.vo', 'theories/ObjWire.vo', 'gen/ObjTables.vo', 'theories/ObjTablesFacts.vo', 'gen/Schemas.vo', 'theories/ObjCodec.vo']
TABLE_OBLIGATIONS = ['all_tables_ok']
COQ_IMPORTS = ('From Bac Require Import Base Tag Schema Codec Obj ObjCodec.\nFrom BacGen Require Import Schemas ObjTables.\n'
               'Import Obj.')
RULE = ('histories: a device with 2-3 objects drawn from the 63 registered object types (the registered class itself, or a '
        'subclass re-declaring every property mutable), about half of the properties initialised with values generated from '
        'their datatype, plus the local device object restricted to its plain properties; 8-12 requests each: ReadProperty, '
        'WriteProperty (right-typed values; wrong-typed: Null, atom of another kind, out-of-range unsigned, 0 or 2 atoms, '
        'foreign constructed value, wrong element type, wrong fixed length), ReadPropertyMultiple (specific references, '
        'all/required/optional, unknown objects), array index classes none/0/1..n/n+1/huge, priorities none/1..16, unknown '
        'objects and properties, wildcard device id.  One correspondence case = one history (replies of every request + final '
        '_values of every object); 10 % of the steps are life-cycle events (an object added to / deleted from the running device, '
        'objectList of the local device being one of its modelled properties); plus two fixed scenarios (array of bit strings; index 0 of arrays of strings/enumerations through RPM).  '
        'direct only: 120 (quick) histories on the commandable *CmdObject classes of local/object.py: commands and relinquishes at '
        'priorities none/1..16, wrong-typed commands, each followed by reads of presentValue, priorityArray (whole, [0], [p], [17]) and '
        'relinquishDefault against a priority-array oracle; and one device hosting, for ten object types, four objects of equal '
        'objectType and different classes (registered, all-mutable, commandable, variant property set) asked with all/required/optional '
        'alone and pairwise in both orders.  non-trivial = the history has at least one acknowledged write and one refused request; '
        'distinct by (device, request list).')
TRUSTED = ['model coq/theories/Obj.v written by hand after object.py Property.ReadProperty/WriteProperty, service/object.py, '
           'constructeddata.py ArrayOf/Any.cast_out, app.py Application.indication; tie = correspondence',
           'decoding of Sequence/Choice values (Any.cast_out of a constructed class) is not in Obj.v: the fields w_one/w_many of an '
           'abstract request are computed inside Coq by Bac.ObjCodec (codec_one/codec_many = the C03 model Codec.decode/encode over '
           'the class schema of gen/Schemas.v, applied to the concrete request tags); only for a class without a schema there '
           '(about 1 % of the casts, counted as history+implementation-cast) is the outcome taken from a stand-alone cast_out call',
           'atomic values are abstracted to (application tag, code) by interning their encoded tag (harness table, Unsigned = the number); '
           'constructed values to (class id, digest of the tags they encode to)']
ASSUMPTIONS = ['no property monitors / COV services are attached (Property.WriteProperty monitor calls not modelled)',
               'array-valued properties hold ArrayOf instances and objects do not share value instances (no class-level defaults)',
               'application tags in requests are well formed (lengths valid for their kind)',
               'property classes overriding ReadProperty/WriteProperty (local device object, ObjectIdentifierProperty with a foreign '
               'object type, commandable objects of local/object.py) are outside the Coq model; commandable objects are covered by the direct '
               'predicate only (priority-array oracle); plain Property.WriteProperty ignores priority']

_ENV = {}
_TABLES = {}
TABLE_TEXT_DIFFERS = []


def tables():
    """class -> table name of coq/gen/ObjTables.v.  The generator (translator/gen_objtables.py, run by the translator in a
    subprocess) is run here in-process, first thing, so that class ids and prototype codes are the generated file's; the two
    texts must be equal (else the correspondence is reported as broken)."""
    if not _TABLES:
        text, names = G.build()
        _TABLES.update(names)
        import core
        path = os.path.join(core.COQ, 'gen', 'ObjTables.v')
        old = open(path).read() if os.path.exists(path) else None
        if old != text:
            TABLE_TEXT_DIFFERS.append('coq/gen/ObjTables.v differs from what the imported classes give')
    return _TABLES


def B():
    """lazy import of the implementation names used here"""
    if 'services' not in _ENV:
        _ENV.update(G.env())
        from bacpypes.service.object import ReadWritePropertyServices, ReadWritePropertyMultipleServices
        _ENV.update(services=[ReadWritePropertyServices, ReadWritePropertyMultipleServices])
        logging.getLogger('bacpypes').setLevel(logging.CRITICAL + 10)
        for name in list(logging.root.manager.loggerDict):
            if name.startswith('bacpypes'):
                logging.getLogger(name).setLevel(logging.CRITICAL + 10)
        logging.disable(logging.CRITICAL)
        tables()
    return _ENV


# ------------------------------------------------------------------ abstraction
def abs_val(dt, v):
    C = B()['C']
    if v is None:
        return ('none',)
    if issubclass(dt, C.Array):
        if isinstance(v, C.Array):
            if not (isinstance(v.value, list) and len(v.value) >= 1 and isinstance(v.value[0], int)
                    and v.value[0] == len(v.value) - 1):
                # not an ArrayOf state (or one whose length slot is not the number of elements, which no sequence of
                # model steps reaches: C15_array_invariant): no model value corresponds, the case disagrees
                return ('x',)
            return ('arr', v.value[0], [abs_elem(dt.subtype, x) for x in v.value[1:]])
        if isinstance(v, list):
            return ('pylist', [abs_elem(dt.subtype, x) for x in v])
        return ('x',)
    if issubclass(dt, C.List):
        if isinstance(v, C.List):
            return ('lst', [abs_elem(dt.subtype, x) for x in v.value])
        if isinstance(v, list):
            return ('pylist', [abs_elem(dt.subtype, x) for x in v])
        return ('x',)
    return ('s', abs_elem(dt, v))


def q_elems(l):
    return '[' + ';'.join(q_elem(e) for e in l) + ']'


def q_val(v):
    if v[0] == 'none': return 'VNone'
    if v[0] == 's': return '(VS %s)' % q_elem(v[1])
    if v[0] == 'pylist': return '(VPyList %s)' % q_elems(v[1])
    if v[0] == 'arr': return '(VArr %d %s)' % (v[1], q_elems(v[2]))
    if v[0] == 'lst': return '(VLst %s)' % q_elems(v[1])
    return '(VS (EBad 0 OutOfFuel))'


def q_res(r, f):
    return '(Ok %s)' % f(r[1]) if r[0] == 'ok' else '(Err %s)' % ERRNAME.get(r[1], 'OtherErr')


# ---- canonical ints (must mirror c_* of Obj.v)
def c_elem(e):
    if e[0] == 'a': return [0, e[1], e[2]]
    if e[0] == 'o': return [1, e[1], e[2]]
    if e[0] == 'c': return [2, e[1], e[2]]
    if e[0] == 'b': return [3, e[1], e[2]]
    return [-99]


def c_elems(l):
    out = [len(l)]
    for e in l:
        out += c_elem(e)
    return out


def c_val(v):
    if v[0] == 'none': return [0]
    if v[0] == 's': return [1] + c_elem(v[1])
    if v[0] == 'pylist': return [2] + c_elems(v[1])
    if v[0] == 'arr': return [3, v[1]] + c_elems(v[2])
    if v[0] == 'lst': return [4] + c_elems(v[1])
    return [-98]


def elem_items(e):
    """items a stored element encodes to (as the model's enc_elem): list of [tagkind,a,b]"""
    if e[0] in ('a', 'o'): return [[0, e[1], e[2]]]
    if e[0] == 'c': return [[1, e[1], e[2]]]
    return None


def oid_num(oid):
    P = B()['P']
    t, i = oid
    if isinstance(t, str):
        t = P.ObjectType.enumerations[t]
    return t * 4194304 + i


def c_idx(i):
    return -1 if i is None else i


# ------------------------------------------------------------------ the device under test
class Bench:
    """one client stack + one device stack, reused for every history"""

    def __init__(self):
        e = B()
        self.clock = vnet.VClock()
        self.lan = self.clock.network('c15')
        self.dev = vnet.Stack(self.clock, self.lan, 1, services=e['services'])
        self.cli = vnet.Stack(self.clock, self.lan, 2)
        self.objects = []
        O = e['O']
        ld = self.dev.localDevice
        self.dev_pids = list(DEV_PIDS)
        for pid in self.dev_pids:
            p = ld._properties[pid]
            assert type(p).ReadProperty is O.Property.ReadProperty and type(p).WriteProperty is O.Property.WriteProperty, pid

    def clear(self):
        for o in self.objects:
            self.dev.delete_object(o)
        self.objects = []

    def add(self, obj):
        self.dev.add_object(obj)
        self.objects.append(obj)

    def exchange(self, apdu):
        io = self.cli.send(apdu, self.dev.address)
        errs = self.clock.run()
        return io, errs

    # ---- abstraction of the device state
    def table(self):
        """[(oid number, obj, [(prop, abstract value)])] — the device object restricted to its plain properties"""
        out = []
        ld = self.dev.localDevice
        out.append((oid_num(ld.objectIdentifier), ld, [(ld._properties[pid], abs_val(ld._properties[pid].datatype, ld._values.get(pid)))
                                                      for pid in self.dev_pids]))
        for o in self.objects:
            out.append((oid_num(o.objectIdentifier), o, [(p, abs_val(p.datatype, o._values.get(pid))) for pid, p in o._properties.items()]))
        return out

    def q_object(self, o, props):
        tname = 'T_localdev' if o is self.dev.localDevice else tables()[type(o)]
        vs = ['(%d, %s)' % (i, q_val(v)) for i, (p, v) in enumerate(props) if v[0] != 'none']
        return '(mk_object %s [%s])' % (tname, ';'.join(vs))

    def q_device(self):
        objs = ['(%d, %s)' % (num, self.q_object(o, props)) for num, o, props in self.table()]
        return '(mkDev %d [%s])' % (oid_num(self.dev.localDevice.objectIdentifier), ';\n'.join(objs))

    def c_device(self):
        out = []
        for num, o, props in self.table():
            some = [(p, v) for p, v in props if v[0] != 'none']
            out += [num, len(some)]
            for p, v in some:
                out += [pid_num(p.identifier)] + c_val(v)
        return out

    def find(self, oid):
        P = B()['P']
        return self.dev.objectIdentifier.get(oid)


def safe_gen(dt, rng, elem=False):
    """a generated value of datatype dt that the library can encode, or None"""
    for _ in range(4):
        try:
            v = valgen.gen_elem(dt, rng, 1) if elem else valgen.gen(dt, rng)
            make_any([wrap(dt, v)])
            return v
        except Exception:
            continue
    return None


def build_object(rng, otype, inst, mutable, fill=0.5):
    cls, M = classes()[otype]
    K = M if mutable else cls
    C = B()['C']
    kw = {}
    for pid, p in K._properties.items():
        if pid in KEEP:
            continue
        if rng.random() < fill:
            v = safe_gen(p.datatype, rng)
            if v is None:
                continue
            if issubclass(p.datatype, C.List) and rng.random() < 0.4:
                v = list(v.value)           # a plain python list is also a legal stored form for lists
            kw[pid] = v
    return K(objectIdentifier=(otype, inst), objectName='%s-%d' % (otype, inst), **kw)


# ------------------------------------------------------------------ request generation
def prop_kind(dt):
    e = B()
    P, C = e['P'], e['C']
    if issubclass(dt, C.Array):
        return 'array-atomic' if issubclass(dt.subtype, P.Atomic) else 'array-cons'
    if issubclass(dt, C.List):
        return 'list-atomic' if issubclass(dt.subtype, P.Atomic) else 'list-cons'
    if issubclass(dt, C.AnyAtomic):
        return 'any'
    if issubclass(dt, P.Atomic):
        return 'atomic'
    return 'cons'


ATOM_SAMPLES = None


def atom_samples():
    global ATOM_SAMPLES
    if ATOM_SAMPLES is None:
        P = B()['P']
        ATOM_SAMPLES = [lambda r: P.Null(), lambda r: P.Boolean(r.random() < .5), lambda r: P.Unsigned(r.choice([0, 1, 7, 300, 70000])),
                        lambda r: P.Integer(r.choice([-5, 0, 9])), lambda r: P.Real(valgen.f32(r.choice(valgen.REALS))),
                        lambda r: P.Double(r.choice(valgen.REALS)), lambda r: P.OctetString(bytes([r.randrange(256)])),
                        lambda r: P.CharacterString(r.choice(['a', 'zz', ''])), lambda r: P.BitString([1, 0, r.randrange(2)]),
                        lambda r: P.Enumerated(r.randrange(5)), lambda r: P.Date((120, 5, 17, 255)), lambda r: P.Time((1, 2, 3, r.randrange(100))),
                        lambda r: P.ObjectIdentifier(('analogValue', r.randrange(9)))]
    return ATOM_SAMPLES


def wrap(dt, v):
    """the encodable object a client would cast_in for a python value of datatype dt"""
    e = B()
    P, C = e['P'], e['C']
    if issubclass(dt, C.AnyAtomic):
        return v
    if issubclass(dt, P.Atomic):
        return dt(v)
    if isinstance(v, list):
        return dt(v)
    return v


def make_any(parts):
    C = B()['C']
    a = C.Any()
    for x in parts:
        a.cast_in(x)
    return a


def pick_property(rng, obj, bench, want_value=None):
    """(pid, prop-or-None); prop None = not a property of the class"""
    T = B()['T']
    if obj is None:
        return rng.choice(['presentValue', 'objectName', 'description', 'priorityArray', 'units']), None
    if obj is bench.dev.localDevice:
        pid = rng.choice(bench.dev_pids)
        return pid, obj._properties[pid]
    if rng.random() < 0.08:
        for _ in range(20):
            pid = rng.choice(sorted(T.PropertyIdentifier.enumerations))
            if pid not in obj._properties and pid not in ('all', 'required', 'optional'):
                return pid, None
    bykind = {}
    for pid, p in obj._properties.items():
        has = obj._values.get(pid) is not None
        bykind.setdefault((prop_kind(p.datatype), has), []).append(pid)
    keys = sorted(bykind)
    # prefer properties that hold a value (3:1)
    withv = [k for k in keys if k[1]]
    k = rng.choice(withv) if withv and rng.random() < 0.8 else rng.choice(keys)
    pid = rng.choice(bykind[k])
    return pid, obj._properties[pid]


def arr_len(v):
    C = B()['C']
    try:
        return int(v.value[0]) if isinstance(v, C.Array) else 0
    except Exception:
        return 0


# ---- the array index as it travels: an OPTIONAL context-tagged Unsigned.  The library's encoder sends 0 .. 2^32-1 in
# the fewest octets; a peer may pad with zero octets or send more than four.  Index classes beyond "n+1": the values next
# to every octet-count boundary, the all-ones values of 1..8 octets (0xFF, 0xFFFF, 0xFFFFFFFF, ...: "all elements" /
# "no index" markers of other stacks), the sign-bit values 2^31-1 / 2^31, and uniformly random values of 1..40 bits.
U32 = 0xFFFFFFFF
INDEX_BOUNDS = sorted(set([2 ** k - 1 for k in (7, 8, 15, 16, 23, 24, 31, 32, 40, 63, 64)] +
                          [2 ** k for k in (7, 8, 15, 16, 23, 24, 31, 32, 40, 63)] + [2 ** 32 - 2, 4194303, 4194304]))


def huge_index(rng, n=0, wide=True):
    r = rng.random()
    if r < 0.2:
        return n + rng.choice([2, 7])
    if r < 0.75:
        i = rng.choice(INDEX_BOUNDS)
    else:
        i = rng.getrandbits(rng.randint(1, 40))
    if not wide and i > U32:
        i = rng.choice([U32, U32 - 1, 2 ** 31, 2 ** 31 - 1, 65535, 65536, 255, 256])
    return max(i, n + 1)


def pick_index_legacy(rng, obj, prop):
    """the index generator of the earlier rounds (none/0/1..n/n+1/a few large values): the random correspondence
    histories keep it, so that their request streams stay those the earlier rounds verified"""
    C = B()['C']
    if prop is None or not issubclass(prop.datatype, C.Array):
        return None if rng.random() < 0.85 else rng.choice([0, 1, 2])
    v = obj._values.get(prop.identifier)
    n = arr_len(v)
    r = rng.random()
    if r < 0.25: return None
    if r < 0.45: return 0
    if r < 0.8 and n >= 1: return rng.randint(1, n)
    if r < 0.9: return n + 1
    return rng.choice([n + 2, n + 7, 255, 65536, 4194303])


def pick_index(rng, obj, prop, wide=True):
    """None or the index VALUE; wide=False keeps it within what the library's encoder can send (0..2^32-1)"""
    C = B()['C']
    if prop is None or not issubclass(prop.datatype, C.Array):
        r = rng.random()
        if r < 0.8: return None
        if r < 0.9: return rng.choice([0, 1, 2])
        return huge_index(rng, 0, wide)
    v = obj._values.get(prop.identifier)
    n = arr_len(v)
    r = rng.random()
    if r < 0.25: return None
    if r < 0.45: return 0
    if r < 0.78 and n >= 1: return rng.randint(1, n)
    if r < 0.86: return n + 1
    return huge_index(rng, n, wide)


def be_octets(i):
    out = []
    while True:
        out.insert(0, i & 255)
        i >>= 8
        if not i:
            return out


def pick_raw(rng, idx):
    """how the index element is spelled: None = by the library's encoder; else its data octets (zero-padded, more than four
    octets, or - rarely - no octets at all, which no decoder may take for an index)"""
    if idx is None:
        return None
    if idx > U32:
        return be_octets(idx)
    r = rng.random()
    if r < 0.80:
        return None
    if r < 0.97:
        o = be_octets(idx)
        return [0] * rng.choice([1, 1, 2, 3, 4, 8 - len(o)]) + o
    return []


_RAWCLS = {}


def raw_request_class(base):
    """a request class whose propertyArrayIndex element (context 2) is sent with the data octets given in .raw_index"""
    if base not in _RAWCLS:
        e = B()
        P, C = e['P'], e['C']

        class Raw(base):
            raw_index = None

            def encode(self, apdu):
                apdu.update(self)
                tl = P.TagList()
                C.Sequence.encode(self, tl)
                t = tl.tagList[2]
                assert t.tagClass == P.Tag.contextTagClass and t.tagNumber == 2
                t.set(P.Tag.contextTagClass, 2, len(self.raw_index), bytearray(self.raw_index))
                self._tag_list = tl
                tl.encode(apdu)
        Raw.__name__ = 'Raw' + base.__name__
        _RAWCLS[base] = Raw
    return _RAWCLS[base]


def mk_request(base, oid, pid, idx, raw=None):
    """ReadPropertyRequest / WritePropertyRequest with index value idx, spelled by the encoder or as the octets `raw`"""
    if raw is None and idx is not None and idx > U32:
        raw = be_octets(idx)
    if raw is None:
        req = base(objectIdentifier=oid, propertyIdentifier=pid)
        if idx is not None:
            req.propertyArrayIndex = idx
        return req
    req = raw_request_class(base)(objectIdentifier=oid, propertyIdentifier=pid)
    req.propertyArrayIndex = 1          # placeholder: the element is re-written by encode()
    req.raw_index = list(raw)
    return req


def wire_index_of(req):
    """data octets of the propertyArrayIndex element of a ReadProperty / WriteProperty request AS ENCODED, None if absent"""
    e = B()
    P, A = e['P'], e['A']
    req.encode(A.ConfirmedRequestPDU())
    tl = req._tag_list.tagList
    if len(tl) >= 3 and tl[2].tagClass == P.Tag.contextTagClass and tl[2].tagNumber == 2:
        return list(tl[2].tagData)
    return None


def wire_indexes_of_rpm(req):
    """per read access specification the index octets (or None) of each property reference, as encoded"""
    e = B()
    P, A = e['P'], e['A']
    req.encode(A.ConfirmedRequestPDU())
    tl = req._tag_list.tagList
    out, i = [], 0
    while i < len(tl):
        assert tl[i].tagClass == P.Tag.contextTagClass and tl[i].tagNumber == 0
        assert tl[i + 1].tagClass == P.Tag.openingTagClass and tl[i + 1].tagNumber == 1
        i += 2
        refs = []
        while tl[i].tagClass != P.Tag.closingTagClass:
            if tl[i].tagClass == P.Tag.contextTagClass and tl[i].tagNumber == 0:
                refs.append(None)
            else:
                assert tl[i].tagClass == P.Tag.contextTagClass and tl[i].tagNumber == 1 and refs and refs[-1] is None
                refs[-1] = list(tl[i].tagData)
            i += 1
        i += 1
        out.append(refs)
    return out


def q_octs(o):
    return 'None' if o is None else '(Some [%s])' % ';'.join('%d' % x for x in o)


def pick_target(rng, bench):
    """(object identifier tuple, object or None)"""
    r = rng.random()
    if r < 0.09:
        # unknown instance of a known type / a type number outside the enumeration: reserved 60..127, vendor 128..1023
        t = rng.choice(['analogValue', 'binaryInput', 'schedule', 'device', 63, 100, 127, 128, 555, 1023])
        oid = (t, rng.choice([77, 4000, 4194302]))
        return oid, bench.find(oid)
    if r < 0.15:
        ld = bench.dev.localDevice
        return ld.objectIdentifier, ld
    o = rng.choice(bench.objects)
    return o.objectIdentifier, o


def gen_write_value(rng, bench, obj, prop, idx):
    """-> (Any, label, wrong) ; wrong = True when the value is deliberately not of the property's datatype"""
    e = B()
    P, C = e['P'], e['C']
    if prop is None:
        return make_any([rng.choice(atom_samples())(rng)]), 'to-unknown', False
    dt = prop.datatype
    isarr = issubclass(dt, C.Array)
    cur = obj._values.get(prop.identifier)
    n = arr_len(cur)
    right = rng.random() < 0.62
    if isarr and idx == 0:
        if right:
            if dt.fixed_length is not None:
                m = dt.fixed_length if rng.random() < 0.4 else rng.choice([0, n + 1, n + 1, n + 2, max(0, n - 1)])
            else:
                m = rng.choice([0, n, n + 1, n + 2, max(0, n - 1), max(0, n - 1), max(0, n - 2), 9])
            return make_any([P.Unsigned(m)]), 'length', False
        k = rng.choice([0, 1, 3, 4, 7, 9])
        return make_any([atom_samples()[k](rng)]), 'length-wrong-kind', True
    if isarr and idx is not None:
        target = dt.subtype
    else:
        target = dt
    if right:
        v = safe_gen(target, rng, elem=(isarr and idx is not None))
        if v is not None:
            return make_any([wrap(target, v)]), 'right', False
    how = rng.choice(['null', 'other-atom', 'other-atom', 'range', 'two', 'empty', 'foreign-cons', 'bad-element', 'fixed-length', 'cons-for-atom'])
    tk = sdt_of(target if not issubclass(target, (C.Array, C.List)) else target.subtype)
    scalar_atom = tk[0] == 'atom' and not issubclass(target, (C.Array, C.List))
    if how == 'null':
        # Null is a legal value for datatypes that have a null alternative (e.g. PriorityValue): not "wrong" there
        wrong = tk[0] == 'atom' or issubclass(target, (C.Array, C.List))
        return make_any([P.Null()]), 'null', wrong
    if how == 'range' and tk[0] == 'atom' and tk[1] == 2 and tk[3] is not None and not issubclass(target, (C.Array, C.List)):
        return make_any([P.Unsigned(tk[3] + rng.choice([1, 1000]))]), 'out-of-range', True
    if how == 'two':
        a = rng.choice(atom_samples())(rng)
        return make_any([a, rng.choice(atom_samples())(rng)]), 'two-atoms', scalar_atom
    if how == 'empty':
        return make_any([]), 'empty', scalar_atom
    if how in ('foreign-cons', 'cons-for-atom'):
        o2 = rng.choice(bench.objects)
        cands = [p for p in o2._properties.values() if prop_kind(p.datatype) == 'cons' and p.datatype is not target]
        if cands:
            p2 = rng.choice(cands)
            v = safe_gen(p2.datatype, rng)
            if v is not None:
                a = make_any([v])
                # "wrong" only if it is certainly not a value of the target: atomic target
                return a, 'foreign-cons', tk[0] == 'atom' and not issubclass(target, (C.Array, C.List)) and len(a.tagList) != 1
    if how == 'bad-element' and issubclass(target, (C.Array, C.List)) and tk[0] == 'atom':
        k = rng.choice([k for k in range(1, 13) if k != tk[1]])
        good = []
        for _ in range(rng.randrange(0, 3)):
            good.append(wrap(target.subtype, valgen.gen_elem(target.subtype, rng, 1)))
        parts = good + [atom_samples()[k](rng)]
        if issubclass(target, C.Array) and target.fixed_length is not None:
            while len(parts) < target.fixed_length:
                parts.insert(0, wrap(target.subtype, valgen.gen_elem(target.subtype, rng, 1)))
        return make_any(parts), 'bad-element', True
    if how == 'fixed-length' and issubclass(target, C.Array) and target.fixed_length is not None:
        m = rng.choice([target.fixed_length - 1, target.fixed_length + 1])
        vs = [safe_gen(target.subtype, rng, elem=True) for _ in range(m)]
        if all(v is not None for v in vs):
            return make_any([wrap(target.subtype, v) for v in vs]), 'fixed-length', True
    # an atom of another kind
    if tk[0] == 'atom':
        k = rng.choice([k for k in range(1, 13) if k != tk[1]])
        return make_any([atom_samples()[k](rng)]), 'other-atom', True
    k = rng.randrange(1, 13)
    return make_any([atom_samples()[k](rng)]), 'atom-for-cons', False


# ------------------------------------------------------------------ requests: real + abstract
def abs_wire(any_, obj, pid):
    e = B()
    P, C = e['P'], e['C']
    tags = []
    for t in any_.tagList.tagList:
        if t.tagClass == P.Tag.applicationTagClass and t.tagNumber <= 12:
            tags.append('(WApp %d %d)' % (t.tagNumber, atom_code(t)))
        else:
            tags.append('WOther')
    one = many = ('err', 18)
    qone = qmany = None
    prop = obj._properties.get(pid) if obj is not None else None
    if prop is not None:
        dt = prop.datatype
        X = None
        if issubclass(dt, (C.Array, C.List)):
            if not issubclass(dt.subtype, P.Atomic):
                X = dt.subtype
        elif not issubclass(dt, (P.Atomic, C.AnyAtomic)):
            X = dt
        if X is not None and schema_name(X) is not None:
            # the C03 model decides (Bac.ObjCodec): concrete tags of the request + the class's schema
            ctags = '[' + ';'.join('(mkTag %d %d %d %s)' % (t.tagClass, t.tagNumber, t.tagLVT, nlist(bytes(t.tagData)))
                                   for t in any_.tagList.tagList) + ']'
            # hints: identity of the stored value(s) as the implementation re-encodes them; used by the model only when the
            # request spells an accepted value non-canonically (see ObjCodec.v)
            def recoded(vals):
                tl = P.TagList()
                for v in vals:
                    v.encode(tl)
                return valgen.canon_tags(tl.tagList)
            sent = valgen.canon_tags(any_.tagList.tagList)
            hint = -1
            try:
                v1 = any_.cast_out(X)
                if recoded([v1]) != sent:
                    el = abs_elem(X, v1)
                    hint = el[2] if el[0] == 'c' else 0
                    ORACLE['non-canonical'] += 1
            except Exception:
                pass
            qone = '(codec_one %d %s %s (%d))' % (cid(X), schema_name(X), ctags, hint)
            if X is not dt:
                isarr = issubclass(dt, C.Array)
                fx = '(Some %d%%N)' % dt.fixed_length if (isarr and dt.fixed_length is not None) else 'None'
                hints = []
                try:
                    vs = any_.cast_out(dt)
                    if vs and recoded(vs) != sent:
                        hints = [(lambda el: el[2] if el[0] == 'c' else 0)(abs_elem(X, v)) for v in vs]
                        ORACLE['non-canonical'] += 1
                except Exception:
                    pass
                qmany = '(codec_many %d %s %s %s %s [%s])' % (cid(X), schema_name(X), q_bool(isarr), fx, ctags, ';'.join(str(h) for h in hints))
            ORACLE['codec'] += 1
        elif X is not None:
            # class without a schema in gen/Schemas.v: outcome supplied from a stand-alone cast_out call
            ORACLE['implementation'] += 1
            if X is not dt:
                try:
                    many = ('ok', [abs_elem(X, v) for v in any_.cast_out(dt)])
                except Exception as ex:
                    many = ('err', exc_code(ex))
            try:
                one = ('ok', abs_elem(X, any_.cast_out(X)))
            except Exception as ex:
                one = ('err', exc_code(ex))
    return '(mkW [%s] %s %s)' % (';'.join(tags), qone or q_res(one, q_elem), qmany or q_res(many, q_elems))


ORACLE = {'codec': 0, 'implementation': 0, 'non-canonical': 0}
_SCHEMAS = {}


def schema_name(X):
    """T_<Class> if gen/Schemas.v (property C03) has a schema for the class, else None"""
    if not _SCHEMAS:
        import core, re
        try:
            txt = open(os.path.join(core.COQ, 'gen', 'Schemas.v')).read()
        except OSError:
            txt = ''
        _SCHEMAS['names'] = set(re.findall(r'^Definition (T_\w+) : ty', txt, flags=re.M))
    if X.__module__ not in ('bacpypes.basetypes', 'bacpypes.apdu'):
        return None
    n = 'T_' + X.__name__
    return n if n in _SCHEMAS['names'] else None


def c_value_items(bench, oid, pid, idx, any_):
    """abstract the value of an ack: datatype-directed"""
    e = B()
    P, C = e['P'], e['C']
    obj = bench.find(oid)
    prop = obj._properties.get(pid) if obj is not None else None
    raw = [-9, code(('raw', tuple(valgen.canon_tags(any_.tagList.tagList))))]
    if prop is None:
        return raw
    dt = prop.datatype
    try:
        if issubclass(dt, C.Array) and idx is not None:
            if idx == 0:
                els = [abs_elem(P.Unsigned, any_.cast_out(P.Unsigned))]
            else:
                els = [abs_elem(dt.subtype, any_.cast_out(dt.subtype))]
        elif issubclass(dt, (C.Array, C.List)):
            els = [abs_elem(dt.subtype, v) for v in any_.cast_out(dt)]
        else:
            els = [abs_elem(dt, any_.cast_out(dt))]
    except Exception:
        return raw
    items = []
    for el in els:
        it = elem_items(el)
        if it is None:
            return raw
        items += it
    out = [len(items)]
    for it in items:
        out += it
    return out


def err_nums(ec, ecode):
    T = B()['T']
    a = T.ErrorClass.enumerations.get(ec, ec) if isinstance(ec, str) else ec
    b = T.ErrorCode.enumerations.get(ecode, ecode) if isinstance(ecode, str) else ecode
    return [int(a), int(b)]


def c_reply(bench, io, req_oid=None):
    A = B()['A']
    r = io.ioResponse
    if r is not None:
        if isinstance(r, A.SimpleAckPDU):
            return [0]
        if isinstance(r, A.ReadPropertyACK):
            return [1, oid_num(r.objectIdentifier), pid_num(r.propertyIdentifier), c_idx(r.propertyArrayIndex)] + \
                c_value_items(bench, r.objectIdentifier, r.propertyIdentifier, r.propertyArrayIndex, r.propertyValue)
        if isinstance(r, A.ReadPropertyMultipleACK):
            out = [5, len(r.listOfReadAccessResults)]
            for rar in r.listOfReadAccessResults:
                out += [oid_num(rar.objectIdentifier), len(rar.listOfResults)]
                for el in rar.listOfResults:
                    out += [pid_num(el.propertyIdentifier), c_idx(el.propertyArrayIndex)]
                    rr = el.readResult
                    if rr.propertyAccessError is not None:
                        out += [1] + err_nums(rr.propertyAccessError.errorClass, rr.propertyAccessError.errorCode)
                    else:
                        out += [0] + c_value_items(bench, rar.objectIdentifier, el.propertyIdentifier, el.propertyArrayIndex, rr.propertyValue)
            return out
        return [-5]
    x = io.ioError
    if isinstance(x, A.Error):
        return [2] + err_nums(x.errorClass, x.errorCode)
    if isinstance(x, A.RejectPDU):
        return [3, int(x.apduAbortRejectReason)]
    if isinstance(x, A.AbortPDU):
        return [4, int(x.apduAbortRejectReason)]
    return [-6]


def q_refs(specs):
    return '[' + ';'.join('(%d, [%s])' % (oid_num(oid), ';'.join('(%d, %s)' % (pid_num(p), q_opt(i)) for p, i in refs))
                         for oid, refs in specs) + ']'


def q_wire_refs(specs, octs):
    return '[' + ';'.join('(%d, [%s])' % (oid_num(oid), ';'.join('(%d, %s)' % (pid_num(p), q_octs(o)) for (p, _), o in zip(refs, os_)))
                         for (oid, refs), os_ in zip(specs, octs)) + ']'


def rpm_request(specs):
    A = B()['A']
    return A.ReadPropertyMultipleRequest(listOfReadAccessSpecs=[
        A.ReadAccessSpecification(objectIdentifier=oid, listOfPropertyReferences=[
            A.PropertyReference(propertyIdentifier=p, propertyArrayIndex=i) for p, i in refs]) for oid, refs in specs])


def read_op(oid, pid, idx, raw=None):
    """-> (apdu, coq text of the event, description): the model is given the index as the octets found in the encoded request"""
    A = B()['A']
    req = mk_request(A.ReadPropertyRequest, oid, pid, idx, raw)
    octs = wire_index_of(req)
    d = {'op': 'read', 'oid': list(oid), 'pid': pid, 'idx': idx, 'octets': octs}
    if octs == []:
        d.update(idx=None, malformed=True)
    return req, '(EWire (WRead %d %d %s))' % (oid_num(oid), pid_num(pid), q_octs(octs)), d


def write_op(oid, obj, pid, idx, raw, prio, any_, label, wrong):
    A = B()['A']
    req = mk_request(A.WritePropertyRequest, oid, pid, idx, raw)
    req.propertyValue = any_
    if prio is not None:
        req.priority = prio
    octs = wire_index_of(req)
    q = '(EWire (WWrite %d %d %s %s %s))' % (oid_num(oid), pid_num(pid), q_octs(octs), q_opt(prio), abs_wire(any_, obj, pid))
    d = {'op': 'write', 'oid': list(oid), 'pid': pid, 'idx': idx, 'octets': octs, 'prio': prio, 'value': label, 'wrong': wrong,
         'tags': [list(t) for t in valgen.canon_tags(any_.tagList.tagList)]}
    if octs == []:
        d.update(idx=None, malformed=True)
    return req, q, d


def rpm_op(specs):
    req = rpm_request(specs)
    octs = wire_indexes_of_rpm(req)
    return req, '(EWire (WRpm %s))' % q_wire_refs(specs, octs), {'op': 'rpm', 'specs': [[list(oid), [list(x) for x in refs]] for oid, refs in specs]}


def gen_op(rng, bench, legacy=False):
    """-> (apdu, coq text of the event, description dict)"""
    if legacy:
        pick_index = lambda rng, obj, prop, wide=True: pick_index_legacy(rng, obj, prop)
        pick_raw = lambda rng, idx: None
    else:
        pick_index, pick_raw = globals()['pick_index'], globals()['pick_raw']
    r = rng.random()
    if r < 0.33:
        oid, obj = pick_target(rng, bench)
        if rng.random() < 0.06:
            oid, obj = ('device', 4194303), bench.dev.localDevice
        pid, prop = pick_property(rng, obj, bench)
        idx = pick_index(rng, obj, prop)
        return read_op(oid, pid, idx, pick_raw(rng, idx))
    if r < 0.80:
        oid, obj = pick_target(rng, bench)
        if rng.random() < 0.02:
            oid, obj = ('device', 4194303), None      # no wildcard mapping for writes
        pid, prop = pick_property(rng, obj, bench)
        idx = pick_index(rng, obj, prop)
        if pid == 'objectIdentifier':
            pid, prop = 'objectName', (obj._properties.get('objectName') if obj is not None else None)
            idx = None
        any_, label, wrong = gen_write_value(rng, bench, obj, prop, idx)
        prio = rng.choice([None, None, 1, 8, 16, rng.randint(1, 16)])
        return write_op(oid, obj, pid, idx, pick_raw(rng, idx), prio, any_, label, wrong)
    specs = []
    for _ in range(rng.randint(1, 3)):
        oid, obj = pick_target(rng, bench)
        if rng.random() < 0.06:
            oid, obj = ('device', 4194303), bench.dev.localDevice
        refs = []
        for _ in range(rng.randint(1, 4)):
            if obj is not bench.dev.localDevice and rng.random() < 0.3:
                refs.append((rng.choice(['all', 'required', 'optional']), None if rng.random() < 0.85 else rng.choice([0, 1, 2])))
            else:
                pid, prop = pick_property(rng, obj, bench)
                refs.append((pid, pick_index(rng, obj, prop, wide=False)))
        specs.append((oid, refs))
    return rpm_op(specs)


def digest(l):
    h = 7
    for x in l:
        h = (h * 1000003 + x + 11) % 2305843009213693951
    return h


def new_history(rng, bench, nobj=None):
    bench.clear()
    types = sorted(classes())
    prev = None
    for k in range(nobj or rng.randint(2, 3)):
        if prev is not None and rng.random() < 0.3:
            # same object type, the other class (registered class next to its all-mutable subclass)
            otype, mutable = prev[0], not prev[1]
        else:
            otype, mutable = rng.choice(types), rng.random() < 0.8
        prev = (otype, mutable)
        bench.add(build_object(rng, otype, k + 10, mutable=mutable, fill=rng.choice([0.12, 0.25, 0.45])))


_BENCH = []


def bench():
    if not _BENCH:
        _BENCH.append(Bench())
    return _BENCH[0]


def bitstring_array_scenario(bn):
    """a bitstringValue object whose alarmValues holds two bit strings (elements that are python lists)"""
    bn.clear()
    cls, M = classes()['bitstringValue']
    dt = M._properties['alarmValues'].datatype
    bn.add(M(objectIdentifier=('bitstringValue', 10), objectName='bitstringValue-10', alarmValues=dt([[1, 0, 1], [0, 0]]),
             presentValue=[1, 1, 0]))


def bitstring_array_ops(bn):
    A = B()['A']
    oid = ('bitstringValue', 10)
    for idx in (None, 0, 1, 2, 3):
        req = A.ReadPropertyRequest(objectIdentifier=oid, propertyIdentifier='alarmValues')
        if idx is not None:
            req.propertyArrayIndex = idx
        yield req, '(ORead %d %d %s)' % (oid_num(oid), pid_num('alarmValues'), q_opt(idx)), {'op': 'read', 'oid': list(oid), 'pid': 'alarmValues', 'idx': idx}
    specs = [(oid, [('alarmValues', 2), ('alarmValues', None), ('presentValue', None), ('alarmValues', 5)])]
    req = A.ReadPropertyMultipleRequest(listOfReadAccessSpecs=[
        A.ReadAccessSpecification(objectIdentifier=o, listOfPropertyReferences=[
            A.PropertyReference(propertyIdentifier=p, propertyArrayIndex=i) for p, i in refs]) for o, refs in specs])
    yield req, '(ORpm %s)' % q_refs(specs), {'op': 'rpm', 'specs': [[list(o), [list(x) for x in refs]] for o, refs in specs]}


def index_sweep_setup(variant):
    """a load control object (array of unsigned, array of strings, scalars) as registered (variant 1) or all-mutable
    (variant 0), next to a second object with a list property"""
    def setup(bn):
        import random
        e = B()
        P, C = e['P'], e['C']
        bn.clear()
        cls, M = classes()['loadControl']
        K = cls if variant else M
        bn.add(K(objectIdentifier=('loadControl', 10), objectName='loadControl-10',
                 shedLevels=K._properties['shedLevels'].datatype([10, 20, 30]),
                 shedLevelDescriptions=K._properties['shedLevelDescriptions'].datatype(['a', 'bb']),
                 shedDuration=5, dutyWindow=6, enable=True))
        r = random.Random(4242 + variant)
        bn.add(build_object(r, 'notificationClass' if variant else 'analogValue', 11, mutable=not variant, fill=0.7))
    return setup


def index_sweep_ops(variant):
    """every index class of the index family - n+1, the octet-count boundaries, the all-ones markers, the sign-bit values,
    more than four octets, zero-padded spellings of 0 / 1 / n / n+1 / 2^32-1 - against arrays, scalars and lists:
    ReadProperty, WriteProperty (a right-typed element, and a right-typed whole value) and ReadPropertyMultiple"""
    def ops(bn):
        import random
        C = B()['C']
        r = random.Random(777 + variant)
        for obj in list(bn.objects):
            oid = obj.objectIdentifier
            chosen, count = [], {}
            for pid in sorted(obj._properties):
                p = obj._properties[pid]
                if obj._values.get(pid) is None or pid in KEEP or pid == 'objectIdentifier':
                    continue
                k = 'array' if issubclass(p.datatype, C.Array) else 'list' if issubclass(p.datatype, C.List) else 'scalar'
                if count.get(k, 0) < (2 if k != 'list' else 1):
                    count[k] = count.get(k, 0) + 1
                    chosen.append((pid, p, k))
            for pid, p, k in chosen:
                n = arr_len(obj._values.get(pid)) if k == 'array' else 0
                sweep = [(i, None) for i in sorted(set([n + 1] + INDEX_BOUNDS))]
                sweep += [(i, [0] * z + be_octets(i)) for i, z in ((0, 3), (1, 3), (n, 1), (n + 1, 4), (U32, 1), (U32, 4), (255, 7))]
                other = [q for q, _, _ in chosen if q != pid][:1]
                for i, raw in sweep:
                    if raw is None and i > U32:
                        raw = be_octets(i)
                    yield read_op(oid, pid, i, raw)
                    any_, label, wrong = gen_write_value(r, bn, obj, p, i)
                    yield write_op(oid, obj, pid, i, raw, r.choice([None, 8]), any_, label, wrong)
                    if k == 'array' and i > n:
                        # the whole (right-typed) value sent with an index that designates nothing
                        any_, label, wrong = gen_write_value(r, bn, obj, p, None)
                        yield write_op(oid, obj, pid, i, raw, None, any_, label + '-whole', True)
                    if i <= U32:
                        yield rpm_op([(oid, [(pid, i)] + [(q, i) for q in other] + [(pid, None)])])
    return ops


def index_sweep_direct(failures, stats):
    for variant in (0, 1):
        run_direct_history(0, failures, stats, scenario=('index-sweep-%d' % variant, index_sweep_setup(variant), index_sweep_ops(variant)))


def history_case(rng, nops=None, scenario=None):
    bn = bench()
    if scenario is None:
        new_history(rng, bn)
        script = None
    else:
        scenario[0](bn)
        script = scenario[1](bn)
    qdev = bn.q_device()
    oracle0 = dict(ORACLE)
    qops, expected, descs = [], [], []
    acks = refusals = added = 0
    for _ in range(nops or rng.randint(10, 14)):
        if script is not None:
            try:
                req, q, d = next(script)
            except StopIteration:
                break
        else:
            r = rng.random()
            if r < 0.05 or (r < 0.10 and len(bn.objects) <= 1):
                # life cycle: an object is added to the running device (Application.add_object)
                added += 1
                o = build_object(rng, rng.choice(sorted(classes())), 60 + added, mutable=rng.random() < 0.8, fill=0.15)
                props = [(p, abs_val(p.datatype, o._values.get(pid))) for pid, p in o._properties.items()]
                qops.append('(EAdd %d %s %s)' % (oid_num(o.objectIdentifier), bn.q_object(o, props),
                                                 q_elem(abs_elem(B()['P'].ObjectIdentifier, o.objectIdentifier))))
                bn.add(o)
                expected += [6]
                descs.append({'op': 'add_object', 'oid': list(o.objectIdentifier), 'reply': [6]})
                continue
            if r < 0.10:
                # ... or deleted from it (Application.delete_object)
                o = bn.objects.pop(rng.randrange(len(bn.objects)))
                qops.append('(EDel %d %s)' % (oid_num(o.objectIdentifier), q_elem(abs_elem(B()['P'].ObjectIdentifier, o.objectIdentifier))))
                bn.dev.delete_object(o)
                expected += [6]
                descs.append({'op': 'delete_object', 'oid': list(o.objectIdentifier), 'reply': [6]})
                continue
            req, q, d = gen_op(rng, bn, legacy=True)
        io, errs = bn.exchange(req)
        rep = c_reply(bn, io)
        acks += (rep == [0])
        refusals += (rep[0] in (2, 3, 4))
        expected += rep
        qops.append(q if q.startswith('(EWire') else '(EReq %s)' % q)
        d['reply'] = rep[:12]
        descs.append(d)
    full = bn.c_device()
    expected += [-7, digest(full)]
    coq = 'run_ev %s\n [%s]' % (qdev, ';\n  '.join(qops))
    types = [o.objectIdentifier[0] for o in bn.objects]
    kind = ('history+implementation-cast' if ORACLE['implementation'] > oracle0['implementation'] else
            'history+codec-cast' if ORACLE['codec'] > oracle0['codec'] else 'history')
    if scenario is not None:
        kind = 'scenario'
    return Case(kind, coq, expected, key=coq, nontrivial=(acks >= 1 and refusals >= 1),
                desc={'objects': types, 'ops': descs})


def cases(rng, tier):
    B(); classes()
    if TABLE_TEXT_DIFFERS:
        raise RuntimeError(TABLE_TEXT_DIFFERS[0])
    n = 2400 if tier == 'thorough' else 400
    out = [history_case(rng, nops=20, scenario=(bitstring_array_scenario, bitstring_array_ops)),
           history_case(rng, nops=60, scenario=(rpm_index0_setup, rpm_index0_ops)),
           history_case(rng, nops=5000, scenario=(index_sweep_setup(0), index_sweep_ops(0))),
           history_case(rng, nops=5000, scenario=(index_sweep_setup(1), index_sweep_ops(1)))]
    out += [history_case(rng) for _ in range(n - 4)]
    bench().clear()
    return out


# ------------------------------------------------------------------ direct (implementation-only) predicate
def snap(bn):
    """{oid number: {pid name: abstract value}} of every object except the local device (observed through its encoders)"""
    out = {}
    for num, o, props in bn.table():
        out[num] = {p.identifier: v for p, v in props}
    return out


def val_items(v):
    """items the whole stored value encodes to, or None if some element does not encode"""
    if v[0] == 's':
        return elem_items(v[1])
    if v[0] in ('pylist', 'lst', 'arr'):
        out = []
        for el in v[-1]:
            it = elem_items(el)
            if it is None:
                return None
            out += it
        return out
    return None


def flat(items):
    out = [len(items)]
    for it in items:
        out += it
    return out


def rp(bn, oid, pid, idx):
    A = B()['A']
    req = mk_request(A.ReadPropertyRequest, oid, pid, idx)
    io, _ = bn.exchange(req)
    return io, c_reply(bn, io)


def grown_default_unencodable(prop, v, idx=None):
    """the known-finding predicate: array of a constructed subtype without prototype, holding default-constructed
    elements (from an index-0 grow) that do not encode"""
    e = B()
    P, C = e['P'], e['C']
    dt = prop.datatype
    if not (issubclass(dt, C.Array) and not issubclass(dt.subtype, P.Atomic) and dt.prototype is None):
        return False
    if proto_of(dt)[0] != 'b' or v[0] != 'arr':
        return False
    if idx is None or idx == 0:
        return any(el[0] == 'b' for el in v[2])
    return 1 <= idx <= len(v[2]) and v[2][idx - 1][0] == 'b'


def check_read_reply(bn, d, rep, before, fail):
    """C: what a ReadProperty must answer, from the state before"""
    C = B()['C']
    oid, pid, idx = tuple(d['oid']), d['pid'], d['idx']
    if d.get('malformed'):
        # an index element without data octets is no index at all: the request must be refused, not read as "no index"
        if rep[0] not in (2, 3, 4):
            fail('malformed-index-answered', d)
        return
    robj = bn.dev.localDevice if oid == ('device', 4194303) else bn.find(oid)
    if robj is None:
        if rep != [2, 1, 31]:
            fail('unknown-object-wrong-reply', d)
        return
    prop = robj._properties.get(pid)
    if prop is None:
        if rep != [2, 2, 32]:
            fail('unknown-property-wrong-reply', d)
        return
    v = before[oid_num(robj.objectIdentifier)].get(pid)
    if v is None:
        return        # a device-object property outside the restricted set
    head = [1, oid_num(robj.objectIdentifier), pid_num(pid), c_idx(idx)]
    if v[0] == 'none':
        if rep[0] in (0, 1, 5):
            fail('absent-property-answered', d)
        return
    if issubclass(prop.datatype, C.Array) and v[0] == 'arr':
        els = v[2]
        known = grown_default_unencodable(prop, v, idx)
        if idx is None:
            want = val_items(v)
        elif idx == 0:
            want = [[0, 2, len(els)]]
        elif 1 <= idx <= len(els):
            want = elem_items(els[idx - 1])
        else:
            if rep != [2, 2, 42]:
                fail('bad-index-wrong-reply', d)
            return
        if want is None or rep != head + flat(want):
            fail('array-read-wrong', d, known_grow=known, want=(head + flat(want))[:30] if want is not None else None)
        return
    if idx is None:
        want = val_items(v)
        if want is None or rep != head + flat(want):
            fail('read-wrong-value', d, want=(head + flat(want))[:30] if want is not None else None)
    elif not issubclass(prop.datatype, C.Array):
        # an index on a property that is not an array designates nothing, whatever its size: property-is-not-an-array
        # (invalid-array-index tolerated), never a value
        if rep not in ([2, 2, 50], [2, 2, 42]):
            fail('bad-index-wrong-reply', d, not_an_array=True)


def embed(rep):
    """a ReadProperty reply as the (kind, payload) ReadPropertyMultiple must embed; None if it cannot be embedded"""
    if rep[0] == 1:
        return [0] + rep[4:]
    if rep[0] == 2 and rep[1] != 0:
        return [1] + rep[1:3]
    return None


def parse_rpm(rep):
    """[5, n, (oid, m, (pid, idx, 0, k, items*3k | 1, c, e)*m)*n] -> [(oid, [(pid, idx, payload)])]"""
    out, i = [], 2
    for _ in range(rep[1]):
        oid, m = rep[i], rep[i + 1]
        i += 2
        els = []
        for _ in range(m):
            pid, idx, kind = rep[i], rep[i + 1], rep[i + 2]
            i += 3
            if kind == 1:
                els.append((pid, idx, [1] + rep[i:i + 2])); i += 2
            elif rep[i] == -9:
                els.append((pid, idx, [0] + rep[i:i + 2])); i += 2
            else:
                k = rep[i]
                els.append((pid, idx, [0] + rep[i:i + 1 + 3 * k])); i += 1 + 3 * k
        out.append((oid, els))
    return out


def check_rpm(bn, d, rep, fail):
    specs = [(tuple(o), [tuple(x) for x in refs]) for o, refs in d['specs']]
    answers, embeddable = [], True
    for oid, refs in specs:
        robj = bn.dev.localDevice if oid == ('device', 4194303) else bn.find(oid)
        per = []
        for pid, idx in refs:
            if pid in ('all', 'required', 'optional'):
                if robj is None:
                    per.append(('special-unknown', pid, idx, None))
                    continue
                exp = {}
                for q, p in robj._properties.items():
                    if pid == 'required' and p.optional: continue
                    if pid == 'optional' and not p.optional: continue
                    _, r1 = rp(bn, oid, q, idx)
                    em = embed(r1)
                    if em is None:
                        embeddable = False
                    exp[pid_num(q)] = em
                per.append(('special', pid, idx, exp))
            else:
                _, r1 = rp(bn, oid, pid, idx)
                em = embed(r1)
                if em is None:
                    embeddable = False
                per.append(('one', pid, idx, em))
        answers.append((oid_num(robj.objectIdentifier) if robj is not None else oid_num(oid), per))
    if rep[0] != 5:
        if embeddable:
            fail('rpm-refused-although-each-read-answers', d)
        return
    if not embeddable:
        return
    try:
        got = parse_rpm(rep)
    except Exception:
        fail('rpm-unparsable', d)
        return
    if [g[0] for g in got] != [a[0] for a in answers]:
        fail('rpm-wrong-objects', d)
        return
    for (onum, els), (_, per) in zip(got, answers):
        k = 0
        for j, (kind, pid, idx, exp) in enumerate(per):
            # the next reference that is not a selector (selectors whose expansion may be empty are looked through)
            nxt = next((x for x in per[j + 1:] if x[0] != 'special'), None)
            if kind == 'one' or kind == 'special-unknown':
                want = exp if kind == 'one' else [1, 1, 31]
                if k >= len(els) or els[k][0] != pid_num(pid) or els[k][1] != c_idx(idx) or els[k][2] != want:
                    fail('rpm-element-differs-from-readproperty', d, ref=[pid, idx], got=list(els[k])[:3] if k < len(els) else None, want=want and want[:20])
                    return
                k += 1
            else:
                seen = set()
                while k < len(els) and els[k][0] in exp and els[k][0] not in seen and els[k][1] == c_idx(idx):
                    q = els[k][0]
                    if exp[q] == [1, 2, 32] and nxt is not None and nxt[0] == 'one' and pid_num(nxt[1]) == q and nxt[2] == idx:
                        break       # an absent property is left out of the expansion: this element answers the next reference
                    seen.add(q)
                    if els[k][2] != exp[q]:
                        fail('rpm-element-differs-from-readproperty', d, ref=[pid, idx], prop=q, got=els[k][2][:20], want=exp[q] and exp[q][:20])
                        return
                    k += 1
                for q, em in exp.items():
                    if q in seen or q == 371:
                        continue
                    if em is not None and em != [1, 2, 32]:
                        fail('rpm-selector-omits-property', d, ref=[pid, idx], prop=q)
                        return
        if k != len(els):
            robj2 = None
            for o2 in [bn.dev.localDevice] + list(bn.objects):
                if oid_num(o2.objectIdentifier) == onum:
                    robj2 = o2
            own = {pid_num(q): p for q, p in robj2._properties.items()} if robj2 is not None else {}
            if els[k][0] in own and any(kind == 'special' for kind, _, _, _ in per):
                fail('rpm-selector-includes-unselected-property', d, prop=els[k][0], optional=bool(own[els[k][0]].optional))
            else:
                fail('rpm-extra-elements', d)
            return


def run_direct_history(hs, failures, stats, stop_at=None, verbose=False, scenario=None):
    """one random history (seed hs), or the scripted history scenario = (name, setup, ops) - every request judged by the
    same per-request predicate"""
    import random
    C = B()['C']
    hr = random.Random(hs)
    bn = bench()
    if scenario is None:
        new_history(hr, bn)
        nops = hr.randint(10, 14)
        script = None
    else:
        scenario[1](bn)
        script = scenario[2](bn)
        nops = 100000
    for k in range(nops):
        if script is not None:
            try:
                req, q, d = next(script)
            except StopIteration:
                break
        else:
            req, q, d = gen_op(hr, bn)
        before = snap(bn)
        io, errs = bn.exchange(req)
        rep = c_reply(bn, io)
        after = snap(bn)
        d = dict(d, reply=rep[:40])
        stats['evaluations'] += 1
        stats['replies'][str(rep[:1] if rep[0] in (0, 1, 5) else rep[:3])] += 1
        if verbose:
            print(k, d)

        def fail(kind, d=d, **kw):
            f = {'kind': kind, 'history_seed': hs, 'op_index': k, 'op': {x: y for x, y in d.items() if x != 'tags'}}
            if scenario is not None:
                del f['history_seed']
                f['scripted_history'] = scenario[0]
            f.update(kw)
            failures.append(f)
        if rep[0] < 0:
            fail('no-or-unknown-reply')
            continue
        if d['op'] != 'write':
            if after != before:
                fail('read-changed-state')
            if d['op'] == 'read':
                check_read_reply(bn, d, rep, before, fail)
            else:
                check_rpm(bn, d, rep, fail)
            continue
        # ---- writes
        oid, pid, idx = tuple(d['oid']), d['pid'], d['idx']
        obj = bn.find(oid)
        onum = oid_num(oid)
        if d.get('malformed'):
            if rep[0] not in (2, 3, 4):
                fail('malformed-index-answered')
            if after != before:
                fail('refused-write-changed-state')
            continue
        if rep != [0]:
            if after != before:
                fail('refused-write-changed-state')
        else:
            diff = [(o, p) for o in after for p in after[o] if after[o][p] != before[o].get(p)]
            if any(x != (onum, pid) for x in diff):
                fail('write-changed-other-property', changed=[list(x) for x in diff][:5])
        if obj is None:
            if rep != [2, 1, 31]:
                fail('unknown-object-wrong-reply')
            continue
        prop = obj._properties.get(pid)
        if prop is None:
            if rep != [2, 2, 32]:
                fail('unknown-property-wrong-reply')
            continue
        v = before[onum].get(pid)
        if v is None:
            continue
        if rep == [0] and d['wrong']:
            fail('wrong-datatype-accepted')
            continue
        isarr = issubclass(prop.datatype, C.Array)
        n = len(v[2]) if v[0] == 'arr' else None
        right = d['value'] in ('right', 'length')
        # an index that designates neither the length nor an element (any index on a non-array, beyond the length of an
        # array) must never be acknowledged - whatever its size or spelling - and is answered with the matching error
        bad_index = idx is not None and (not isarr or (n is not None and idx > n))
        if bad_index and rep == [0]:
            fail('bad-index-acknowledged', elements=n, array=isarr)
            continue
        if bad_index and v[0] != 'none' and right and not isarr and rep not in ([2, 2, 50], [2, 2, 42]) and not (not prop.mutable and rep == [2, 2, 40]):
            fail('bad-index-wrong-reply', not_an_array=True)
        if right and v[0] != 'none' and rep != [0]:
            index_ok = (idx is None) or (isarr and n is not None and 0 <= idx <= n)
            if not prop.mutable and index_ok and rep != [2, 2, 40] and not (d['tags'] == [[0, 0, 0, '']]):
                fail('read-only-wrong-reply')
            if isarr and n is not None and idx is not None and idx > n and rep != [2, 2, 42]:
                fail('bad-index-wrong-reply')
        if rep == [0]:
            stats['acked'] += 1
            # write-then-read: same tags come back
            io2, rep2 = rp(bn, oid, pid, idx)
            stats['evaluations'] += 1
            wtags = [tuple(t) for t in d['tags']]
            if not right:
                # a value that was not produced by the library's encoder from a value of the datatype (leniently
                # accepted forms such as an omitted empty list): compare through its decoded form re-encoded
                try:
                    target = prop.datatype.subtype if (isarr and idx is not None) else prop.datatype
                    back = req.propertyValue.cast_out(target)
                    wtags = valgen.canon_tags(make_any([wrap(target, back)]).tagList.tagList)
                except Exception:
                    pass
            rtags = valgen.canon_tags(io2.ioResponse.propertyValue.tagList.tagList) if (io2.ioResponse is not None and rep2[0] == 1) else None
            v2 = after[onum].get(pid)
            known = grown_default_unencodable(prop, v2, None) if v2 is not None else False
            if isarr and idx == 0:
                m = int(d['tags'][0][3], 16) if d['tags'] and d['tags'][0][1] == 2 else None
                if rtags != wtags or v2[0] != 'arr' or v2[1] != m or len(v2[2]) != m:
                    fail('length-write-not-read-back', known_grow=False)
                elif m and m > (n or 0):
                    io3, rep3 = rp(bn, oid, pid, m)
                    io4, rep4 = rp(bn, oid, pid, None)
                    if rep3[0] != 1 or rep4[0] != 1:
                        fail('grown-array-unreadable', known_grow=known, replies=[rep3[:3], rep4[:3]])
            elif rtags != wtags:
                fail('write-then-read-differs', known_grow=known and idx is None, read=rep2[:12])
            if snap(bn) != after:
                fail('read-changed-state')
    bn.clear()


def canonical_known(failures, stats):
    """canonical replay of known finding C15-grow-constructed-array (reported on every run while it still fails)"""
    e = B()
    P, C, A = e['P'], e['C'], e['A']
    bn = bench()
    bn.clear()
    cls, M = classes()['accessRights']
    dt = M._properties['positiveAccessRules'].datatype
    obj = M(objectIdentifier=('accessRights', 10), objectName='accessRights-10', positiveAccessRules=dt([]))
    bn.add(obj)
    req = A.WritePropertyRequest(objectIdentifier=obj.objectIdentifier, propertyIdentifier='positiveAccessRules')
    req.propertyValue = make_any([P.Unsigned(2)])
    req.propertyArrayIndex = 0
    io, _ = bn.exchange(req)
    rep = c_reply(bn, io)
    _, r0 = rp(bn, obj.objectIdentifier, 'positiveAccessRules', 0)
    _, r2 = rp(bn, obj.objectIdentifier, 'positiveAccessRules', 2)
    _, ra = rp(bn, obj.objectIdentifier, 'positiveAccessRules', None)
    stats['evaluations'] += 4
    v = snap(bn)[oid_num(obj.objectIdentifier)]['positiveAccessRules']
    if rep == [0] and (r2[0] != 1 or ra[0] != 1):
        failures.append({'kind': 'grown-array-unreadable', 'canonical': True,
                         'known_grow': grown_default_unencodable(M._properties['positiveAccessRules'], v, 2),
                         'op': {'op': 'write', 'oid': ['accessRights', 10], 'pid': 'positiveAccessRules', 'idx': 0, 'value': 'length 2'},
                         'replies': [rep, r0[:8], r2[:3], ra[:3]]})
    bn.clear()


def bitstring_array_direct(failures, stats):
    """arrays whose elements are python lists (bit strings): every index class"""
    bn = bench()
    bitstring_array_scenario(bn)
    for req, q, d in bitstring_array_ops(bn):
        before = snap(bn)
        io, _ = bn.exchange(req)
        rep = c_reply(bn, io)
        d = dict(d, reply=rep[:40])
        stats['evaluations'] += 1

        def fail(kind, d=d, **kw):
            failures.append(dict({'kind': kind, 'scenario': 'bitstring-array', 'op': d}, **kw))
        if d['op'] == 'read':
            check_read_reply(bn, d, rep, before, fail)
        else:
            check_rpm(bn, d, rep, fail)
    bn.clear()


# ---- commandable objects (local/object.py *CmdObject): priorities 1..16 against an independent priority-array oracle
CMD_CLASSES = ['AnalogValueCmdObject', 'AnalogOutputCmdObject', 'BinaryValueCmdObject', 'MultiStateValueCmdObject',
               'CharacterStringValueCmdObject', 'IntegerValueCmdObject', 'LargeAnalogValueCmdObject', 'PositiveIntegerValueCmdObject',
               'OctetStringValueCmdObject', 'BitStringValueCmdObject', 'DateValueCmdObject', 'TimeValueCmdObject',
               'LightingOutputCmdObject', 'MultiStateOutputCmdObject']
_CMD = {}


def cmd_classes():
    if not _CMD:
        O = B()['O']
        from bacpypes.local import object as L
        for name in CMD_CLASSES:
            K = getattr(L, name)
            O.register_object_type(K, vendor_id=997)
            _CMD[name] = K
    return _CMD


def tags_of_any(a):
    return [tuple(t) for t in valgen.canon_tags(a.tagList.tagList)]


def run_cmd_history(hs, failures, stats, verbose=False):
    """one commandable object; commands / relinquishes at priorities 1..16 (and none = 16) over the wire; after every
    request presentValue, priorityArray (whole, [0], one slot) are read back and compared with the oracle:
    slot[p] = last value commanded at p or Null; presentValue = first non-Null slot, else relinquishDefault"""
    import random
    e = B()
    P, C, A = e['P'], e['C'], e['A']
    hr = random.Random(hs)
    bn = bench()
    bn.clear()
    name = hr.choice(CMD_CLASSES)
    K = cmd_classes()[name]
    pvprop = K._properties['presentValue']
    dt = pvprop.datatype

    def gen_value():
        v = valgen.gen_atomic(dt, hr)
        if issubclass(dt, P.Unsigned) and name.startswith('MultiState'):
            v = hr.randint(1, 5)
        return v

    def enc(v):
        return tags_of_any(make_any([dt(v)]))
    rd = gen_value()
    kw = {}
    if name.startswith('MultiState'):
        kw['numberOfStates'] = 5
    obj = K(objectIdentifier=(K.objectType, 20), objectName='cmd-20', relinquishDefault=rd, presentValue=rd, **kw)
    bn.add(obj)
    oid = obj.objectIdentifier
    NULL = [(0, 0, 0, '')]
    slots = [None] * 17            # tags of the commanded value, per priority
    rd_tags = enc(rd)
    k = -1

    def fail(kind, **kw2):
        f = {'kind': kind, 'cmd_history_seed': hs, 'class': name, 'op_index': k}
        f.update(kw2)
        failures.append(f)

    def read_tags(pid, idx=None):
        req = A.ReadPropertyRequest(objectIdentifier=oid, propertyIdentifier=pid)
        if idx is not None:
            req.propertyArrayIndex = idx
        io, _ = bn.exchange(req)
        stats['evaluations'] += 1
        r = io.ioResponse
        if isinstance(r, A.ReadPropertyACK):
            return tags_of_any(r.propertyValue)
        return ('refused', c_reply(bn, io)[:3])

    def verify(after):
        want_pv = next((slots[p] for p in range(1, 17) if slots[p] is not None), rd_tags)
        got = read_tags('presentValue')
        if got != want_pv:
            fail('commandable-present-value-wrong', after=after, got=str(got)[:120], want=str(want_pv)[:120],
                 slots={p: str(slots[p]) for p in range(1, 17) if slots[p] is not None})
            return False
        whole = read_tags('priorityArray')
        want = []
        for p in range(1, 17):
            want += slots[p] if slots[p] is not None else NULL
        if whole != want:
            fail('commandable-priority-array-wrong', after=after, got=str(whole)[:300], want=str(want)[:300])
            return False
        p = hr.randint(1, 16)
        one = read_tags('priorityArray', p)
        if one != (slots[p] if slots[p] is not None else NULL):
            fail('commandable-priority-slot-wrong', after=after, slot=p, got=str(one)[:120])
            return False
        if read_tags('priorityArray', 0) != [(0, 2, 1, '10')]:
            fail('commandable-priority-array-length-wrong', after=after)
            return False
        r17 = read_tags('priorityArray', 17)
        if r17 != ('refused', [2, 2, 42]):
            fail('bad-index-wrong-reply', after=after, got=str(r17))
            return False
        if read_tags('relinquishDefault') != rd_tags:
            fail('commandable-relinquish-default-changed', after=after)
            return False
        return True
    if not verify('construction'):
        bn.clear()
        return
    for k in range(hr.randint(10, 16)):
        r = hr.random()
        prio = hr.choice([None, 1, 2, 5, 8, 8, 12, 15, 16, hr.randint(1, 16)])
        p = 16 if prio is None else prio
        if r < 0.55:
            v = gen_value()
            a, what, newslot = make_any([dt(v)]), 'command', enc(v)
        elif r < 0.85:
            a, what, newslot = make_any([P.Null()]), 'relinquish', None
        else:
            kinds = [i for i in range(1, 13) if i != dt._app_tag and not (dt._app_tag in (2, 9) and i in (2, 9) and False)]
            a, what, newslot = make_any([atom_samples()[hr.choice(kinds)](hr)]), 'wrong-type', 'refuse'
        req = A.WritePropertyRequest(objectIdentifier=oid, propertyIdentifier='presentValue')
        req.propertyValue = a
        if prio is not None:
            req.priority = prio
        before = snap(bn)
        io, _ = bn.exchange(req)
        rep = c_reply(bn, io)
        stats['evaluations'] += 1
        stats['cmd_requests'] = stats.get('cmd_requests', 0) + 1
        d = {'what': what, 'priority': prio, 'tags': str(tags_of_any(a)), 'reply': rep[:3]}
        if verbose:
            print(k, d)
        if rep == [0]:
            if newslot == 'refuse':
                fail('wrong-datatype-accepted', op=d)
                break
            slots[p] = newslot
            stats['acked'] += 1
        else:
            if rep[0] not in (2, 3, 4):
                fail('no-or-unknown-reply', op=d)
                break
            if snap(bn) != before:
                fail('refused-write-changed-state', op=d)
                break
        if not verify(d):
            break
    bn.clear()


def rpm_index0_scenario(bn):
    """objects with arrays whose elements are character strings, enumerations (propertyList), unsigned; -> the specs"""
    e = B()
    P, C, A = e['P'], e['C'], e['A']
    bn.clear()
    cls, M = classes()['multiStateValue']
    st = M._properties['stateText'].datatype
    av = M._properties['alarmValues'].datatype
    o1 = M(objectIdentifier=('multiStateValue', 10), objectName='msv-10', stateText=st(['off', 'low', 'high']),
           alarmValues=av([2, 3]), presentValue=1, numberOfStates=3)
    cls2, M2 = classes()['structuredView']
    sub = M2._properties['subordinateList'].datatype
    ann = M2._properties['subordinateAnnotations'].datatype
    o2 = M2(objectIdentifier=('structuredView', 11), objectName='sv-11',
            subordinateAnnotations=ann(['a', 'bb']))
    cls3, M3 = classes()['notificationClass']
    pr = M3._properties['priority'].datatype
    pl = M3._properties['propertyList'].datatype
    o3 = M3(objectIdentifier=('notificationClass', 12), objectName='nc-12', priority=pr([1, 2, 3]),
            propertyList=pl(['presentValue', 'units', 'priority']))
    for o in (o1, o2, o3):
        bn.add(o)
    specs = [(o1.objectIdentifier, [('stateText', 0), ('stateText', 2), ('alarmValues', 0), ('stateText', None), ('stateText', 4)]),
             (o2.objectIdentifier, [('subordinateAnnotations', 0), ('subordinateAnnotations', 1)]),
             (o3.objectIdentifier, [('priority', 0), ('priority', 3), ('all', 0)]),
             (o3.objectIdentifier, [('propertyList', 0), ('propertyList', 2), ('propertyList', None)]),
             (o1.objectIdentifier, [('alarmValues', 0), ('alarmValues', 1)]),
             (('device', 4194303), [('objectName', None)])]
    return specs


def rpm_index0_ops(bn):
    A = B()['A']
    for oid, refs in bn._scenario_specs:
        specs = [(oid, refs)]
        req = A.ReadPropertyMultipleRequest(listOfReadAccessSpecs=[
            A.ReadAccessSpecification(objectIdentifier=o, listOfPropertyReferences=[
                A.PropertyReference(propertyIdentifier=p, propertyArrayIndex=i) for p, i in rr]) for o, rr in specs])
        yield req, '(ORpm %s)' % q_refs(specs), {'op': 'rpm', 'specs': [[list(o), [list(x) for x in rr]] for o, rr in specs]}
        for pid, idx in refs:
            if pid in ('all', 'required', 'optional'):
                continue
            req = A.ReadPropertyRequest(objectIdentifier=oid, propertyIdentifier=pid)
            if idx is not None:
                req.propertyArrayIndex = idx
            yield req, '(ORead %d %d %s)' % (oid_num(oid), pid_num(pid), q_opt(idx)), {'op': 'read', 'oid': list(oid), 'pid': pid, 'idx': idx}


def rpm_index0_setup(bn):
    bn._scenario_specs = rpm_index0_scenario(bn)


def rpm_index0_direct(failures, stats):
    """index 0 (and the other index classes) of arrays whose elements are not Unsigned, through ReadPropertyMultiple and
    ReadProperty"""
    bn = bench()
    specs = rpm_index0_scenario(bn)
    for group in [specs] + [[x] for x in specs]:
        rpm_index0_one(bn, group, failures, stats)
    bn.clear()


def rpm_index0_one(bn, specs, failures, stats, scenario='rpm-index-0'):
    e = B()
    P, C, A = e['P'], e['C'], e['A']
    req = A.ReadPropertyMultipleRequest(listOfReadAccessSpecs=[
        A.ReadAccessSpecification(objectIdentifier=o, listOfPropertyReferences=[
            A.PropertyReference(propertyIdentifier=p, propertyArrayIndex=i) for p, i in refs]) for o, refs in specs])
    d = {'op': 'rpm', 'specs': [[list(o), [list(x) for x in refs]] for o, refs in specs]}
    io, _ = bn.exchange(req)
    rep = c_reply(bn, io)
    stats['evaluations'] += 1
    d['reply'] = rep[:60]

    def fail(kind, d=d, **kw):
        failures.append(dict({'kind': kind, 'scenario': scenario, 'op': d}, **kw))
    check_rpm(bn, d, rep, fail)
    # and the raw tags: index 0 must be one application Unsigned tag carrying the length
    r = io.ioResponse
    if isinstance(r, A.ReadPropertyMultipleACK):
        for rar in r.listOfReadAccessResults:
            for el in rar.listOfResults:
                if el.propertyArrayIndex == 0 and el.readResult.propertyValue is not None:
                    tags = valgen.canon_tags(el.readResult.propertyValue.tagList.tagList)
                    obj = bn.find(rar.objectIdentifier)
                    v = obj._values.get(el.propertyIdentifier) if obj is not None else None
                    if isinstance(v, C.Array) and (len(tags) != 1 or tags[0][0] != 0 or tags[0][1] != 2
                                                   or int(tags[0][3], 16) != len(v.value) - 1):
                        fail('rpm-index-0-not-the-length', prop=el.propertyIdentifier, tags=str(tags))


_VARIANTS = {}
PAIR_TYPES = ['analogValue', 'binaryValue', 'multiStateValue', 'integerValue', 'characterstringValue', 'largeAnalogValue',
              'positiveIntegerValue', 'octetstringValue', 'analogOutput', 'multiStateOutput']
CMD_OF = {'analogValue': 'AnalogValueCmdObject', 'binaryValue': 'BinaryValueCmdObject', 'multiStateValue': 'MultiStateValueCmdObject',
          'integerValue': 'IntegerValueCmdObject', 'characterstringValue': 'CharacterStringValueCmdObject',
          'largeAnalogValue': 'LargeAnalogValueCmdObject', 'positiveIntegerValue': 'PositiveIntegerValueCmdObject',
          'octetstringValue': 'OctetStringValueCmdObject', 'analogOutput': 'AnalogOutputCmdObject',
          'multiStateOutput': 'MultiStateOutputCmdObject'}


def variant_class(otype):
    """a class of the same objectType with another property set: a third of the properties dropped, optional flags inverted
    on every other remaining one"""
    if otype not in _VARIANTS:
        O = B()['O']
        cls, M = classes()[otype]
        props = []
        for i, (pid, p) in enumerate(cls._properties.items()):
            if pid in KEEP or i % 3 == 0:
                continue
            props.append(O.Property(pid, p.datatype, None, optional=(not p.optional) if i % 2 else p.optional, mutable=True))
        V = type('Var' + cls.__name__, (O.Object,), {'objectType': otype, 'properties': props})
        O.register_object_type(V, vendor_id=996)
        _VARIANTS[otype] = V
    return _VARIANTS[otype]


def fill_object(K, rng, otype, inst, fill, skip=(), **fixed):
    kw = dict(fixed)
    for pid, p in K._properties.items():
        if pid in KEEP or pid in skip or pid in kw:
            continue
        if rng.random() < fill:
            v = safe_gen(p.datatype, rng)
            if v is not None:
                kw[pid] = v
    return K(objectIdentifier=(otype, inst), objectName='%s-%d' % (otype, inst), **kw)


def same_type_pairs_direct(rng, failures, stats):
    """one device hosting, per object type, objects of equal objectType and different classes (the registered class, its
    all-mutable subclass, the commandable class of local/object.py, a variant class with another property set and other
    optional flags); the selectors all/required/optional are asked of each, alone and two objects per request in both
    orders, the class asked first rotating with type and selector; every element is compared with ReadProperty of that
    property on that object and the membership with the object's own _properties / optional flags (check_rpm)"""
    e = B()
    P = e['P']
    bn = bench()
    bn.clear()
    groups = []
    for ti, otype in enumerate(PAIR_TYPES):
        cls, M = classes()[otype]
        K = cmd_classes()[CMD_OF[otype]]
        dt = K._properties['presentValue'].datatype
        rd = rng.randint(1, 3) if otype.startswith('multiState') else valgen.gen_atomic(dt, rng)
        extra = {'numberOfStates': 5} if otype.startswith('multiState') else {}
        objs = [fill_object(cls, rng, otype, 31, 0.5),
                fill_object(M, rng, otype, 32, 0.5),
                fill_object(K, rng, otype, 33, 0.4, skip=('presentValue', 'priorityArray', 'relinquishDefault', 'minimumOnTime', 'minimumOffTime'),
                            presentValue=rd, relinquishDefault=rd, **extra),
                fill_object(variant_class(otype), rng, otype, 34, 0.6)]
        for o in objs:
            bn.add(o)
        groups.append((ti, objs))
    sels = ['required', 'optional', 'all']
    for ti, objs in groups:
        for si, sel in enumerate(sels):
            order = objs[(ti + si) % 4:] + objs[:(ti + si) % 4]
            for o in order:                                   # each object alone, rotating which class is asked first
                rpm_index0_one(bn, [(o.objectIdentifier, [(sel, None)])], failures, stats, scenario='same-type-pairs')
            for a in range(4):                                # two objects of the type in one request, both orders
                for b in ((a + 1) % 4, (a + 3) % 4):
                    if a != b:
                        rpm_index0_one(bn, [(objs[a].objectIdentifier, [(sel, None)]), (objs[b].objectIdentifier, [(sel, None), ('presentValue', None)])],
                                       failures, stats, scenario='same-type-pairs')
        # all three selectors in one specification, and with an array index
        for o in objs:
            rpm_index0_one(bn, [(o.objectIdentifier, [('required', None), ('optional', None), ('all', None)])], failures, stats,
                           scenario='same-type-pairs')
            rpm_index0_one(bn, [(o.objectIdentifier, [('required', 0)])], failures, stats, scenario='same-type-pairs')
    bn.clear()


def unknown_type_direct(failures, stats):
    """objects that are not there, including identifiers whose type number is not in the ObjectType enumeration (reserved
    60..127, vendor 128..1023, the maximum 1023): ReadProperty / WriteProperty answer object/unknown-object, RPM embeds that
    error for the specification and still answers the known objects"""
    e = B()
    P, A = e['P'], e['A']
    bn = bench()
    bn.clear()
    cls, M = classes()['analogValue']
    o = M(objectIdentifier=('analogValue', 40), objectName='av-40', presentValue=1.5, description='x')
    bn.add(o)
    known = o.objectIdentifier
    unk = [(63, 1), (100, 7), (127, 4194302), (128, 1), (555, 9), (1023, 3), (1023, 4194302), ('analogValue', 41), ('loop', 1)]
    for u in unk:
        for req, what in ((A.ReadPropertyRequest(objectIdentifier=u, propertyIdentifier='presentValue'), 'read'),
                          (A.WritePropertyRequest(objectIdentifier=u, propertyIdentifier='presentValue', propertyValue=make_any([P.Real(1.0)])), 'write')):
            io, _ = bn.exchange(req)
            rep = c_reply(bn, io)
            stats['evaluations'] += 1
            if rep != [2, 1, 31]:
                failures.append({'kind': 'unknown-object-wrong-reply', 'scenario': 'unknown-type', 'op': {'op': what, 'oid': list(u), 'reply': rep[:6]}})
        refs = [('presentValue', None), ('all', None), ('description', 1)]
        for specs in ([(u, refs)], [(known, refs), (u, refs)], [(u, refs), (known, refs), (('device', 4194303), [('objectName', None)])],
                      [(u, [('required', None)]), (unk[(unk.index(u) + 1) % len(unk)], [('objectName', None)]), (known, [('presentValue', None)])]):
            rpm_index0_one(bn, specs, failures, stats, scenario='unknown-type')
    bn.clear()


def device_lifecycle_direct(rng, failures, stats):
    """objects added to and deleted from the running device; after every step the local device's objectList is read whole,
    [0], [1..n], [n+1] through ReadProperty and ReadPropertyMultiple: the length element is the number of elements is the
    number of hosted objects (+ the device itself), element i is the i-th of the whole read, n+1 is an invalid index"""
    e = B()
    P, C, A = e['P'], e['C'], e['A']
    bn = bench()
    bn.clear()
    ld = bn.dev.localDevice
    devoid = ld.objectIdentifier
    dt = ld._properties['objectList'].datatype
    types = sorted(classes())
    counter = [50]

    def fail(kind, step, **kw):
        failures.append(dict({'kind': kind, 'scenario': 'device-life-cycle', 'step': step,
                              'hosted': [list(o.objectIdentifier) for o in bn.objects]}, **kw))

    def read(idx):
        io, rep = rp(bn, devoid, 'objectList', idx)
        stats['evaluations'] += 1
        r = io.ioResponse
        if isinstance(r, A.ReadPropertyACK):
            try:
                if idx is None:
                    return 'ok', list(r.propertyValue.cast_out(dt))
                return 'ok', r.propertyValue.cast_out(P.Unsigned if idx == 0 else P.ObjectIdentifier)
            except Exception as ex:
                return 'undecodable', repr(ex)[:80]
        return 'refused', rep[:3]

    def verify(step):
        expect = [devoid] + [o.objectIdentifier for o in bn.objects]
        k, whole = read(None)
        if k != 'ok':
            fail('object-list-unreadable', step, got=str(whole))
            return False
        if sorted(map(str, whole)) != sorted(map(str, expect)):
            fail('object-list-not-the-hosted-objects', step, got=[list(x) for x in whole])
            return False
        n = len(whole)
        k0, r0 = read(0)
        if k0 != 'ok' or r0 != n:
            fail('array-length-element-wrong', step, length_element=str(r0), elements=n)
            return False
        for i in range(1, n + 1):
            ki, ri = read(i)
            if ki != 'ok' or tuple(ri) != tuple(whole[i - 1]):
                fail('array-element-wrong', step, index=i, got=str(ri), elements=n)
                return False
        kn, rn = read(n + 1)
        if (kn, rn) != ('refused', [2, 2, 42]):
            fail('bad-index-wrong-reply', step, index=n + 1, got=str(rn))
            return False
        before = len(failures)
        for target in (devoid, ('device', 4194303)):
            rpm_index0_one(bn, [(target, [('objectList', 0), ('objectList', None), ('objectList', n), ('objectList', n + 1), ('objectList', 1)])],
                           failures, stats, scenario='device-life-cycle')
        return len(failures) == before

    def add():
        counter[0] += 1
        bn.add(build_object(rng, rng.choice(types), counter[0], mutable=rng.random() < 0.5, fill=0.1))

    def delete(pos):
        o = bn.objects.pop(pos)
        bn.dev.delete_object(o)
    if not verify('start'):
        bn.clear(); return
    script = ['add', 'add', 'add', 'del-middle', 'del-first', 'add', 'add', 'del-last', 'add', 'del-first', 'del-last', 'del-first', 'add', 'del-last']
    script += [rng.choice(['add', 'del-first', 'del-middle', 'del-last']) for _ in range(10)]
    for step, what in enumerate(script):
        if what == 'add':
            add()
        elif bn.objects:
            delete({'del-first': 0, 'del-last': len(bn.objects) - 1, 'del-middle': len(bn.objects) // 2}[what])
        else:
            continue
        if not verify('%d:%s' % (step, what)):
            break
    bn.clear()


def direct(rng, tier, focus=()):
    import collections
    B(); classes()
    failures = []
    stats = {'evaluations': 0, 'acked': 0, 'replies': collections.Counter(), 'histories': 0}
    H = 1500 if tier == 'thorough' else 260
    seeds = [rng.getrandbits(48) for _ in range(H)]
    for hs in seeds:
        run_direct_history(hs, failures, stats)
        stats['histories'] += 1
    canonical_known(failures, stats)
    bitstring_array_direct(failures, stats)
    rpm_index0_direct(failures, stats)
    index_sweep_direct(failures, stats)
    same_type_pairs_direct(rng, failures, stats)
    unknown_type_direct(failures, stats)
    for _ in range(8 if tier == 'thorough' else 2):
        device_lifecycle_direct(rng, failures, stats)
    cseeds = [rng.getrandbits(48) for _ in range(600 if tier == 'thorough' else 120)]
    for hs in cseeds:
        run_cmd_history(hs, failures, stats)
        stats['cmd_histories'] = stats.get('cmd_histories', 0) + 1
    stats['replies'] = dict(stats['replies'])
    stats['distinct_nontrivial'] = stats['acked']
    stats['samples'] = [{'direct': 'history', 'seed': seeds[0]}]
    return failures, stats


def classify(failure):
    if failure.get('known_grow') and failure['kind'] in ('grown-array-unreadable', 'array-read-wrong', 'write-then-read-differs'):
        return 'C15-grow-constructed-array'
    return None


def replay(payload):
    B(); classes()
    f = payload.get('failure')
    if f and 'cmd_history_seed' in f:
        failures, stats = [], {'evaluations': 0, 'acked': 0, 'replies': __import__('collections').Counter(), 'histories': 0}
        run_cmd_history(f['cmd_history_seed'], failures, stats, verbose=True)
        print('failures re-observed:')
        for x in failures:
            print(' ', x)
        return
    if f and 'scripted_history' in f:
        failures, stats = [], {'evaluations': 0, 'acked': 0, 'replies': __import__('collections').Counter(), 'histories': 0}
        variant = int(f['scripted_history'].rsplit('-', 1)[1])
        run_direct_history(0, failures, stats, verbose=True,
                           scenario=(f['scripted_history'], index_sweep_setup(variant), index_sweep_ops(variant)))
        print('failures re-observed:')
        for x in failures:
            print(' ', x)
        return
    if f and 'history_seed' in f:
        failures, stats = [], {'evaluations': 0, 'acked': 0, 'replies': __import__('collections').Counter(), 'histories': 0}
        run_direct_history(f['history_seed'], failures, stats, verbose=True)
        print('failures re-observed:')
        for x in failures:
            print(' ', x)
        return
    print('replay', payload)
