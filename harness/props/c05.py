"""C05 — segmented transfers deliver the exact payload and survive any single fault."""
import types
import ssm_common as S
from core import Case

PROP = 'C05'
COQ_TARGETS = ['theories/SsmFacts.vo', 'theories/SsmC05.vo']
COQ_IMPORTS = S.COQ_IMPORTS
RULE = ('direct also: fault-free two-way exchanges (two stations client and server towards each other at the same moment with equal invoke ids, segmented replies) judged against each request run alone; cases: fault-free transfers of every request / response length 0..4*50+2 at max-APDU 50 (and boundary lengths at 128, 206; '
        'thorough: 480, 1024, 1476) with windows cycling 1..8 on both sides; every single fault (drop, duplicate, 500 ms delay, late '
        'duplicate) at every frame of seeded transfers; transfers of 255..258 segments; random multi-fault runs; SSM.in_window on a '
        'grid of sequence numbers and windows.  Compared per scenario: the whole canonical trace (frames with sequence number, '
        'more-follows, window, payload checksum; application payloads; timers; exceptions; residue).  non-trivial = at least one '
        'segmented frame, or an in_window case; distinct by scenario.')
TRUSTED = S.TRUSTED
ASSUMPTIONS = S.ASSUMPTIONS


def sweep_specs(rng, tier):
    out = []
    w = 0
    for L in range(0, 4 * 50 + 3, 1 if tier == 'thorough' else 1):
        w += 1
        nodes = S.two_nodes(cmax=50, smax=50, cwin=1 + (w % 8), swin=1 + ((w // 8) % 8), know=(L % 3 != 0))
        if L % 2 == 0:
            req = {'t': 0, 'src': 1, 'dst': 2, 'len': L, 'service': 12, 'resp': ['simple'], 'resp_delay': 0}
        else:
            req = {'t': 0, 'src': 1, 'dst': 2, 'len': 3, 'service': 12, 'resp': ['complex', L], 'resp_delay': 0}
        out.append({'nodes': nodes, 'requests': [req]})
    sizes = [128, 206] + ([480, 1024, 1476] if tier == 'thorough' else [])
    for sz in sizes:
        for L in [sz - 1, sz, sz + 1, 2 * sz - 1, 2 * sz, 2 * sz + 1, 3 * sz, 4 * sz + 1, 4 * sz + 2]:
            for both in (0, 1):
                nodes = S.two_nodes(cmax=sz, smax=sz, cwin=rng.randrange(1, 9), swin=rng.randrange(1, 9), know=rng.random() < 0.5)
                req = {'t': 0, 'src': 1, 'dst': 2, 'len': L if both == 0 else 5, 'service': 12,
                       'resp': ['complex', L] if both else ['simple'], 'resp_delay': 0}
                out.append({'nodes': nodes, 'requests': [req]})
    return out


def long_specs(tier):
    out = []
    for nseg, win in ([(255, 4), (256, 4), (257, 4), (258, 3)] if tier == 'thorough' else [(256, 8), (258, 3)]):
        L = 50 * nseg - 7
        out.append({'nodes': S.two_nodes(cwin=win, swin=win, cmaxsegs=0, smaxsegs=0, know=False),
                    'requests': [{'t': 0, 'src': 1, 'dst': 2, 'len': L, 'service': 12, 'resp': ['simple'], 'resp_delay': 0}]})
    return out


def in_window_cases(rng, n):
    from bacpypes.appservice import SSM
    out = []
    grid = [(a, b, w) for a in (0, 1, 2, 127, 128, 254, 255) for b in (0, 1, 2, 127, 128, 254, 255) for w in (0, 1, 2, 8, 127, 128, 255)]
    grid += [(rng.randrange(256), rng.randrange(256), rng.randrange(0, 130)) for _ in range(n)]
    for (a, b, w) in grid:
        obj = types.SimpleNamespace(actualWindowSize=w)
        r = SSM.in_window(obj, a, b)
        out.append(Case('in_window', '[zb (in_window %d %d %d)]' % (a, b, w), [1 if r else 0], key=('inw', a, b, w), nontrivial=True,
                        desc={'op': 'in_window', 'a': a, 'b': b, 'w': w}))
    return out


def cases(rng, tier):
    out = []
    for spec in sweep_specs(rng, tier):
        out.append(S.scenario_case(spec, 'length-sweep'))
    # every single fault at every frame of two fixed transfers that are segmented in both directions
    for (cw, sw, rl, pl) in ((2, 2, 180, 180), (3, 4, 130, 230)):
        nodes = S.two_nodes(cwin=cw, swin=sw, know=True)
        req = {'t': 0, 'src': 1, 'dst': 2, 'len': rl, 'service': 12, 'resp': ['complex', pl], 'resp_delay': 0}
        for spec, fault, base in S.single_fault_family(rng, nodes=nodes, req=req):
            out.append(S.scenario_case(spec, 'single-fault'))
    fams = 20 if tier == 'thorough' else 1
    for _ in range(fams):
        for spec, fault, base in S.single_fault_family(rng):
            out.append(S.scenario_case(spec, 'single-fault'))
    for spec in long_specs(tier):
        out.append(S.scenario_case(spec, 'long-transfer'))
    for _ in range(2500 if tier == 'thorough' else 60):
        spec = S.gen_transaction(rng, maxfaults=4)
        out.append(S.scenario_case(spec, 'multi-fault'))
    for _ in range(200 if tier == 'thorough' else 30):
        out.append(S.scenario_case(S.gen_scripted_windows(rng), 'scripted-windows'))
    for _ in range(300 if tier == 'thorough' else 40):
        out.append(S.scenario_case(S.gen_request_tail(rng), 'request-tail'))
    for _ in range(200 if tier == 'thorough' else 30):
        out.append(S.scenario_case(S.gen_concurrent(rng), 'concurrent'))
    # consecutive transfers between the same stations: a late copy of a segment of the earlier one meets the later one
    for _ in range(300 if tier == 'thorough' else 40):
        out.append(S.scenario_case(S.gen_stale_segment(rng), 'stale-segment-of-earlier-transfer'))
    out += in_window_cases(rng, 2000 if tier == 'thorough' else 300)
    return out


def single_fault_failures(rng, nfam, stats):
    """the property's last sentence: any one lost, duplicated or late frame is repaired and the transaction still succeeds"""
    failures = []
    for _ in range(nfam):
        fam = S.single_fault_family(rng)
        spec0, _, base = fam[0]
        r = dict(spec0['requests'][0], no=0)
        r['resp_delay'] = 0
        exp = S.expected_response(base, r)

        def ok(tr):
            res, un, sub = S.request_outcomes(tr)
            o = res.get(0, [])
            return len(o) == 1 and exp is not None and o[0][1][4] == exp[0] and (exp[0] not in (3, 5) or o[0][1][6] == exp[1])
        stats['evaluations'] += 1
        if not ok(base) or S.check_c04(base) or S.check_c05(base):
            continue          # the fault-free run itself does not succeed (capabilities): nothing to repair
        retries = min(n['retries'] for n in spec0['nodes'])
        if retries < 1:
            continue          # no retransmission configured
        segmented = any(f['hdr']['seg'] == 1 for f in base.frames)
        for spec, fault, _ in fam[1:]:
            tr = S.run_scenario(spec)
            stats['evaluations'] += 1
            stats['single_faults'] = stats.get('single_faults', 0) + 1
            if ok(tr):
                continue
            d = S.describe_frame(base, fault[1])
            res, un, sub = S.request_outcomes(tr)
            o = res.get(0, [])
            garbage = [x for x in S.check_c05(tr) if x['kind'] in ('request-payload-differs', 'response-payload-differs')]
            failures.append({'kind': 'single-fault-not-repaired', 'fault': fault[0], 'frame': fault[1], 'role': d['role'], 'pos': d.get('pos'),
                             'segmented': segmented, 'retries': retries, 'outcomes': [[x[1][4], x[1][7]] for x in o],
                             'garbage': bool(garbage), 'spec': spec})
    return failures


def single_fault_eval(spec):
    """one scenario with exactly one fault: does the transaction still succeed as its fault-free run does?"""
    base_spec = dict(spec)
    base_spec.pop('faults', None)
    base = S.run_scenario(base_spec)
    r = dict(spec['requests'][0], no=0)
    exp = S.expected_response(base, r)

    def ok(tr):
        res, un, sub = S.request_outcomes(tr)
        o = res.get(0, [])
        return len(o) == 1 and exp is not None and o[0][1][4] == exp[0] and (exp[0] not in (3, 5) or o[0][1][6] == exp[1])
    if not ok(base):
        return []
    tr = S.run_scenario(spec)
    if ok(tr):
        return []
    (idx, fate), = list(spec['faults'].items())
    d = S.describe_frame(base, int(idx))
    res, un, sub = S.request_outcomes(tr)
    o = res.get(0, [])
    garbage = [x for x in S.check_c05(tr) if x['kind'] in ('request-payload-differs', 'response-payload-differs')]
    kind = [k for k, v in S.FAULT_KINDS.items() if v == list(fate)]
    return [{'kind': 'single-fault-not-repaired', 'fault': kind[0] if kind else str(fate), 'frame': int(idx), 'role': d['role'], 'pos': d.get('pos'),
             'segmented': any(f['hdr']['seg'] == 1 for f in base.frames), 'retries': min(n['retries'] for n in spec['nodes']),
             'outcomes': [[x[1][4], x[1][7]] for x in o], 'garbage': bool(garbage), 'spec': spec}]


def fault_free_both_ways(rng, n, stats):
    """no fault on the wire, two stations that are client and server towards each other at the same moment (both count their
    invoke ids from 1, so equal ids are live in both directions), at least one segmented transfer: every request must end exactly
    as it ends when it is the only traffic (oracle: the same request run alone), with the payload untouched"""
    failures = []
    for _ in range(n):
        cmax = rng.choice([50, 128])
        mk = lambda a: S.node_cfg(a, maxApdu=cmax, window=rng.randrange(1, 4), retries=rng.choice([1, 2]), apduTimeout=3000,
                                  segTimeout=rng.choice([500, 1500]), appTimeout=6000)
        nodes = [mk(1), mk(2)]
        reqs = []
        for src, dst in ((1, 2), (2, 1)):
            big = rng.random() < 0.7
            kind = rng.choice(['complex', 'complex', 'complex', 'simple'])
            resp = ['complex', rng.choice([cmax + 7, 2 * cmax + 3, 3 * cmax + 1]) if big else rng.choice([3, cmax - 5])] if kind == 'complex' else ['simple']
            reqs.append({'t': 0, 'src': src, 'dst': dst, 'len': rng.choice([2, 5, cmax + 5, 2 * cmax + 1]), 'service': 12,
                         'resp': resp, 'resp_delay': rng.choice([0, 0, 125])})
        spec = {'nodes': nodes, 'requests': reqs}
        tr = S.run_scenario(spec)
        stats['evaluations'] += 1
        res, un, sub = S.request_outcomes(tr)
        for no, r in enumerate(reqs):
            solo = S.run_scenario({'nodes': nodes, 'requests': [r]})
            sres, _, _ = S.request_outcomes(solo)
            want = [(x[1][4], bytes(x[1][6]) if x[1][6] is not None else None, x[1][7]) for x in sres.get(0, [])]
            got = [(x[1][4], bytes(x[1][6]) if x[1][6] is not None else None, x[1][7]) for x in res.get(no, [])]
            # the payload generator numbers requests: compare type / reason and, for the solo run's number 0, lengths only
            wl = [(a, None if b is None else len(b), c) for a, b, c in want]
            gl = [(a, None if b is None else len(b), c) for a, b, c in got]
            if wl != gl:
                failures.append({'kind': 'fault-free-transfer-differs-from-solo-run', 'req': no, 'alone': [list(x) for x in wl],
                                 'both_ways': [list(x) for x in gl], 'spec': spec})
        failures.extend(x for x in S.check_c05(tr) if x['kind'] in ('request-payload-differs', 'response-payload-differs'))
    return failures


def direct(rng, tier, focus=()):
    big = tier == 'thorough'
    fams = [('transaction', lambda r: S.gen_transaction(r, big=r.random() < 0.15, maxfaults=4), 80000 if big else 2500),
            ('concurrent', lambda r: S.gen_concurrent(r), 1500 if big else 100),
            ('scripted-windows', lambda r: S.gen_scripted_windows(r), 1500 if big else 150),
            ('stale-segment-of-earlier-transfer', lambda r: S.gen_stale_segment(r), 4000 if big else 300)]
    failures, stats = S.direct_families(rng, fams, lambda tr: S.check_c05(tr) + [x for x in S.check_c04(tr) if x['kind'] == 'timer-overdue'], focus)
    for spec in sweep_specs(rng, 'thorough') + long_specs('thorough'):
        tr, fs = S.run_checked(spec, S.check_c05, max_steps=8000)
        stats['evaluations'] += 1
        for f in fs:
            f['family'] = 'sweep'
            f['max_nsegs'] = S.max_transfer_segments(tr)
        failures.extend(fs)
    failures.extend(single_fault_failures(rng, 600 if big else 25, stats))
    failures.extend(fault_free_both_ways(rng, 2000 if big else 150, stats))
    # the whole request is transferred, the one-frame reply is lost: the retry of a segmented request
    for _ in range(1500 if big else 150):
        spec = S.gen_request_tail(rng, 'A')
        stats['evaluations'] += 1
        if min(n['retries'] for n in spec['nodes']) >= 1:
            failures.extend(single_fault_eval(spec))
    # the canonical single-fault witness of C05-K1
    import core, json
    for e in core.load_findings('C05'):
        if e['id'] == 'C05-K1':
            spec = S.fix_spec(json.loads(json.dumps(e['replay']['failure']['spec'])))
            failures.extend(single_fault_eval(spec))
    # a single-fault failure is a *known* one only if the model fails on that very scenario in the same way
    sf = [f for f in failures if f.get('kind') == 'single-fault-not-repaired']
    for f, ok in zip(sf, S.model_agrees([f['spec'] for f in sf])):
        f['model_agrees'] = ok
    stats['single_fault_failures_checked_against_model'] = len(sf)
    failures.extend(S.known_replays('C05', S.check_c05))
    return failures, stats


def classify(f):
    k = f.get('kind')
    if k == 'single-fault-not-repaired':
        # known: a single fault inside a *segmented* transaction ends in exactly one abort (no response / invalid APDU in this
        # state / segmentation), never in a wrong payload
        if f.get('segmented') and not f.get('garbage') and len(f.get('outcomes', [])) == 1 and f['outcomes'][0][0] == 7 \
                and f['outcomes'][0][1] in (65, 2) and f.get('model_agrees'):
            return 'C05-K1'
        return None
    if k in ('request-payload-differs', 'response-payload-differs', 'segment-not-a-slice', 'window-exceeded', 'indication-without-request') \
            and f.get('max_nsegs', 0) > 256:
        return 'C05-K2'
    return None


def replay(payload):
    S.replay_generic(payload, S.check_c05, 'C05')
    spec = (payload.get('failure') or {}).get('spec')
    if spec and len(spec.get('faults') or {}) == 1 and len(spec.get('requests') or []) == 1:
        print('single-fault recovery (compared with the fault-free run of the same scenario):')
        for f in single_fault_eval(S.fix_spec(spec)):
            print('  FAIL', {k: v for k, v in f.items() if k != 'spec'}, '->', classify(f))
