"""C09 — BACnet/IP frames carry a correct length and round-trip all twelve functions.

Correspondence: model coq/theories/Bvll.v vs bvll.py / bvllservice.AnnexJCodec / pdu.Address, with
the octets taken *below* AnnexJCodec (a recording Server bound under the codec) and the decoded
message objects taken above it (a recording Client).  Direct: an implementation-only predicate
against an independent transcription of Annex J.2 (layout, length field, round trip, refusals)."""
import itertools, random
from core import Case, nlist
from pyerr import canon_call, exc_code

PROP = 'C09'
COQ_TARGETS = ['theories/BvllStable.vo', 'theories/BvllGenFacts.vo']
COQ_IMPORTS = 'From Bac Require Import Base Bvll.'
TABLE_OBLIGATIONS = ['registry_table_exact', 'ctor_function_table', 'ctor_type_table', 'message_type_table',
                     'ctor_length_table',
                     # re-proved by make against the regenerated gen/BvllFns.v (BvllGenFacts.v): translated text = hand model
                     'message_type_is_model', 'BVLCI_update_is_model', 'BVLPDU_encode_is_model', 'BVLPDU_decode_is_model',
                     'class_encode_is_model', 'class_decode_spec', 'gen_enc_frame_with_is_model', 'gen_dec_frame_from_is_model']
RULE = ('cases: each of the 12 functions encoded through AnnexJCodec.indication (tables of every size 0..40, NPDU payloads '
        '{0,1,2,1496,1497}+random, IPv4 octets/ports/masks/TTLs over boundary grids incl. out-of-range and negative values, '
        'None/absent fields, addresses of the wrong length, tables changed after construction); every produced frame decoded '
        'through AnnexJCodec.confirmation, plus mutations of it (type octet, function octet, length field, truncation, extension, '
        'random octet); every function code 0..255 x several bodies with a consistent header; all 1-octet strings, grids of '
        '2..4-octet strings; random strings; wrong length fields related to the datagram length (L-4, L+4, L-10k, byte swap, '
        'hi << (8+lo) = L) on representative frames of every function; valid short frames of every function padded with zeros / 0xFF / random fill; '
        'one message object (built or decoded) encoded 2..3 times with its fields inspected in between, and the same object sent, changed by attribute assignment, and sent again (also changed back / changed before the first send); tables naming one station several times under different masks / TTLs; histories of 2..6 '
        'decodes/encodes on one codec (stations recurring with other masks, one NPDU forwarded for several originators, repeated '
        'tables, messages constructed without arguments) whose decoded messages are inspected after the whole history.  non-trivial = an encode of a message with >= 1 parameter octet or a refusal '
        'with a reason, a decode that delivers a message or refuses after reading >= 1 octet; distinct by (operation, input).')
TRUSTED = ['model coq/theories/Bvll.v written by hand after bvll.py:58-123,168-700, bvllservice.py:286-317 (with the fix: commit), '
           'pdu.py Address tuple form / unpack_ip_addr; tie = in-kernel correspondence AND, for the encode/decode/update method bodies of '
           'bvll.py (BVLCI, BVLPDU, the twelve message classes, messageType constants), translation: gen/BvllFns.v is regenerated from the '
           'source on every run and proved equal to the model for all inputs (BvllGenFacts.v)',
           'translator/gen_bvllfns.py: ast-level, statement-by-statement translation of those method bodies into the vocabulary of '
           'coq/theories/BvllRt.v (hand-written meaning of PDUData put/get, attribute reads, Address(unpack_ip_addr(..)), FDTEntry(), '
           'append, for, while-with-fuel); skipped: docstrings, `if _debug:` lines, PCI.update(..) (addressing / user data); everything '
           'else it does not recognise aborts the translation.  Still hand-modelled (correspondence + table obligations only): the '
           'constructors, AnnexJCodec.indication/confirmation (glue BvllGen.v), comm.PDUData, pdu.Address; Python object identity / '
           'aliasing (shared default lists, cached objects) is outside the translated semantics and is covered by the history / objseq generators',
           'translator/gen_bvll.py: imports bacpypes.bvll in a subprocess and prints bvl_pdu_types and the constructors\' header '
           'fields as Gallina lists (gen/BvllTable.v)',
           'socket.inet_aton/inet_ntoa are inverse on dotted quads (pinned by the addrTuple observable of every decoded address)']
ASSUMPTIONS = ['message parameters are Python ints, None, bytes or pdu.Address objects (floats / strings in integer fields are not generated)',
               'bytes/bytearray hold octets < 256 (CPython)',
               'frames of 65536 octets or more are outside the property\'s domain (payload <= 1497, tables <= 40); the length field wraps '
               'there (theorem C09_length_field_bound_tight)']

# Annex J.2 function codes (independent of bvll.py)
CODES = {'result': 0, 'wbdt': 1, 'rbdt': 2, 'rbdtack': 3, 'fwd': 4, 'regfd': 5, 'rfdt': 6, 'rfdtack': 7,
         'delfdt': 8, 'dist': 9, 'ouni': 10, 'obcast': 11}
CLASS_OF = {'result': 'Result', 'wbdt': 'WriteBroadcastDistributionTable', 'rbdt': 'ReadBroadcastDistributionTable',
            'rbdtack': 'ReadBroadcastDistributionTableAck', 'fwd': 'ForwardedNPDU', 'regfd': 'RegisterForeignDevice',
            'rfdt': 'ReadForeignDeviceTable', 'rfdtack': 'ReadForeignDeviceTableAck',
            'delfdt': 'DeleteForeignDeviceTableEntry', 'dist': 'DistributeBroadcastToNetwork',
            'ouni': 'OriginalUnicastNPDU', 'obcast': 'OriginalBroadcastNPDU'}
KIND_OF_CLASS = {v: k for k, v in CLASS_OF.items()}
EMPTY_BODY_OK = {1, 2, 3, 6, 7, 9, 10, 11}     # functions whose body may be empty (Annex J.2)


# ------------------------------------------------------------------ implementation drivers
_STACK = []


def stack():
    """client (records what the codec delivers upward) / AnnexJCodec / server (records octets sent downward)"""
    if _STACK:
        u, c, d = _STACK[0]
        del u.got[:], d.got[:]
        return u, c, d
    from bacpypes.comm import bind, Client, Server
    from bacpypes.bvllservice import AnnexJCodec

    class Up(Client):
        def __init__(self):
            Client.__init__(self)
            self.got = []

        def confirmation(self, pdu):
            self.got.append(pdu)

    class Dn(Server):
        def __init__(self):
            Server.__init__(self)
            self.got = []

        def indication(self, pdu):
            self.got.append(pdu)

    u, c, d = Up(), AnnexJCodec(), Dn()
    bind(u, c, d)
    _STACK.append((u, c, d))
    return u, c, d


def build_addr(a):
    from bacpypes.pdu import Address
    if a[0] == 'ip':
        return Address(('%d.%d.%d.%d' % tuple(a[1]), a[2]))
    if a[0] == 'ipmask':          # string form with prefix length: sets addrMask itself
        return Address('%d.%d.%d.%d/%d:%d' % (tuple(a[1]) + (a[2], a[3])))
    if a[0] == 'raw':
        return Address(bytes(a[1]))
    if a[0] == 'none':
        return None
    if a[0] == 'nobytes':
        return Address('*')
    raise ValueError(a)


def build_bdte(e):
    a = build_addr(e[0])
    if e[0][0] == 'ipmask' or a is None:
        return a
    if e[1] is None:
        if hasattr(a, 'addrMask'):
            del a.addrMask
    else:
        a.addrMask = e[1]
    return a


def build_fdte(e):
    from bacpypes.bvll import FDTEntry
    f = FDTEntry()
    f.fdAddress = build_addr(e[0])
    f.fdTTL, f.fdRemain = e[1], e[2]
    return f


def build_msg(m):
    from bacpypes import bvll
    k = m[0]
    if k == 'result': return bvll.Result(m[1])
    if k == 'wbdt': return bvll.WriteBroadcastDistributionTable([build_bdte(e) for e in m[1]])
    if k == 'rbdt': return bvll.ReadBroadcastDistributionTable()
    if k == 'rbdtack': return bvll.ReadBroadcastDistributionTableAck([build_bdte(e) for e in m[1]])
    if k == 'fwd': return bvll.ForwardedNPDU(build_addr(m[1]), bytes(m[2]))
    if k == 'regfd': return bvll.RegisterForeignDevice(m[1])
    if k == 'rfdt': return bvll.ReadForeignDeviceTable()
    if k == 'rfdtack': return bvll.ReadForeignDeviceTableAck([build_fdte(e) for e in m[1]])
    if k == 'delfdt': return bvll.DeleteForeignDeviceTableEntry(build_addr(m[1]))
    if k == 'dist': return bvll.DistributeBroadcastToNetwork(bytes(m[1]))
    if k == 'ouni': return bvll.OriginalUnicastNPDU(bytes(m[1]))
    if k == 'obcast': return bvll.OriginalBroadcastNPDU(bytes(m[1]))
    raise ValueError(m)


def build_stale(ctor, final):
    """construct from `ctor`, then change the parameters to those of `final` (same class) the way
    application code does: by assigning the attribute"""
    obj = build_msg(ctor)
    fin = build_msg(final)
    for attr in ('bvlciBDT', 'bvlciFDT', 'bvlciResultCode', 'bvlciTimeToLive', 'bvlciAddress'):
        if hasattr(fin, attr):
            setattr(obj, attr, getattr(fin, attr))
    obj.pduData = fin.pduData
    return obj


def impl_encode(m, ctor=None):
    def f():
        u, c, d = stack()
        obj = build_msg(m) if ctor is None else build_stale(ctor, m)
        u.request(obj)
        assert len(d.got) == 1
        return d.got[0].pduData
    return canon_call(f, list)


def impl_ctor_len(m):
    return canon_call(lambda: build_msg(m).bvlciLength, lambda v: [v])


def canon_addr_obj(a):
    if a is None:
        return [-1]
    if a.addrAddr is None:
        return [-2]
    ip, port = a.addrTuple
    return [len(a.addrAddr)] + list(a.addrAddr) + [int(x) for x in ip.split('.')] + [port]


def canon_o(v):
    return [0] if v is None else [1, v]


def canon_obj(r):
    """class (by name, through the independent CODES table) and parameters of a delivered message"""
    k = KIND_OF_CLASS[type(r).__name__]
    out = [CODES[k]]
    if k == 'result': out += canon_o(r.bvlciResultCode)
    elif k in ('wbdt', 'rbdtack'):
        out.append(len(r.bvlciBDT))
        for e in r.bvlciBDT:
            out += canon_addr_obj(e) + canon_o(getattr(e, 'addrMask', None))
    elif k == 'fwd': out += canon_addr_obj(r.bvlciAddress) + [len(r.pduData)] + list(r.pduData)
    elif k == 'regfd': out += canon_o(r.bvlciTimeToLive)
    elif k == 'rfdtack':
        out.append(len(r.bvlciFDT))
        for e in r.bvlciFDT:
            out += canon_addr_obj(e.fdAddress) + canon_o(e.fdTTL) + canon_o(e.fdRemain)
    elif k == 'delfdt': out += canon_addr_obj(r.bvlciAddress)
    elif k in ('dist', 'ouni', 'obcast'): out += [len(r.pduData)] + list(r.pduData)
    return out


def decode_obj(octets):
    """AnnexJCodec.confirmation on one datagram; returns the delivered message object"""
    from bacpypes.pdu import PDU
    u, c, d = stack()
    d.response(PDU(bytes(octets)))
    assert len(u.got) == 1
    return u.got[0]


def impl_decode(octets):
    return canon_call(lambda: decode_obj(octets), lambda r: [r.bvlciFunction, r.bvlciLength] + canon_obj(r))


def op_msg(op):
    return DEFAULT_MSG[op[1]] if op[0] == 'encdef' else op[1]


def run_history(ops):
    """run the ops one after the other on the one codec of this process; returns per op
    ('dec', object or None, error code or None, snapshot taken right after the decode) / ('enc', canonical result)"""
    from bacpypes import bvll
    res = []
    for op in ops:
        if op[0] == 'dec':
            octets = spec_frame(op[1])
            try:
                obj = decode_obj(octets)
                res.append(('dec', obj, None, [obj.bvlciFunction, obj.bvlciLength] + canon_obj(obj)))
            except Exception as e:
                res.append(('dec', None, exc_code(e), None))
        elif op[0] == 'enc':
            res.append(('enc', impl_encode(op[1])))
        else:
            def f(kind=op[1]):
                u, c, d = stack()
                u.request(getattr(bvll, CLASS_OF[kind])())
                assert len(d.got) == 1
                return d.got[0].pduData
            res.append(('enc', canon_call(f, list)))
    return res


def impl_history(ops):
    return flatten_results(run_history(ops))


def objseqs(rng, tier):
    """(source, message, actions): one message OBJECT — built from its parameters or delivered by the decoder — is
    encoded two or three times, its fields inspected in between ('enc' / 'insp').  Every class, in-domain parameters."""
    big = tier == 'thorough'
    msgs = []
    pool = g_pool(rng, 2)
    for k in KINDS:
        msgs.append(g_msg(rng, k, True, rng.choice([1, 2, 3])))
        if k in TABLE_KINDS:
            msgs += [[k, []], g_rep_table(rng, k, pool, rng.choice([2, 3, 5]))]
        elif k in NPDU_KINDS:
            msgs += [g_msg(rng, k, True, 0), g_msg(rng, k, True, rng.choice([8, 50, 300])), g_msg(rng, k, True, 1497)]
        if big:
            msgs += [g_msg(rng, k, True) for _ in range(6)]
    patterns = [['enc', 'enc'], ['enc', 'enc', 'enc'], ['enc', 'insp', 'enc'], ['insp', 'enc', 'insp', 'enc', 'insp']]
    out = []
    for i, m in enumerate(msgs):
        for j, src in enumerate(('build', 'decode')):
            pats = patterns if (big or len(repr(m)) < 400) else [patterns[(i + j) % 4]]
            for pat in (pats if big else [pats[(i + j) % len(pats)], pats[(i + j + 2) % len(pats)]]):
                out.append((src, m, pat))
    # the same object sent, CHANGED by the application (attributes assigned: new TTL / result code / address / NPDU,
    # a table whose masks or remaining times changed; sizes change only where the class recomputes its length), and
    # sent again with nothing else in between — also changed back, and changed before the first send
    for i, m in enumerate(msgs):
        m2, m3 = g_changed(rng, m), g_changed(rng, m)
        if m2 is None or m3 is None or len(repr(m)) > 4000:
            continue
        mods = [['enc', ('set', m2), 'enc'],
                ['enc', 'enc', ('set', m2), 'enc', 'insp'],
                [('set', m2), 'enc', ('set', m), 'enc'],
                ['enc', ('set', m2), 'enc', ('set', m3), 'enc', ('set', m), 'enc']]
        for j, src in enumerate(('build', 'decode')):
            for pat in (mods if big else [mods[(i + j) % 4], mods[(i + j + 1) % 4]]):
                out.append((src, m, pat))
    return out


def g_changed(rng, m):
    """another in-domain message of the same class whose frame differs from m's (None if the class has no parameter).
    Write-BDT and Read-FDT-Ack keep the bvlciLength of their constructor, so the table size stays; the classes that
    recompute the length in encode() also change size."""
    k = m[0]
    if k in ('rbdt', 'rfdt'):
        return None
    if k in ('wbdt', 'rfdtack'):
        size = len(m[1])
    elif k == 'rbdtack':
        size = rng.choice([len(m[1]), rng.randrange(4)])
    elif k in NPDU_KINDS:
        size = rng.choice([len(m[-1]), rng.randrange(1, 60), 0])
    else:
        size = None
    for _ in range(8):
        m2 = g_msg(rng, k, True, size)
        if spec_frame(m2) != spec_frame(m):
            return m2
    return None


def assign_params(obj, m2):
    """change the parameters of a message object to those of m2 (same class) by assigning its attributes"""
    fin = build_msg(m2)
    for attr in ('bvlciBDT', 'bvlciFDT', 'bvlciResultCode', 'bvlciTimeToLive', 'bvlciAddress'):
        if hasattr(fin, attr):
            setattr(obj, attr, getattr(fin, attr))
    obj.pduData = fin.pduData


def jactions(actions):
    return [a if isinstance(a, str) else ['set', jdesc(a[1])] for a in actions]


def run_objseq(src, m, actions):
    """returns [('dec', obj|None, err, snapshot)]? + one ('enc', canonical octets) / ('insp', canonical fields) per action"""
    res = []
    if src == 'decode':
        try:
            obj = decode_obj(spec_frame(m))
            res.append(('dec', obj, None, [obj.bvlciFunction, obj.bvlciLength] + canon_obj(obj)))
        except Exception as e:
            return [('dec', None, exc_code(e), None)]
    else:
        obj = build_msg(m)
    for a in actions:
        if a == 'enc':
            def f():
                u, c, d = stack()
                u.request(obj)
                assert len(d.got) == 1
                return d.got[0].pduData
            res.append(('enc', canon_call(f, list)))
        elif isinstance(a, tuple):      # ('set', m2): parameters changed by assignment, then read back
            def g(m2=a[1]):
                assign_params(obj, m2)
                return canon_obj(obj)
            res.append(('insp', canon_call(g, list)[1:]))
        else:
            res.append(('insp', canon_call(lambda: canon_obj(obj), list)[1:]))
    return res


def flatten_results(rs):
    out = []
    for r in rs:          # decoded objects are canonicalised only now, after everything ran
        if r[0] in ('enc', 'insp'):
            c = r[1]
        elif r[1] is None:
            c = [1, r[2]]
        else:
            c = [0, r[1].bvlciFunction, r[1].bvlciLength] + canon_obj(r[1])
        out += [len(c)] + c
    return out


def case_objseq(src, m, actions):
    rs = run_objseq(src, m, actions)
    if rs and rs[0][0] == 'dec' and rs[0][1] is not None and any(isinstance(a, tuple) for a in actions):
        # the application changes the decoded object afterwards: what the decoder delivered is the snapshot taken
        # right after the decode (sequences without changes keep comparing the object as it is after all encodes)
        rs[0] = ('insp', [0] + rs[0][3])
    exp = flatten_results(rs)
    hops = ['(HDec %s)' % nlist(spec_frame(m))] if src == 'decode' else []
    first = src == 'build'
    cur = m
    for a in actions:
        if a == 'enc':
            hops.append('(HEnc %s %s)' % (coq_constructions(cur) if first else '[]', coq_msg(cur)))
            first = False
        elif isinstance(a, tuple):      # the model is pure: after the change the object IS the new message
            cur = a[1]
            hops.append('(HInspect %s)' % coq_msg(cur))
        else:
            hops.append('(HInspect %s)' % coq_msg(cur))
    return Case('objseq', 'canon_history [%s]' % ';'.join(hops), exp, key=('objseq', src, repr(m), repr(actions)),
                desc={'op': 'objseq', 'source': src, 'msg': jdesc(m), 'actions': jactions(actions), 'seq_repr': repr((src, m, actions))})


def coq_hop(op):
    if op[0] == 'dec':
        return '(HDec %s)' % nlist(spec_frame(op[1]))
    m = op_msg(op)
    return '(HEnc %s %s)' % (coq_constructions(m), coq_msg(m))


def case_history(ops):
    exp = impl_history(ops)
    return Case('history', 'canon_history [%s]' % ';'.join(coq_hop(op) for op in ops), exp, key=('hist', repr(ops)),
                nontrivial=len(ops) >= 2, desc={'op': 'history', 'ops': [[op[0], jdesc(op[1])] for op in ops],
                                                 'ops_repr': repr(ops)})


# ------------------------------------------------------------------ Coq terms
def zlit(v):
    return '(%d)%%Z' % v


def coq_o(v):
    return 'None' if v is None else '(Some %s)' % zlit(v)


def coq_mk_ip(a):
    """the Address construction (res addr): refuses ports outside 0..65535"""
    return '(mk_ip %d %d %d %d %s)' % (tuple(a[1]) + (zlit(a[2] if a[0] == 'ip' else a[3]),))


def coq_addr(a):
    if a[0] in ('ip', 'ipmask'): return '(addr_val %s)' % coq_mk_ip(a)
    if a[0] == 'raw': return '(ABytes %s)' % nlist(a[1])
    if a[0] == 'none': return 'ANone'
    return 'ANoBytes'


def coq_bdte(e):
    if e[0][0] == 'ipmask':
        return '(mkBdte %s (Some (prefix_mask %d)))' % (coq_addr(e[0]), e[0][2])
    return '(mkBdte %s %s)' % (coq_addr(e[0]), coq_o(e[1]))


def coq_fdte(e):
    return '(mkFdte %s %s %s)' % (coq_addr(e[0]), coq_o(e[1]), coq_o(e[2]))


def coq_msg(m):
    k = m[0]
    if k == 'result': return '(Result %s)' % coq_o(m[1])
    if k == 'wbdt': return '(WriteBDT [%s])' % ';'.join(coq_bdte(e) for e in m[1])
    if k == 'rbdt': return 'ReadBDT'
    if k == 'rbdtack': return '(ReadBDTAck [%s])' % ';'.join(coq_bdte(e) for e in m[1])
    if k == 'fwd': return '(Forwarded %s %s)' % (coq_addr(m[1]), nlist(m[2]))
    if k == 'regfd': return '(RegisterFD %s)' % coq_o(m[1])
    if k == 'rfdt': return 'ReadFDT'
    if k == 'rfdtack': return '(ReadFDTAck [%s])' % ';'.join(coq_fdte(e) for e in m[1])
    if k == 'delfdt': return '(DeleteFDT %s)' % coq_addr(m[1])
    if k == 'dist': return '(Distribute %s)' % nlist(m[1])
    if k == 'ouni': return '(OrigUnicast %s)' % nlist(m[1])
    if k == 'obcast': return '(OrigBroadcast %s)' % nlist(m[1])
    raise ValueError(m)


def spec_addrs(m):
    """address specs of a message in the order build_msg constructs them"""
    k = m[0]
    if k in ('wbdt', 'rbdtack', 'rfdtack'): return [e[0] for e in m[1]]
    if k in ('fwd', 'delfdt'): return [m[1]]
    return []


def coq_constructions(*msgs):
    return '[' + ';'.join(coq_mk_ip(a) for m in msgs if m for a in spec_addrs(m) if a[0] in ('ip', 'ipmask')) + ']'


def jdesc(m):
    """JSON-able, short description of a message spec"""
    def j(x):
        if isinstance(x, (bytes, bytearray)):
            return x.hex() if len(x) <= 48 else '%s...(%d octets)' % (bytes(x[:16]).hex(), len(x))
        if isinstance(x, (list, tuple)):
            return [j(y) for y in x]
        return x
    return j(m)


def param_octets(m):
    k = m[0]
    if k in ('wbdt', 'rbdtack', 'rfdtack'): return len(m[1])
    if k == 'fwd': return 6 + len(m[2])
    if k in ('dist', 'ouni', 'obcast'): return len(m[1])
    if k in ('rbdt', 'rfdt'): return 0
    return 1


def case_enc(m, kind='enc', ctor=None):
    exp = impl_encode(m, ctor)
    if ctor is None:
        coq = 'canon_build_encode %s %s' % (coq_constructions(m), coq_msg(m))
    else:
        coq = 'canon_build_encode_with %s (ctor_len %s) %s' % (coq_constructions(ctor, m), coq_msg(ctor), coq_msg(m))
    return Case(kind, coq, exp, key=('enc', repr(m), repr(ctor)), nontrivial=param_octets(m) >= 1 or exp[0] == 1,
                desc={'op': 'encode', 'msg': jdesc(m), 'ctor': jdesc(ctor) if ctor else None})


def case_ctor(m):
    exp = impl_ctor_len(m)
    return Case('ctor-len', 'canon_build_ctor_len %s %s' % (coq_constructions(m), coq_msg(m)), exp, key=('ctor', repr(m)),
                nontrivial=param_octets(m) >= 1, desc={'op': 'ctor-len', 'msg': jdesc(m)})


def case_dec(octets, kind='dec'):
    octets = bytes(octets)
    exp = impl_decode(octets)
    return Case(kind, 'canon_decode %s' % nlist(octets), exp, key=('dec', octets),
                nontrivial=len(octets) >= 1, desc={'op': 'decode', 'octets': octets.hex() if len(octets) <= 64 else
                                                   octets[:64].hex() + '...(%d)' % len(octets)})


# ------------------------------------------------------------------ generators
IPO = [0, 1, 10, 127, 128, 192, 254, 255]
PORTS_OK = [0, 1, 255, 256, 47808, 47809, 47823, 65534, 65535]
PORTS_BAD = [65536, 65537, 70000, 112345, -1, -47808]
MASKS_OK = [0, 1, 0xFF, 0xFF000000, 0xFFFF0000, 0xFFFFFF00, 0xFFFFFFFE, 0xFFFFFFFF, 0x80000000, 0x7FFFFFFF]
MASKS_BAD = [1 << 32, (1 << 32) + 5, -1, -256, 1 << 40]
SHORTS_OK = [0, 1, 255, 256, 30, 900, 32767, 32768, 65534, 65535]
SHORTS_BAD = [65536, 65537, 70000, -1, -30, 1 << 20]
PAYLOADS = [0, 1, 2, 1496, 1497]


def g_ip(rng):
    return [rng.choice(IPO) if rng.random() < 0.6 else rng.randrange(256) for _ in range(4)]


def g_addr(rng, ok=True):
    port = rng.choice(PORTS_OK) if rng.random() < 0.7 else rng.randrange(65536)
    if not ok and rng.random() < 0.5:
        port = rng.choice(PORTS_BAD)
    if rng.random() < 0.8:
        return ['ip', g_ip(rng), port]
    return ['raw', [rng.randrange(256) for _ in range(6)]]


def g_mask(rng, ok=True):
    if not ok and rng.random() < 0.5:
        return rng.choice(MASKS_BAD)
    return rng.choice(MASKS_OK) if rng.random() < 0.7 else rng.randrange(1 << 32)


def g_short(rng, ok=True):
    if not ok and rng.random() < 0.5:
        return rng.choice(SHORTS_BAD)
    return rng.choice(SHORTS_OK) if rng.random() < 0.7 else rng.randrange(65536)


def g_bdte(rng, ok=True):
    if rng.random() < 0.25:
        return [['ipmask', g_ip(rng), rng.choice([0, 1, 8, 16, 24, 31, 32, rng.randrange(33)]),
                 rng.choice(PORTS_OK) if ok else rng.choice(PORTS_OK + PORTS_BAD[:4])], None]
    return [g_addr(rng, ok), g_mask(rng, ok)]


def g_fdte(rng, ok=True):
    return [g_addr(rng, ok), g_short(rng, ok), g_short(rng, ok)]


def g_payload(rng, n=None):
    if n is None:
        n = rng.choice(PAYLOADS[:3]) if rng.random() < 0.3 else rng.randrange(0, 1498 if rng.random() < 0.06 else 64)
    return bytes(rng.randrange(256) for _ in range(n))


def g_msg(rng, kind, ok=True, size=None):
    if kind == 'result': return ['result', g_short(rng, ok)]
    if kind in ('wbdt', 'rbdtack'):
        n = rng.choice([rng.randrange(6), rng.randrange(41)]) if size is None else size
        return [kind, [g_bdte(rng, ok) for _ in range(n)]]
    if kind in ('rbdt', 'rfdt'): return [kind]
    if kind == 'fwd': return ['fwd', g_addr(rng, ok), g_payload(rng, size)]
    if kind == 'regfd': return ['regfd', g_short(rng, ok)]
    if kind == 'rfdtack':
        n = rng.choice([rng.randrange(6), rng.randrange(41)]) if size is None else size
        return [kind, [g_fdte(rng, ok) for _ in range(n)]]
    if kind == 'delfdt': return ['delfdt', g_addr(rng, ok)]
    return [kind, g_payload(rng, size)]


def mutations(rng, bs, n):
    """mutated copies of a valid frame: header fields, datagram length, random octets"""
    out = []
    L = len(bs)
    for _ in range(n):
        m = bytearray(bs)
        how = rng.randrange(8)
        if how == 0:
            m[0] = rng.choice([0x80, 0x82, 0x01, 0x00, 0xFF, rng.randrange(256)])
        elif how == 1:
            m[1] = rng.randrange(256) if rng.random() < 0.5 else rng.randrange(16)
        elif how == 2:
            v = rng.choice([L - 1, L + 1, 0, 4, 0xFFFF, L ^ 0x100, rng.randrange(65536)]) & 0xFFFF
            m[2], m[3] = v >> 8, v & 255
        elif how == 3:
            del m[rng.randrange(L):]
        elif how == 4:
            m += bytes(rng.randrange(256) for _ in range(rng.choice([1, 1, 2, 6, 10])))
        elif how == 5:       # extension with the length field adjusted: a consistent frame with a longer body
            ext = bytes(rng.randrange(256) for _ in range(rng.choice([1, 2, 5, 6, 9, 10])))
            m += ext
            m[2], m[3] = (len(m) >> 8) & 255, len(m) & 255
        elif how == 6:       # truncation with the length field adjusted
            cut = rng.randrange(4, L + 1)
            del m[cut:]
            m[2], m[3] = (len(m) >> 8) & 255, len(m) & 255
        else:
            m[rng.randrange(L)] = rng.randrange(256)
        out.append(bytes(m))
    return out


KINDS = list(CODES)


def g_pool(rng, n=3):
    """a few stations that recur (same six octets) across the entries / frames of one scenario"""
    return [['ip', g_ip(rng), rng.choice([47808, 47808, 47809, rng.choice(PORTS_OK)])] for _ in range(n)]


def distinct_masks(rng, n):
    ms = []
    while len(ms) < n:
        m = rng.choice(MASKS_OK + [(0xFFFFFFFF << k) & 0xFFFFFFFF for k in (8, 16, 24)])
        if m not in ms or len(ms) >= 10:
            ms.append(m)
    return ms


def g_rep_table(rng, kind, pool, n):
    """a table whose entries draw their address from `pool` (repeats as soon as n > len(pool)), every entry of
    one address with a different mask (BDT) or a different TTL / remaining time (FDT)"""
    entries = []
    used = {}
    for i in range(n):
        a = rng.choice(pool) if i >= 2 else pool[0]        # the first two entries always share an address
        j = used.setdefault(repr(a), 0)
        used[repr(a)] += 1
        if kind == 'rfdtack':
            entries.append([a, (30 + 7 * j + rng.randrange(5) * 100) & 0xFFFF, (35 + 11 * j + rng.randrange(5) * 50) & 0xFFFF])
        elif rng.random() < 0.3:
            entries.append([['ipmask', a[1], (32 - 8 * j) % 33, a[2]], None])
        else:
            entries.append([a, distinct_masks(rng, j + 1)[j]])
    rng.shuffle(entries) if rng.random() < 0.5 else None
    return [kind, entries]


DEFAULT_MSG = {'result': ['result', None], 'wbdt': ['wbdt', []], 'rbdt': ['rbdt'], 'rbdtack': ['rbdtack', []],
               'fwd': ['fwd', ['none'], b''], 'regfd': ['regfd', None], 'rfdt': ['rfdt'], 'rfdtack': ['rfdtack', []],
               'delfdt': ['delfdt', ['none']], 'dist': ['dist', b''], 'ouni': ['ouni', b''], 'obcast': ['obcast', b'']}


def g_history(rng):
    """ops of one history: ['dec', msg] (the Annex J frame of msg is received), ['enc', msg], ['encdef', kind]
    (a message constructed without arguments is sent).  The same stations recur with different masks / TTLs, the
    same NPDU is forwarded for different originators, tables are repeated unchanged."""
    pool = g_pool(rng, rng.choice([1, 2, 3]))
    ops = []
    payload = g_payload(rng, rng.randrange(1, 12))
    for _ in range(rng.choice([2, 3, 3, 4, 5, 6])):
        how = rng.randrange(10)
        if how < 4:
            k = rng.choice(['wbdt', 'rbdtack', 'wbdt', 'rbdtack', 'rfdtack'])
            ops.append(['dec', g_rep_table(rng, k, pool, rng.choice([1, 2, 2, 3, 4, 6]))])
        elif how == 4 and ops:
            ops.append(list(rng.choice(ops)))                                   # the same thing again, unchanged
        elif how == 5:
            ops.append([rng.choice(['dec', 'enc']), ['fwd', rng.choice(pool), payload]])   # same NPDU, varying originator
        elif how == 6:
            ops.append(['encdef', rng.choice(['wbdt', 'rbdtack', 'rfdtack', 'rfdtack', 'dist', 'rbdt'])])
        elif how == 7:
            k = rng.choice(['wbdt', 'rbdtack', 'rfdtack'])
            ops.append(['enc', g_rep_table(rng, k, pool, rng.choice([1, 2, 3]))])
        elif how == 8:
            ops.append(['dec', ['delfdt', rng.choice(pool)]])
        else:
            ops.append(['dec', g_msg(rng, rng.choice(KINDS), True, rng.randrange(4))])
    return ops


def histories(rng, tier):
    out = []
    # fixed shapes first: one station under two masks in two frames (both orders, both classes), twice in one table,
    # a table repeated unchanged, FDT polled twice, default-constructed messages after decodes
    a, b = ['ip', [192, 168, 1, 1], 47808], ['ip', [10, 0, 0, 1], 47809]
    for k1 in ('wbdt', 'rbdtack'):
        for k2 in ('wbdt', 'rbdtack'):
            out.append([['dec', [k1, [[a, 0xFFFFFFFF], [b, 0xFFFFFFFF]]]], ['dec', [k2, [[a, 0xFFFFFF00], [b, 0xFF000000]]]]])
            out.append([['dec', [k1, [[a, 0xFFFFFF00]]]], ['enc', [k2, [[a, 0xFFFF0000]]]], ['dec', [k2, [[a, 0xFFFFFFFF]]]],
                        ['encdef', k1], ['dec', [k1, [[a, 0xFFFFFF00]]]]])
        out.append([['dec', [k1, [[a, 0xFFFFFF00], [b, 0xFFFFFFFF], [a, 0xFFFFFFFF]]]]])
        out.append([['dec', [k1, [[a, 0xFFFFFF00], [b, 0]]]], ['dec', [k1, [[a, 0xFFFFFF00], [b, 0]]]]])
    out.append([['dec', ['rfdtack', [[a, 30, 35], [b, 60, 5]]]], ['dec', ['rfdtack', [[a, 30, 20], [a, 900, 900]]]],
                ['encdef', 'rfdtack'], ['dec', ['rfdtack', []]], ['encdef', 'rfdtack']])
    out.append([['enc', ['fwd', a, b'\x01\x20\xff\xff\x00\xff\x10\x08']], ['enc', ['fwd', b, b'\x01\x20\xff\xff\x00\xff\x10\x08']],
                ['dec', ['fwd', a, b'\x01\x20\xff\xff\x00\xff\x10\x08']], ['dec', ['fwd', b, b'\x01\x20\xff\xff\x00\xff\x10\x08']]])
    out.append([['encdef', k] for k in KINDS])
    for _ in range(1500 if tier == 'thorough' else 300):
        out.append(g_history(rng))
    return out
TABLE_KINDS = ['wbdt', 'rbdtack', 'rfdtack']
NPDU_KINDS = ['fwd', 'dist', 'ouni', 'obcast']


def valid_specs(rng, tier):
    """messages inside the property's domain"""
    big = tier == 'thorough'
    out = []
    for i, k in enumerate(TABLE_KINDS):           # every table size 0..40 (quick: each size for one class in turn)
        for n in range(41):
            if big or n % 3 == i or n in (0, 1, 2, 39, 40):
                out.append(g_msg(rng, k, True, n))
    for k in NPDU_KINDS:
        for n in PAYLOADS + [3, 4, 5, 6, 7] + ([1495] if big else []):
            out.append(g_msg(rng, k, True, n))
        for _ in range(40 if big else 10):
            out.append(g_msg(rng, k, True))
    for v in SHORTS_OK:
        out.append(['result', v])
        out.append(['regfd', v])
    out += [['rbdt'], ['rfdt']]
    # address / port / mask / ttl boundary cross products, one entry each
    for ip in itertools.product([0, 127, 128, 255], repeat=2):
        for port in PORTS_OK:
            a = ['ip', [ip[0], rng.choice(IPO), rng.choice(IPO), ip[1]], port]
            four = [['delfdt', a], ['fwd', a, g_payload(rng, rng.randrange(4))], ['wbdt', [[a, rng.choice(MASKS_OK)]]],
                    ['rfdtack', [[a, rng.choice(SHORTS_OK), rng.choice(SHORTS_OK)]]]]
            out += four if big else [four[len(out) % 4], four[(len(out) + 1) % 4]]
    for mask in MASKS_OK:
        out.append(['rbdtack', [[g_addr(rng), mask]]])
    for n in range(33):
        out.append(['wbdt', [[['ipmask', g_ip(rng), n, rng.choice(PORTS_OK)], None]]])
    for t in SHORTS_OK:
        for r in SHORTS_OK[::3]:
            out.append(['rfdtack', [[g_addr(rng), t, r]]])
    for _ in range(600 if big else 60):
        out.append(g_msg(rng, rng.choice(KINDS), True))
    # the same station listed more than once under different masks / TTLs / remaining times
    for k in TABLE_KINDS:
        for n in (2, 2, 3, 3, 4, 5, 8, 40) + ((6, 7, 12, 20, 33) if big else ()):
            out.append(g_rep_table(rng, k, g_pool(rng, rng.choice([1, 2, 3])), n))
    return out


def odd_specs(rng, tier):
    """messages outside the domain: the encoder wraps, refuses, or raises"""
    out = []
    for v in SHORTS_BAD + [None]:
        out += [['result', v], ['regfd', v]]
        out.append(['rfdtack', [[g_addr(rng), v, 5]]])
        out.append(['rfdtack', [[g_addr(rng), 5, v], [g_addr(rng), 1, 2]]])
    for mk in MASKS_BAD + [None]:
        out.append(['wbdt', [[g_addr(rng), mk]]])
        out.append(['rbdtack', [[g_addr(rng), 7], [g_addr(rng), mk]]])
    for port in PORTS_BAD:
        a = ['ip', g_ip(rng), port]
        out += [['delfdt', a], ['fwd', a, b'\x01\x02'], ['wbdt', [[a, 0xFFFFFF00]]], ['rfdtack', [[a, 1, 1]]]]
    for bad in (['none'], ['nobytes'], ['raw', []], ['raw', [7]], ['raw', [1, 2, 3, 4, 5]], ['raw', [1, 2, 3, 4, 5, 6, 7]],
                ['raw', list(range(10))], ['raw', list(range(16))]):
        out += [['delfdt', bad], ['fwd', bad, g_payload(rng, 3)], ['fwd', bad, b''],
                ['wbdt', [[bad, 0xFFFFFFFF if bad[0] != 'raw' or len(bad[1]) == 6 else None]]],
                ['wbdt', [[g_addr(rng), 1], [bad, 5]]], ['rbdtack', [[bad, 5]]],
                ['rfdtack', [[bad, 1, 2]]], ['rfdtack', [[g_addr(rng), 1, 2], [bad, 3, 4]]]]
    # wrong-length addresses that compensate each other inside one table (total length right, layout wrong)
    out.append(['wbdt', [[['raw', [1, 2, 3, 4, 5]], 1], [['raw', [1, 2, 3, 4, 5, 6, 7]], 2]]])
    out.append(['rfdtack', [[['raw', [1, 2, 3, 4, 5, 6, 7, 8]], 1, 2], [['raw', [1, 2, 3, 4]], 3, 4]]])
    out.append(['fwd', ['raw', [9] * 16], b''])
    for _ in range(200 if tier == 'thorough' else 60):
        out.append(g_msg(rng, rng.choice(KINDS), False))
    return out


def stale_pairs(rng):
    """(constructor arguments, parameters at encode time)"""
    out = []
    for k in TABLE_KINDS:
        for n0, n1 in [(0, 1), (1, 0), (1, 2), (2, 1), (3, 3), (0, 40), (5, 4)]:
            out.append((g_msg(rng, k, True, n0), g_msg(rng, k, True, n1)))
    for k in NPDU_KINDS:
        for n0, n1 in [(0, 5), (5, 0), (3, 3), (10, 1497)]:
            out.append((g_msg(rng, k, True, n0), g_msg(rng, k, True, n1)))
    for k in ('result', 'regfd', 'delfdt'):
        out.append((g_msg(rng, k), g_msg(rng, k)))
    return out


def header(fn, total, t=0x81):
    return bytes([t, fn, (total >> 8) & 255, total & 255])


BODY_LENS = [0, 1, 2, 3, 5, 6, 7, 9, 10, 11, 12, 16, 20, 30]

# datagram lengths for the wrong-length-field sweeps (small, around every multiple of 256 the property's range
# reaches with a one-bit high octet, and the largest frames)
LEN_GRID = list(range(4, 21)) + [255, 256, 257, 258, 511, 512, 513, 514, 767, 768, 769, 1023, 1024, 1025, 1026,
                                 1279, 1280, 1281, 1497, 1498, 1499, 1500, 1501, 1507]


def representative_frames(rng):
    """(function, valid frame) for every function: fixed-size ones, acks and tables with 0..3 entries, NPDU carriers
    with payloads up to the largest, including datagram lengths 256, 512, 768, 1024, 1280"""
    out = []
    pool = g_pool(rng, 3)
    out.append(spec_frame(['result', g_short(rng)]))
    for k in TABLE_KINDS:
        for n in (0, 1, 2, 3):
            out.append(spec_frame(g_rep_table(rng, k, pool, n) if n else [k, []]))
    out += [spec_frame(['rbdt']), spec_frame(['rfdt']), spec_frame(['regfd', g_short(rng)]), spec_frame(['delfdt', pool[0]])]
    for n in (0, 4, 246, 502, 1014, 1497):
        out.append(spec_frame(['fwd', pool[1], g_payload(rng, n)]))
    for k in ('dist', 'ouni', 'obcast'):
        for n in ((0, 8, 1497) if k == 'dist' else (0, 1, 8, 252, 508, 764, 1020, 1276, 1497)):
            out.append(spec_frame([k, g_payload(rng, n)]))
    return out


def short_frames(rng):
    """valid frames of every function short enough that padding them stays within 18..~110 octets"""
    pool = g_pool(rng, 2)
    out = [spec_frame(['result', g_short(rng)]), spec_frame(['result', 0]), spec_frame(['rbdt']), spec_frame(['rfdt']),
           spec_frame(['regfd', g_short(rng)]), spec_frame(['regfd', 0]), spec_frame(['delfdt', pool[0]]),
           spec_frame(['delfdt', ['raw', [0] * 6]])]
    for k in TABLE_KINDS:
        out += [spec_frame([k, []]), spec_frame(g_rep_table(rng, k, pool, 1)), spec_frame(g_rep_table(rng, k, pool, 2)),
                spec_frame([k, [[['raw', [0] * 6], 0] if k != 'rfdtack' else [['raw', [0] * 6], 0, 0]]])]
    for n in (0, 1, 2, 4, 7, 8, 13, 30):
        out.append(spec_frame(['fwd', pool[1], g_payload(rng, n)]))
        for k in ('dist', 'ouni', 'obcast'):
            out.append(spec_frame([k, g_payload(rng, n)]))
            out.append(spec_frame([k, bytes(n)]))
    return sorted(set(out), key=lambda b: (b[1], len(b), b))


def paddings(rng, k):
    return [bytes(k), b'\xff' * k, bytes(rng.randrange(256) for _ in range(k)), bytes(k - 1) + b'\x01', b'\x01' + bytes(k - 1)]


def structured_fields(L):
    """wrong length-field values with some arithmetic relation to the datagram length L: near misses, header-size and
    entry-size offsets, byte-swapped, off by a power of two, and every (hi, lo) with lo < 16 (shift / precedence slips)"""
    vs = set()
    for d in list(range(1, 17)) + [20, 24, 30, 40, 100, 256, 512, 1000, 1024, 4096, 0x8000] + [10 * k for k in range(1, 41)]:
        vs.update([L - d, L + d])
    vs.update([0, 4, 6, 10, 0xFFFF, 0xFF00, 0x00FF, ((L & 255) << 8) | (L >> 8), L >> 1, L << 1, L ^ 0xFFFF, L - 4 - 6, L * 10, L // 10])
    for k in range(16):
        vs.update([L ^ (1 << k), 1 << k])
    for hi in range(256):
        for lo in range(16):
            vs.add((hi << 8) | lo)
            if 0 < hi << (8 + lo) < 65536 and (hi << (8 + lo)) == L:
                vs.add((hi << 8) | lo)
    return sorted(v for v in vs if 0 <= v <= 0xFFFF and v != L)


def cases(rng, tier):
    out = []
    big = tier == 'thorough'
    frames = []
    for m in valid_specs(rng, tier):
        c = case_enc(m, 'enc-valid')
        out.append(c)
        if c.expected[0] == 0:
            frames.append(bytes(c.expected[1:]))
    for m in valid_specs(rng, tier)[::7]:
        out.append(case_ctor(m))
    for m in odd_specs(rng, tier):
        c = case_enc(m, 'enc-odd')
        out.append(c)
        out.append(case_ctor(m)) if m[0] in TABLE_KINDS + NPDU_KINDS else None
        if c.expected[0] == 0 and len(c.expected) < 200:
            frames.append(bytes(c.expected[1:]))
    for ctor, fin in stale_pairs(rng):
        out.append(case_enc(fin, 'enc-stale', ctor=ctor))
    for ops in histories(rng, tier):
        out.append(case_history(ops))
    # one frame at the 16-bit boundary of the length field (outside the property's domain; pins the wrap)
    for k, con, n in (('ouni', 'OrigUnicast', 65531), ('obcast', 'OrigBroadcast', 65532), ('dist', 'Distribute', 65536 + 7)):
        exp = impl_encode([k, bytes(n)])
        exp = [exp[0], len(exp) - 1] + exp[1:9] if exp[0] == 0 else exp
        out.append(Case('enc-64k', 'bres (fun bs => zlen bs :: zs (firstn 8 bs)) (enc_frame (%s (repeat 0%%N %d)))' % (con, n),
                        exp, key=('enc64k', k, n), desc={'op': 'encode', 'msg': [k, '00 * %d' % n]}))
    # decode every produced frame; mutate the shorter ones
    seen = set()
    for bs in frames:
        if bs in seen:
            continue
        seen.add(bs)
        out.append(case_dec(bs, 'dec-valid'))
        if len(bs) <= 120 or rng.random() < 0.15:
            for mb in mutations(rng, bs, 4 if big else 2):
                out.append(case_dec(mb, 'dec-mutated'))
    # every function code with a consistent header and several bodies
    for fn in range(256):
        lens = BODY_LENS if (fn < 16 or big) else [0, rng.choice([2, 6, 10]), rng.randrange(31)]
        for n in lens:
            body = bytes(rng.randrange(256) for _ in range(n))
            out.append(case_dec(header(fn, 4 + n) + body, 'dec-fn'))
        body = bytes(rng.randrange(256) for _ in range(rng.randrange(12)))
        out.append(case_dec(header(fn, 4 + len(body) + rng.choice([-1, 1, 256])) + body, 'dec-fn-badlen'))
    # wrong length fields related to the datagram length (header / entry size offsets, byte swap, shift slips)
    for bs in representative_frames(rng):
        L = len(bs)
        vals = [L - 4, L + 4, L - 10, L + 10, L - 6, L - 14, L - 20, L + 256, ((L & 255) << 8) | (L >> 8), L >> 1, L << 1]
        vals += [(hi << 8) | lo for hi in range(1, 256) for lo in range(16) if (hi << (8 + lo)) == L]
        if L > 300:
            vals = vals[:3] + vals[11:] + [rng.choice(structured_fields(L))]
        else:
            vals += rng.sample(structured_fields(L), 4)
        for v in sorted(set(v & 0xFFFF for v in vals if v >= 0)):
            if v != L:
                out.append(case_dec(bs[:2] + bytes([v >> 8, v & 255]) + bs[4:], 'dec-badlen'))
    # padded datagrams: a valid short frame followed by fill (zeros, 0xFF, random) with its length field unchanged
    for bs in short_frames(rng):
        n = len(bs)
        ks = {1, 18 - n, 46 - n, 64 - n, rng.randrange(1, 65)}
        for k in sorted(x for x in ks if 1 <= x <= 64):
            pads = paddings(rng, k)
            for pad in ([pads[0], pads[1], pads[2]] if (big or k + n in (18, 46, 64)) else [pads[0], pads[rng.randrange(1, 5)]]):
                out.append(case_dec(bs + pad, 'dec-padded'))
    # one object encoded repeatedly / inspected between encodes / decoded then re-encoded twice
    for src, m, actions in objseqs(rng, tier):
        out.append(case_objseq(src, m, actions))
    # short strings
    out.append(case_dec(b'', 'dec-short'))
    for a in range(256):
        out.append(case_dec(bytes([a]), 'dec-short'))
        out.append(case_dec(bytes([0x81, a]), 'dec-short'))
        out.append(case_dec(bytes([0x81, a % 12, rng.randrange(2)]), 'dec-short'))
        out.append(case_dec(bytes([rng.randrange(256), a]), 'dec-short'))
        for hi, lo in [(0, 4), (0, 3), (0, 5), (4, 0), (rng.randrange(256), rng.randrange(256))]:
            out.append(case_dec(bytes([0x81, a, hi, lo]), 'dec-short4'))
    for _ in range(3000 if big else 400):
        n = rng.choice([3, 4, 4, 5, 6, 8, 10, 14, 24])
        bs = bytearray(rng.randrange(256) for _ in range(n))
        if rng.random() < 0.8: bs[0] = 0x81
        if n >= 4 and rng.random() < 0.7:
            bs[1] = rng.randrange(12)
            bs[2], bs[3] = 0, n
        out.append(case_dec(bytes(bs), 'dec-random'))
    return out


# ------------------------------------------------------------------ direct predicate (implementation only)
def spec_ip6(a):
    """six octets of an in-domain address spec"""
    if a[0] == 'raw':
        return bytes(a[1])
    ip, port = (a[1], a[2]) if a[0] == 'ip' else (a[1], a[3])
    return bytes(ip) + bytes([port >> 8, port & 255])


def spec_mask(e):
    if e[0][0] == 'ipmask':
        return (0xFFFFFFFF << (32 - e[0][2])) & 0xFFFFFFFF
    return e[1]


def spec_frame(m):
    """Annex J.2 layouts, transcribed from the standard"""
    k = m[0]
    if k in ('result', 'regfd'): body = m[1].to_bytes(2, 'big')
    elif k in ('wbdt', 'rbdtack'): body = b''.join(spec_ip6(e[0]) + spec_mask(e).to_bytes(4, 'big') for e in m[1])
    elif k in ('rbdt', 'rfdt'): body = b''
    elif k == 'fwd': body = spec_ip6(m[1]) + bytes(m[2])
    elif k == 'rfdtack': body = b''.join(spec_ip6(e[0]) + e[1].to_bytes(2, 'big') + e[2].to_bytes(2, 'big') for e in m[1])
    elif k == 'delfdt': body = spec_ip6(m[1])
    else: body = bytes(m[1])
    return header(CODES[k], 4 + len(body)) + body


def spec_params(m):
    """the parameters a receiver must see: neutral form comparable with canon_obj()"""
    def ad(a):
        b = spec_ip6(a)
        return [6] + list(b) + list(b[:4]) + [b[4] * 256 + b[5]]
    k = m[0]
    out = [CODES[k]]
    if k in ('result', 'regfd'): out += [1, m[1]]
    elif k in ('wbdt', 'rbdtack'):
        out.append(len(m[1]))
        for e in m[1]: out += ad(e[0]) + [1, spec_mask(e)]
    elif k == 'fwd': out += ad(m[1]) + [len(m[2])] + list(m[2])
    elif k == 'rfdtack':
        out.append(len(m[1]))
        for e in m[1]: out += ad(e[0]) + [1, e[1], 1, e[2]]
    elif k == 'delfdt': out += ad(m[1])
    elif k in ('dist', 'ouni', 'obcast'): out += [len(m[1])] + list(m[1])
    return out


def random_copy(rng):
    r = random.Random()
    r.setstate(rng.getstate())
    return r


def try_decode(octets):
    """('ok', obj) | ('refused', None) | ('error', exception name)"""
    from bacpypes.errors import DecodingError
    from bacpypes.pdu import PDU
    try:
        u, c, d = stack()
        d.response(PDU(bytes(octets)))
        if len(u.got) == 1:
            return 'ok', u.got[0]
        if not u.got:
            return 'refused', None          # dropped without an exception: also a refusal
        return 'error', 'delivered-%d-messages' % len(u.got)
    except DecodingError:
        u, c, d = _STACK[0]
        if u.got:
            return 'error', 'delivered-and-raised'
        return 'refused', None
    except Exception as e:
        return 'error', type(e).__name__


def direct(rng, tier, focus=()):
    failures, stats = [], {'evaluations': 0}
    nontriv = set()
    samples = []
    big = tier == 'thorough'

    def fail(kind, **kw):
        if len(failures) < 200:
            failures.append(dict(kind=kind, **kw))

    def check_refused(bs, why, **kw):
        stats['evaluations'] += 1
        st, x = try_decode(bs)
        if st == 'ok':
            fail('accepted-' + why, octets=bs.hex(), delivered=type(x).__name__, **kw)
        elif st == 'error':
            fail('wrong-exception-' + why, octets=bs.hex(), exc=x, **kw)

    def check_accepted_frame_consistent(bs, x):
        """whatever is delivered must come from a frame whose type and length agree with the datagram
        and whose function names the delivered class"""
        if not (len(bs) >= 4 and bs[0] == 0x81 and bs[2] * 256 + bs[3] == len(bs)):
            fail('accepted-inconsistent-header', octets=bs.hex(), delivered=type(x).__name__)
        elif CODES.get(KIND_OF_CLASS.get(type(x).__name__)) != bs[1]:
            fail('accepted-wrong-class', octets=bs.hex(), delivered=type(x).__name__, fn=bs[1])

    # 1. production + round trip over the property's domain
    specs = valid_specs(rng, tier)
    if big:
        specs += valid_specs(rng, tier) + valid_specs(rng, tier)
    frames = []
    for m in specs:
        stats['evaluations'] += 1
        nontriv.add(repr(m))
        want = spec_frame(m)
        try:
            u, c, d = stack()
            u.request(build_msg(m))
            bs = bytes(d.got[0].pduData) if len(d.got) == 1 else None
        except Exception as e:
            fail('encode-raises', msg=jdesc(m), exc=type(e).__name__)
            continue
        if bs is None:
            fail('encode-no-frame', msg=jdesc(m))
            continue
        if len(bs) < 4 or bs[0] != 0x81:
            fail('type-octet', msg=jdesc(m), octets=bs.hex())
        elif bs[1] != CODES[m[0]]:
            fail('function-code', msg=jdesc(m), octets=bs.hex())
        elif bs[2] * 256 + bs[3] != len(bs):
            fail('length-field', msg=jdesc(m), declared=bs[2] * 256 + bs[3], actual=len(bs), octets=bs.hex())
        elif bs != want:
            fail('layout', msg=jdesc(m), octets=bs.hex(), want=want.hex()[:400])
        st, x = try_decode(bs)
        if st != 'ok':
            fail('roundtrip-refused', msg=jdesc(m), octets=bs.hex(), how=str(x))
        else:
            got = canon_obj(x)
            if got != spec_params(m) or x.bvlciFunction != CODES[m[0]] or x.bvlciLength != len(bs):
                fail('roundtrip-differs', msg=jdesc(m), octets=bs.hex(), got=got[:80], want=spec_params(m)[:80])
        frames.append(want)
    samples.append({'direct': 'layout+length+roundtrip', 'msg': jdesc(specs[5]), 'frame': spec_frame(specs[5]).hex()[:120]})

    # 1b. parameters changed after construction: the encoder may refuse, but a frame that does come out
    #     must still carry its own octet count and the layout of the parameters it was encoded from
    for ctor, fin in stale_pairs(rng):
        stats['evaluations'] += 1
        try:
            u, c, d = stack()
            u.request(build_stale(ctor, fin))
            bs = bytes(d.got[0].pduData) if len(d.got) == 1 else None
        except Exception:
            continue
        if bs is None:
            continue
        if len(bs) < 4 or bs[0] != 0x81 or bs[1] != CODES[fin[0]]:
            fail('type-octet' if (len(bs) < 1 or bs[0] != 0x81) else 'function-code', msg=jdesc(fin), ctor=jdesc(ctor), octets=bs.hex())
        elif bs[2] * 256 + bs[3] != len(bs):
            fail('length-field', msg=jdesc(fin), ctor=jdesc(ctor), declared=bs[2] * 256 + bs[3], actual=len(bs), octets=bs.hex())
        elif bs != spec_frame(fin):
            fail('layout', msg=jdesc(fin), ctor=jdesc(ctor), octets=bs.hex(), want=spec_frame(fin).hex()[:400])
        nontriv.add(('stale', repr(ctor), repr(fin)))

    # 1c. histories in one process: every frame still round-trips, and a decoded message does not change afterwards
    #     (it is compared with what was sent both right after its decode and again after the whole history)
    for ops in histories(rng, tier) + (histories(rng, tier) if big else []):
        stats['evaluations'] += 1
        nontriv.add(('history', repr(ops)))
        rs = run_history(ops)
        for i, (op, r) in enumerate(zip(ops, rs)):
            m = op_msg(op)
            if op[0] == 'dec':
                want = [CODES[m[0]], len(spec_frame(m))] + spec_params(m)
                if r[1] is None:
                    fail('history-frame-refused', step=i, ops_repr=repr(ops), ops=[[o[0], jdesc(o[1])] for o in ops], octets=spec_frame(m).hex())
                    continue
                if r[3] != want:
                    fail('history-roundtrip-differs', step=i, ops_repr=repr(ops), ops=[[o[0], jdesc(o[1])] for o in ops], got=r[3][:80], want=want[:80])
                later = [r[1].bvlciFunction, r[1].bvlciLength] + canon_obj(r[1])
                if later != r[3]:
                    fail('decoded-message-changed-afterwards', step=i, ops_repr=repr(ops), ops=[[o[0], jdesc(o[1])] for o in ops],
                         right_after_decode=r[3][:80], after_history=later[:80])
            else:
                in_domain = op[0] == 'enc' or op[1] in ('wbdt', 'rbdt', 'rbdtack', 'rfdt', 'rfdtack', 'dist', 'ouni', 'obcast')
                if in_domain and r[1] != [0] + list(spec_frame(m)):
                    fail('history-encode-differs', step=i, ops_repr=repr(ops), ops=[[o[0], jdesc(o[1])] for o in ops], got=r[1][:80],
                         want=list(spec_frame(m))[:80])
    samples.append({'direct': 'history', 'ops': [[o[0], jdesc(o[1])] for o in histories(random_copy(rng), tier)[0]]})

    # 1d. encoding does not disturb the message: the same object encoded two or three times gives the same (Annex J)
    #     frame every time and its parameters read the same before, between and after the encodes; likewise for an
    #     object delivered by the decoder and then re-encoded
    for src, m, actions in objseqs(rng, tier):
        stats['evaluations'] += 1
        nontriv.add(('objseq', src, repr(m), repr(actions)))
        want_frame, want_fields = [0] + list(spec_frame(m)), spec_params(m)
        rs = run_objseq(src, m, actions)
        info = dict(source=src, msg=jdesc(m), actions=jactions(actions), seq_repr=repr((src, m, actions)))
        sets = [a[1] for a in actions if isinstance(a, tuple)]
        if rs and rs[0][0] == 'dec':
            r = rs.pop(0)
            if r[1] is None:
                fail('roundtrip-refused', octets=spec_frame(m).hex(), **info)
                continue
            later = canon_obj(r[1])
            if later != (spec_params(sets[-1]) if sets else want_fields):
                fail('encode-changed-decoded-message', after_encodes=later[:80], want=(spec_params(sets[-1]) if sets else want_fields)[:80], **info)
        n_enc = n_set = 0
        for a, r in zip(actions, rs):
            if isinstance(a, tuple):
                # the application changed the object: from here on the frame / fields of the NEW parameters are due
                n_set += 1
                want_frame, want_fields = [0] + list(spec_frame(a[1])), spec_params(a[1])
                if r[1] != want_fields:
                    fail('assigned-parameters-not-read-back', after_encodes=n_enc, got=r[1][:80], want=want_fields[:80], **info)
                    break
            elif a == 'enc':
                n_enc += 1
                if r[1] != want_frame:
                    fail('resent-changed-message-differs' if n_set and n_enc > 1 else 'repeated-encode-differs' if n_enc > 1 else 'layout',
                         encode_number=n_enc, changes_before=n_set, got=r[1][:80], want=want_frame[:80], **info)
                    break
            elif r[1] != want_fields:
                fail('encode-changed-message' if n_enc else 'constructed-message-differs', after_encodes=n_enc, got=r[1][:80],
                     want=want_fields[:80], **info)
                break

    # 2. refusals: type octet, length field, datagram length
    uniq = sorted(set(frames), key=lambda b: (len(b), b))
    for i, bs in enumerate(uniq):
        full = i % 17 == 0
        for t in (range(256) if full else [0x80, 0x82, 0x00, 0x01, 0xFF, rng.randrange(256)]):
            if t != 0x81:
                check_refused(bytes([t]) + bs[1:], 'bad-type', type_octet=t)
        L = len(bs)
        for v in {L - 1, L + 1, 0, 4, L + 256, (L + 0x8000) & 0xFFFF, 0xFFFF, rng.randrange(65536), rng.randrange(65536),
                  L - 4, L + 4, L - 6, L + 6, L - 10, L + 10, L - 14, ((L & 255) << 8) | (L >> 8)}:
            v &= 0xFFFF
            if v != L:
                check_refused(bs[:2] + bytes([v >> 8, v & 255]) + bs[4:], 'bad-length', declared=v, actual=L)
        for cut in {L - 1, L - 2, 4, 3, 2, 1, 0, rng.randrange(L)}:
            if 0 <= cut < L:
                check_refused(bs[:cut], 'truncated', declared=L, actual=cut)
        for ext in (1, 2, 6, 10):
            check_refused(bs + bytes(rng.randrange(256) for _ in range(ext)), 'extended', declared=L, actual=L + ext)
        nontriv.add(('refusal', bs))

    # 2b. wrong-length-field sweeps: whatever the function, a datagram whose 16-bit length field differs from its
    #     octet count must be refused.  (i) EVERY field value != L for a representative valid frame of every function
    #     (acks and tables with 0..3 entries, NPDU carriers up to the largest frame, datagrams of 256/512/768/1024/1280
    #     octets); (ii) for every function code 0..12 and every datagram length of LEN_GRID, the structured values
    #     (near misses, header/entry-size offsets, byte swap, every (hi, lo) with lo < 16); thorough: every value there too.
    def sweep(bs, values, why):
        L = len(bs)
        b = bytearray(bs)
        for v in values:
            if v == L:
                continue
            b[2], b[3] = v >> 8, v & 255
            stats['evaluations'] += 1
            st, x = try_decode(bytes(b))
            if st == 'ok':
                fail('accepted-' + why, octets=bytes(b).hex(), delivered=type(x).__name__, declared=v, actual=L, fn=b[1])
            elif st == 'error':
                fail('wrong-exception-' + why, octets=bytes(b).hex(), exc=x, declared=v, actual=L, fn=b[1])

    reps = representative_frames(rng)
    for bs in reps:
        sweep(bs, range(65536), 'bad-length')
        nontriv.add(('lensweep', bs))
    grid_fns = range(13) if big else [0, 3, 4, 7, 9, 10, 11, 12]
    for fn in grid_fns:
        for L in LEN_GRID:
            bs = header(fn, L) + bytes(rng.randrange(256) for _ in range(L - 4))
            sweep(bs, range(65536) if big else structured_fields(L), 'bad-length')
            nontriv.add(('lengrid', fn, L))
    stats['length_field_sweep'] = ('every 16-bit field value != L on %d representative valid frames (all 12 functions); '
                                   'function codes %s x %d datagram lengths x %s'
                                   % (len(reps), list(grid_fns), len(LEN_GRID), 'every value' if big else 'structured values (~4.4 k each)'))

    # 2c. padded datagrams: every valid short frame of every function followed by 1..64 fill octets (zeros, 0xFF, random,
    #     zeros with one non-zero octet) with its own length field kept — total sizes 5..~110 incl. 18, 46, 60, 64 — and
    #     zero-tailed datagrams of every size 5..80 for every function code 0..12 with every declared length 4..L-1
    for bs in short_frames(rng):
        for k in range(1, 65):
            for pad in paddings(rng, k):
                check_refused(bs + pad, 'padded', declared=len(bs), actual=len(bs) + k, fn=bs[1])
        nontriv.add(('padded', bs))
    for fn in range(13):
        for L in range(5, 81):
            for dl in range(4, L):
                body = bytes(rng.randrange(256) for _ in range(dl - 4))
                check_refused(header(fn, dl) + body + bytes(L - dl), 'padded', declared=dl, actual=L, fn=fn)

    # 3. function codes 0..255 with a consistent header
    for fn in range(256):
        for n in BODY_LENS:
            body = bytes(rng.randrange(256) for _ in range(n))
            bs = header(fn, 4 + n) + body
            stats['evaluations'] += 1
            st, x = try_decode(bs)
            if fn >= 12:
                if st == 'ok':
                    fail('unknown-function-accepted', octets=bs.hex(), fn=fn, delivered=type(x).__name__)
                elif st == 'error':
                    fail('unknown-function-wrong-exception', octets=bs.hex(), fn=fn, exc=x)
            else:
                if st == 'error':
                    fail('known-function-wrong-exception', octets=bs.hex(), fn=fn, exc=x)
                elif st == 'ok':
                    check_accepted_frame_consistent(bs, x)
                # bodies that are a whole number of well-formed parameters must be accepted
                exact = {0: n == 2, 1: n % 10 == 0, 2: n == 0, 3: n % 10 == 0, 4: n >= 6, 5: n == 2, 6: n == 0,
                         7: n % 10 == 0, 8: n == 6, 9: True, 10: True, 11: True}[fn]
                if exact and st != 'ok':
                    fail('well-formed-frame-refused', octets=bs.hex(), fn=fn)
            nontriv.add(('fn', fn, n))

    # 4. all octet strings up to length 4 (quick: length 3 and 4 restricted as stated below)
    def short(bs):
        stats['evaluations'] += 1
        st, x = try_decode(bs)
        if st == 'error':
            fail('short-string-wrong-exception', octets=bs.hex(), exc=x)
        elif st == 'ok':
            check_accepted_frame_consistent(bs, x)
            if len(bs) == 4 and bs[1] not in EMPTY_BODY_OK:
                fail('short-string-accepted', octets=bs.hex(), delivered=type(x).__name__)
        elif len(bs) == 4 and bs[0] == 0x81 and bs[1] in EMPTY_BODY_OK and bs[2:] == b'\x00\x04':
            fail('well-formed-frame-refused', octets=bs.hex(), fn=bs[1])

    short(b'')
    for a in range(256):
        short(bytes([a]))
        for b in range(256):
            short(bytes([a, b]))
    firsts3 = range(256) if big else [0x81, 0x00, 0x01, 0x0A, 0x0B, 0x7F, 0x80, 0x82, 0x83, 0xC1, 0xFF, rng.randrange(256)]
    for a in firsts3:
        for b in range(256):
            for c in range(256):
                short(bytes([a, b, c]))
    for f in range(256):
        for hi in (range(256) if (big or f < 12) else [0, 1, 4, 255, rng.randrange(256)]):
            for lo in (range(256) if (big or hi == 0 or f < 12) else [0, 4, rng.randrange(256)]):
                short(bytes([0x81, f, hi, lo]))
    for t in range(256):
        if t != 0x81:
            for f in range(12):
                short(bytes([t, f, 0, 4]))
    stats['exhaustive'] = True
    stats['exhaustive_domain'] = ('all octet strings of length <= 2; length 3 with first octet %s; length 4 = 81 f hi lo with %s'
                                  % ('any' if big else 'in {81,00,01,0a,0b,7f,80,82,83,c1,ff,random}',
                                     'every f, hi, lo (16.7 M)' if big else
                                     'every hi, lo for f < 12; for f >= 12 every lo with hi = 0 and lo in {0,4,random} with hi in {1,4,255,random}'))

    # 5. mutated valid frames: anything accepted must be header-consistent; nothing but DecodingError may escape
    pool = [b for b in uniq if len(b) <= 200]
    for _ in range(40000 if big else 6000):
        bs = rng.choice(pool)
        for mb in mutations(rng, bs, 1):
            stats['evaluations'] += 1
            st, x = try_decode(mb)
            if st == 'error':
                fail('mutated-frame-wrong-exception', octets=mb.hex(), exc=x)
            elif st == 'ok':
                check_accepted_frame_consistent(mb, x)
    for dsc in focus:
        if isinstance(dsc, dict) and dsc.get('op') == 'decode' and '...' not in dsc.get('octets', '...'):
            mb = bytes.fromhex(dsc['octets'])
            st, x = try_decode(mb)
            if st == 'error':
                fail('mutated-frame-wrong-exception', octets=mb.hex(), exc=x)
            elif st == 'ok':
                check_accepted_frame_consistent(mb, x)
    stats['distinct_nontrivial'] = len(nontriv)
    stats['samples'] = samples
    return failures, stats


def classify(failure):
    # the pinned tree's KeyError for unknown function codes — repaired by the fix: commit, so this id is
    # `fixed` in known_findings/C09.json and suppresses nothing
    if failure.get('kind') == 'unknown-function-wrong-exception' and failure.get('exc') == 'KeyError' \
            and isinstance(failure.get('fn'), int) and failure['fn'] >= 12:
        return 'C09-unknown-function-keyerror'
    return None


def replay(payload):
    import core
    f = payload.get('failure')
    if f is None:
        for b in payload.get('broken', []):
            if isinstance(b, dict) and b.get('minimal_case'):
                f = b['minimal_case'].get('desc')
    print('replay', f)
    if not isinstance(f, dict):
        return
    if 'seq_repr' in f:
        import ast
        src, m, actions = ast.literal_eval(f['seq_repr'])
        print('sent / Annex J frame :', spec_frame(m).hex()[:200])
        print('parameters           :', spec_params(m)[:60])
        for r in run_objseq(src, m, actions):
            print('  ', r[0], (r[1][:60] if r[0] != 'dec' else (r[3] or ['refused', r[2]])[:60]))
        return
    if 'ops_repr' in f:
        import ast
        ops = ast.literal_eval(f['ops_repr'])
        rs = run_history(ops)
        for i, (op, r) in enumerate(zip(ops, rs)):
            if op[0] == 'dec':
                m = op_msg(op)
                print('step %d decode %s' % (i, spec_frame(m).hex()[:120]))
                print('   sent                 :', [CODES[m[0]], len(spec_frame(m))] + spec_params(m))
                print('   right after decode   :', r[3] if r[1] is not None else ['refused', r[2]])
                if r[1] is not None:
                    print('   after the history    :', [r[1].bvlciFunction, r[1].bvlciLength] + canon_obj(r[1]))
            else:
                print('step %d %s %s -> %s' % (i, op[0], jdesc(op[1]), r[1][:60]))
        print('model (canon_history):', core.coq_eval(COQ_IMPORTS, 'canon_history [%s]' % ';'.join(coq_hop(op) for op in ops))[0])
        return
    if 'octets' in f and '...' not in f['octets']:
        bs = bytes.fromhex(f['octets'])
        print('implementation decode:', impl_decode(bs))
        print('model decode         :', core.coq_eval(COQ_IMPORTS, 'canon_decode %s' % nlist(bs))[0])
    if 'fn' in f and 'octets' not in f:
        bs = header(f['fn'], 4)
        print('implementation decode:', impl_decode(bs))
        print('model decode         :', core.coq_eval(COQ_IMPORTS, 'canon_decode %s' % nlist(bs))[0])
