"""C16 — COV subscribers are told of every qualifying change, and only while subscribed.

Implementation driver (a device with ChangeOfValueServices + ReadWritePropertyServices and three
subscriber stacks on one virtual LAN under the virtual clock), timeline generators, the
correspondence cases against coq/theories/Cov.v and the direct, implementation-only predicate."""
import logging
from core import Case

PROP = 'C16'
COQ_TARGETS = ['theories/CovQueue.vo', 'theories/CovRound.vo']
COQ_IMPORTS = 'From Bac Require Import Base Cov.'
RULE = ('cases: seeded timelines of 6..28 events over a device with 6 objects (analogValue, analogInput, binaryValue, '
        'multiStateValue, pulseConverter [covPeriod 0 or 1..20 s], calendar = no COV support; + an unknown object id) and 3 subscriber '
        'stacks x 2 process ids, 15 % of the timelines with 1-2 subscribers that never acknowledge confirmed notifications. Events: '
        'Subscribe / SubscribeCOVProperty(presentValue) (confirmed? in {yes,no,absent}, lifetime in {absent,0,1,2,5,30,60,120}) / Cancel / '
        'Write(presentValue | statusFlags | covIncrement) / Drain / Advance(1/8 s ticks, incl. exactly onto, one tick before and after every '
        'expiry) / ReadProperty(activeCovSubscriptions); half of the timelines are *stepped*: requests are delivered without running '
        'the deferred COV functions (SubscribeNow / CancelNow / ReadNow) and StepQ runs exactly one deferred COV function of the real '
        'core.deferredFns (network and IOCB plumbing always to quiescence), so that writes, subscribes, cancels and the _triggered '
        'coalescing interleave arbitrarily.  Analog writes are aimed at |v - last| = increment (exactly, one quarter below/above), '
        'returns to the old value and bursts.  Observables per event: ack/error code, exceptions, the sorted notifications issued '
        '(client, process, object, confirmed?, time remaining, value, flags; the direct check also compares them with what the '
        'subscriber stacks received) and the sorted active-subscription list.  non-trivial = the timeline produced >= 1 change '
        'notification; distinct by (event list, silent subscribers).  Crowd family (60 cases in the tie, 550 in the direct check): 9..16 '
        'concurrent subscriptions with distinct lifetimes laid out late/early by heap subtree, descending or interleaved, all made in '
        'one instant; 1..4 cancellations / renewals of entries that are not the earliest; then quiet clock jumps landing just behind '
        'successive expiries (a staircase with one active-list read per step, or one long jump followed by changes on every object).  Rounds family (120 cases in the tie, 500 in the direct check): one object with 1..3 subscriptions, 3..7 rounds of (single write | burst within one instant) + drain aimed at the exactly tracked reference +-(increment-1 | increment | increment+1), bursts crossing the increment first and ending on another value; between rounds mode-flipping renewals and lapses (all subscriptions of the object cancelled or expired, then the same key in the other mode or a new key subscribes) - the setting of the CovRound.v theorems.')
TRUSTED = ['model coq/theories/Cov.v written by hand after service/cov.py (Subscription, COVDetection, COVIncrementCriteria, '
           'PulseConverterCriteria, ActiveCOVSubscriptions, ChangeOfValueServices.do_SubscribeCOVRequest / cancel_subscription), '
           'service/detect.py (DetectionMonitor.property_change, _execute) and object.py Property.WriteProperty monitors; tie = correspondence',
           'harness/vnet.py virtual clock + vlan wiring; the harness drives core.deferredFns itself: DetectionAlgorithm-bound deferred '
           'functions one at a time on request, everything else (LAN delivery tasks, IOCB queue triggers) to quiescence after every event',
           'binary32/binary64 arithmetic of the increment test and of taskTime - now: sampled on binary-exact quarters / eighths only']
ASSUMPTIONS = ['present values and increments are multiples of 1/4, times multiples of 1/8 s (exact in binary floating point)',
               'time advances only with an empty deferred queue (core.run never sleeps while deferred functions are pending); the driver '
               'sleeps until the task at the ROOT of the TaskManager heap is due, exactly what TaskManager.get_next_task looks at',
               'silent subscribers stay silent for the whole timeline (4 transmissions 3 s apart, then abort); the model compares what '
               'the COV service issues, the direct check what arrives',
               'one device, one LAN, local station addresses; SubscribeCOVProperty only for presentValue, without covIncrement']

TICKS = 8                 # model time unit: 1/8 s
SCALE = 4                 # analog values: quarters
T0 = 1700000000.0

# object kinds of the model (Cov.v)
KINC, KGEN, KPULSE, KNOCOV = 0, 1, 2, 3
OTYPE = {'analogInput': 0, 'analogValue': 2, 'binaryValue': 5, 'calendar': 6, 'multiStateValue': 19, 'pulseConverter': 24,
         'loadControl': 28, 'accessDoor': 30}
SHED = ['shedInactive', 'shedRequestPending', 'shedCompliant', 'shedNonCompliant']


def oid_of(t, i):
    return (OTYPE[t] << 22) | i


UNKNOWN_OID = oid_of('analogValue', 99)
ERRCODES = {'covSubscriptionFailed': 43, 'operationalProblem': 25, 'unknownObject': 31}


# ----------------------------------------------------------------------------- implementation driver
class Sim:
    """one device + subscriber stacks; every method returns the observation of that event"""

    def __init__(self, cfg, nclients=3, silent=()):
        import core
        core.impl_import_guard()
        logging.disable(logging.CRITICAL)
        from vnet import VClock, Stack
        from bacpypes.service.cov import ChangeOfValueServices
        from bacpypes.service.object import ReadWritePropertyServices
        from bacpypes.capability import Capability
        from bacpypes.apdu import SimpleAckPDU
        from bacpypes import object as O

        outer = self

        class Cli(Capability):
            def do_ConfirmedCOVNotificationRequest(self, apdu):
                outer.notifs.append((self.cli_no, 1, apdu))
                if self.cli_no not in outer.silent:        # a silent subscriber never answers: retries, then abort
                    self.response(SimpleAckPDU(context=apdu))

            def do_UnconfirmedCOVNotificationRequest(self, apdu):
                outer.notifs.append((self.cli_no, 0, apdu))

        import bacpypes.task as _task
        _task.TaskManager._singleton_instance = None      # VClock must get a *fresh* manager (it is a singleton class)
        _task._Trigger = None                             # no wake-up pipe per manager (3 descriptors each, never closed)
        self.clock = VClock(T0)
        assert _task._task_manager is self.clock.tm and not self.clock.tm.tasks
        self.lan = self.clock.network()
        class Issued:
            """records every COV notification at the moment the service hands it to the application (request_io)"""
            def cov_notification(self, cov, request):
                outer.issued.append(outer._canon_issue(request))
                super().cov_notification(cov, request)

        self.silent = set(silent)
        self.issued = []
        self.dev = Stack(self.clock, self.lan, 1, services=[Issued, ChangeOfValueServices, ReadWritePropertyServices])
        self.clients = {}
        for i in range(2, 2 + nclients):
            c = Stack(self.clock, self.lan, i, services=[Cli])
            c.cli_no = i
            self.clients[i] = c
        self.notifs = []
        self.objs = []
        self.kinds = {}
        for (t, inst, kind, pv, fl, inc, period) in cfg:
            oid = oid_of(t, inst)
            flags = [(fl >> (3 - k)) & 1 for k in range(4)]
            if t in ('analogValue', 'analogInput'):
                cls = O.AnalogValueObject if t == 'analogValue' else O.AnalogInputObject
                o = cls(objectIdentifier=(t, inst), objectName='%s%d' % (t, inst), presentValue=pv / SCALE,
                        statusFlags=flags, covIncrement=inc / SCALE)
            elif t == 'binaryValue':
                o = O.BinaryValueObject(objectIdentifier=(t, inst), objectName='bv%d' % inst,
                                        presentValue=['inactive', 'active'][pv], statusFlags=flags)
            elif t == 'multiStateValue':
                o = O.MultiStateValueObject(objectIdentifier=(t, inst), objectName='msv%d' % inst, presentValue=pv,
                                            statusFlags=flags, numberOfStates=16)
            elif t == 'pulseConverter':
                o = O.PulseConverterObject(objectIdentifier=(t, inst), objectName='pc%d' % inst, presentValue=pv / SCALE,
                                           statusFlags=flags, covIncrement=inc / SCALE, covPeriod=period)
            elif t == 'loadControl':
                from bacpypes.basetypes import ShedLevel, DateTime
                o = O.LoadControlObject(objectIdentifier=(t, inst), objectName='lc%d' % inst, presentValue=SHED[pv], statusFlags=flags,
                                        requestedShedLevel=ShedLevel(percent=10), startTime=DateTime(date=(120, 1, 1, 3), time=(1, 2, 3, 4)),
                                        shedDuration=5, dutyWindow=7)
            elif t == 'accessDoor':
                o = O.AccessDoorObject(objectIdentifier=(t, inst), objectName='ad%d' % inst, presentValue='lock', statusFlags=flags)
            elif t == 'calendar':
                o = O.CalendarObject(objectIdentifier=(t, inst), objectName='cal%d' % inst, presentValue=False, dateList=[])
            else:
                raise ValueError(t)
            self.dev.add_object(o)
            self.objs.append(o)
            self.kinds[oid] = (t, kind)
        self.ticks = 0

    # -- helpers
    def _objid(self, oid):
        for t, n in OTYPE.items():
            if n == oid >> 22:
                return (t, oid & 0x3FFFFF)
        raise ValueError(oid)

    def _canon_notif(self, cli, conf, apdu):
        from bacpypes.primitivedata import Real, Unsigned
        from bacpypes.basetypes import StatusFlags, BinaryPV
        t, inst = apdu.monitoredObjectIdentifier
        oid = oid_of(t, inst)
        vals = {pv.propertyIdentifier: pv.value for pv in apdu.listOfValues}
        names = [pv.propertyIdentifier for pv in apdu.listOfValues]
        expect = ['presentValue', 'statusFlags']
        if t == 'loadControl':
            expect = ['presentValue', 'statusFlags', 'requestedShedLevel', 'startTime', 'shedDuration', 'dutyWindow']
        if names != expect:
            pvz, flz = -999, -999
        else:
            if t in ('analogValue', 'analogInput', 'pulseConverter'):
                x = vals['presentValue'].cast_out(Real) * SCALE
                pvz = int(x) if x == int(x) else -998
            elif t == 'binaryValue':
                pvz = {'inactive': 0, 'active': 1}.get(vals['presentValue'].cast_out(BinaryPV), -997)
            elif t == 'loadControl':
                from bacpypes.basetypes import ShedState
                x = vals['presentValue'].cast_out(ShedState)
                pvz = SHED.index(x) if x in SHED else -997
            else:
                pvz = int(vals['presentValue'].cast_out(Unsigned))
            bits = list(vals['statusFlags'].cast_out(StatusFlags))
            flz = sum(b << (3 - k) for k, b in enumerate(bits)) if len(bits) == 4 else -996
        dev_ok = tuple(apdu.initiatingDeviceIdentifier) == ('device', 1)
        return (cli, int(apdu.subscriberProcessIdentifier), oid, conf, int(apdu.timeRemaining), pvz, flz if dev_ok else -995)

    def _canon_issue(self, request):
        from bacpypes.apdu import ConfirmedCOVNotificationRequest
        a = request.pduDestination
        cli = a.addrAddr[0] if (a is not None and a.addrAddr and len(a.addrAddr) == 1 and not a.addrNet) else -1
        return self._canon_notif(cli, 1 if isinstance(request, ConfirmedCOVNotificationRequest) else 0, request)

    def _finish(self, tag, ack=0, code=0, errors=(), active=None):
        ns = sorted(self._canon_notif(*n) for n in self.notifs)
        self.notifs = []
        iss = sorted(self.issued)
        self.issued = []
        return {'ev': tag, 'ack': ack, 'code': code, 'nerr': len(errors), 'notifs': iss, 'received': ns, 'active': active,
                'pending': len(self._cov_items()), 'errors': [repr(e)[:120] for e in errors]}

    # -- the deferred queue, driven by hand: COV functions one at a time, all the plumbing (LAN delivery tasks,
    #    IOCB queue triggers) to quiescence
    def _is_cov(self, item):
        from bacpypes.service.detect import DetectionAlgorithm
        return isinstance(getattr(item[0], '__self__', None), DetectionAlgorithm)

    def _cov_items(self):
        return [x for x in self.clock.core.deferredFns if self._is_cov(x)]

    def _plumbing(self):
        bc, errors, n = self.clock.core, [], 0
        while True:
            progressed = False
            rest = [x for x in bc.deferredFns if not self._is_cov(x)]
            if rest:
                bc.deferredFns = [x for x in bc.deferredFns if self._is_cov(x)]
                for fn, a, k in rest:
                    try:
                        fn(*a, **k)
                    except Exception as e:
                        errors.append(e)
                progressed = True
            t, _ = self.clock.tm.get_next_task()
            if t is not None:
                try:
                    self.clock.tm.process_task(t)
                except Exception as e:
                    errors.append(e)
                progressed = True
            n += 1
            if not progressed:
                return errors
            if n > 100000:
                raise RuntimeError('plumbing: step limit')

    def _step_q(self):
        bc, errors = self.clock.core, []
        for i, x in enumerate(bc.deferredFns):
            if self._is_cov(x):
                del bc.deferredFns[i]
                try:
                    x[0](*x[1], **x[2])
                except Exception as e:
                    errors.append(e)
                break
        return errors + self._plumbing()

    def _drain_q(self):
        errors = self._plumbing()
        n = 0
        while self._cov_items():
            errors += self._step_q()
            n += 1
            if n > 10000:
                raise RuntimeError('drain: step limit')
        return errors

    def _response(self, iocb):
        from bacpypes.apdu import SimpleAckPDU, ComplexAckPDU, Error, RejectPDU, AbortPDU
        r, e = iocb.ioResponse, iocb.ioError
        if isinstance(r, (SimpleAckPDU, ComplexAckPDU)):
            return 1, 0
        if isinstance(e, Error):
            return 2, ERRCODES.get(str(e.errorCode), 999)
        if isinstance(e, RejectPDU):
            return 3, int(e.apduAbortRejectReason)
        if isinstance(e, AbortPDU):
            return 4, int(e.apduAbortRejectReason)
        return 5, 0

    # -- events
    def write(self, oi, prop, v):
        o = self.objs[oi]
        t = o.objectIdentifier[0]
        try:
            if prop == 'pv':
                if t in ('analogValue', 'analogInput', 'pulseConverter'):
                    o.presentValue = v / SCALE
                elif t == 'binaryValue':
                    o.presentValue = ['inactive', 'active'][v]
                elif t == 'multiStateValue':
                    o.presentValue = v
                elif t == 'loadControl':
                    o.presentValue = SHED[v]
                else:
                    o.presentValue = bool(v)
            elif prop == 'fl':
                o.statusFlags = [(v >> (3 - k)) & 1 for k in range(4)]
            else:
                o.covIncrement = v / SCALE
        except AttributeError:
            return self._finish('W', 9, 11)
        return self._finish('W')

    def drain(self):
        return self._finish('D', errors=self._drain_q())

    def step_q(self):
        return self._finish('Q', errors=self._step_q())

    def _request(self, c, proc, oid, conf, life, variant):
        from bacpypes.apdu import SubscribeCOVRequest, SubscribeCOVPropertyRequest
        from bacpypes.basetypes import PropertyReference
        kw = {}
        if conf is not None:
            kw['issueConfirmedNotifications'] = bool(conf)
        if life is not None:
            kw['lifetime'] = life
        if variant == 'P':
            req = SubscribeCOVPropertyRequest(subscriberProcessIdentifier=proc, monitoredObjectIdentifier=self._objid(oid),
                                              monitoredPropertyIdentifier=PropertyReference(propertyIdentifier='presentValue'), **kw)
        else:
            req = SubscribeCOVRequest(subscriberProcessIdentifier=proc, monitoredObjectIdentifier=self._objid(oid), **kw)
        io = self.clients[c].send(req, self.dev.address)
        errs = self._plumbing()
        return io, errs

    def subscribe(self, c, proc, oid, conf, life, variant=None, now=False):
        errs = [] if now else self._drain_q()
        io, e2 = self._request(c, proc, oid, conf, life, variant)
        errs += e2
        if not now:
            errs += self._drain_q()
        ack, code = self._response(io)
        cancel = conf is None and life is None
        tag = ('XN' if cancel else 'SN') if now else ('X' if cancel else 'S')
        return self._finish(tag, ack, code, errs)

    def cancel(self, c, proc, oid, now=False):
        return self.subscribe(c, proc, oid, None, None, now=now)

    def _advance_clock(self, seconds):
        """let virtual time pass the way core.run does: sleep until the task at the ROOT of the scheduler's heap is due
        (TaskManager.get_next_task looks at nothing else), run what is due, repeat"""
        errors, n = [], 0
        target = self.clock.now[0] + seconds
        while True:
            tasks = self.clock.tm.tasks
            nd = tasks[0][0] if tasks else None
            if nd is None or nd > target:
                break
            self.clock.now[0] = max(self.clock.now[0], nd)
            errors += self._drain_q()
            n += 1
            if n > 200000:
                raise RuntimeError('advance: step limit')
        self.clock.now[0] = target
        return errors + self._drain_q()

    def advance(self, ticks):
        errs = self._drain_q()
        errs += self._advance_clock(ticks / TICKS)
        self.ticks += ticks
        assert self.clock.now[0] == T0 + self.ticks / TICKS
        assert not self._cov_items()
        return self._finish('A', errors=errs)

    def read_active(self, c, now=False):
        from bacpypes.apdu import ReadPropertyRequest
        from bacpypes.basetypes import COVSubscription
        from bacpypes.constructeddata import ListOf
        errs = [] if now else self._drain_q()
        io = self.clients[c].send(ReadPropertyRequest(objectIdentifier=('device', 1),
                                                     propertyIdentifier='activeCovSubscriptions'), self.dev.address)
        errs += self._plumbing()
        ack, code = self._response(io)
        active = None
        if ack == 1:
            active = []
            for e in io.ioResponse.propertyValue.cast_out(ListOf(COVSubscription)):
                mac = bytes(e.recipient.recipient.address.macAddress)
                net = e.recipient.recipient.address.networkNumber
                cli = mac[0] if (len(mac) == 1 and net == 0) else -1
                t, inst = e.monitoredPropertyReference.objectIdentifier
                pid = e.monitoredPropertyReference.propertyIdentifier
                hasinc = 0 if e.covIncrement is None else 1
                incz = 0
                if hasinc:
                    x = e.covIncrement * SCALE
                    incz = int(x) if x == int(x) else -998
                active.append((cli, int(e.recipient.processIdentifier), oid_of(t, inst) if pid == 'presentValue' else -1,
                               int(bool(e.issueConfirmedNotifications)), int(e.timeRemaining), hasinc, incz))
            active.sort()
        return self._finish('RN' if now else 'R', ack, code, errs, active)

    def run_event(self, ev):
        k = ev[0]
        if k == 'W':
            return self.write(ev[1], ev[2], ev[3])
        if k == 'D':
            return self.drain()
        if k in ('S', 'SN'):
            return self.subscribe(ev[1], ev[2], ev[3], ev[4], ev[5], ev[6] if len(ev) > 6 else None, now=(k == 'SN'))
        if k in ('X', 'XN'):
            return self.cancel(ev[1], ev[2], ev[3], now=(k == 'XN'))
        if k == 'Q':
            return self.step_q()
        if k == 'RN':
            return self.read_active(ev[1], now=True)
        if k == 'A':
            return self.advance(ev[1])
        if k == 'R':
            return self.read_active(ev[1])
        raise ValueError(ev)


def run_impl(cfg, events, silent=()):
    sim = Sim(cfg, silent=silent)
    obs = [sim.run_event(e) for e in events]
    if silent:
        # let every retry run out (4 transmissions x 3 s per queued confirmed notification), then collect what arrived
        sim._advance_clock(15.0 * (1 + sum(len(o['notifs']) for o in obs)))
        obs.append({'ev': 'flush', 'received': sorted(sim._canon_notif(*n) for n in sim.notifs)})
    return obs


EVTAG = {'W': 1, 'D': 2, 'S': 3, 'X': 4, 'A': 5, 'R': 6, 'Q': 7, 'SN': 8, 'XN': 9, 'RN': 10}


def canon_obs(obs):
    out = []
    for o in obs:
        if o['ev'] == 'flush':
            continue
        out += [EVTAG[o['ev']], o['ack'], o['code'], o['nerr'], len(o['notifs'])]
        for n in o['notifs']:
            out += list(n)
        if o['active'] is None:
            out.append(-1)
        else:
            out.append(len(o['active']))
            for a in o['active']:
                out += list(a)
    return out


# ----------------------------------------------------------------------------- Coq rendering
def z(x):
    return '(%d)' % x if x < 0 else '%d' % x


def coq_cfg(cfg):
    ks = {KINC: 'KInc', KGEN: 'KGen', KPULSE: 'KPulse', KNOCOV: 'KNoCov'}
    return '[' + ';'.join('mkObj0 %d %s %s %s %s %s' % (oid_of(t, i), ks[k], z(pv), z(fl), z(inc), z(per))
                          for (t, i, k, pv, fl, inc, per) in cfg) + ']'


def coq_events(events):
    out = []
    for e in events:
        k = e[0]
        if k == 'W':
            out.append('Write %d %s %s' % (e[1], {'pv': 'PPv', 'fl': 'PFl', 'inc': 'PInc'}[e[2]], z(e[3])))
        elif k == 'D':
            out.append('Drain')
        elif k in ('S', 'SN'):
            out.append('%s %d %d %d %s %s' % ('Subscribe' if k == 'S' else 'SubscribeNow', e[1], e[2], e[3],
                                              'true' if e[4] else 'false', 'None' if e[5] is None else '(Some %d)' % e[5]))
        elif k in ('X', 'XN'):
            out.append('%s %d %d %d' % ('Cancel' if k == 'X' else 'CancelNow', e[1], e[2], e[3]))
        elif k == 'Q':
            out.append('StepQ')
        elif k == 'RN':
            out.append('ReadNow %d' % e[1])
        elif k == 'A':
            out.append('Advance %d' % e[1])
        elif k == 'R':
            out.append('ReadActive %d' % e[1])
    return '[' + ';'.join(out) + ']'


# ----------------------------------------------------------------------------- generators
LIFETIMES = [None, 0, 1, 2, 5, 30, 60, 120]
INCS = [0, 1, 4, 10, 40]          # quarters: 0, 0.25, 1.0, 2.5, 10.0


def gen_cfg(rng, period=None):
    """(type, instance, kind, pv, flags, increment, covPeriod) per object; index = position"""
    per = period if period is not None else rng.choice([0, 0, 0, 3, 7, 20])
    return [
        ('analogValue', 1, KINC, rng.choice([0, 0, 40, -13, 402]), rng.choice([0, 0, 4]), rng.choice(INCS), 0),
        ('analogInput', 1, KINC, rng.choice([0, 100, -6]), 0, rng.choice(INCS[1:]), 0),
        ('binaryValue', 1, KGEN, rng.randrange(2), rng.choice([0, 0, 8]), 0, 0),
        ('multiStateValue', 1, KGEN, rng.randrange(1, 6), 0, 0, 0),
        ('pulseConverter', 1, KPULSE, rng.choice([0, 8, 200]), 0, rng.choice(INCS), per),
        ('calendar', 1, KNOCOV, 0, 0, 0, 0),
        ('loadControl', 1, KGEN, rng.randrange(4), 0, 0, 0),      # LoadControlCriteria: six reported properties
        ('accessDoor', 1, KNOCOV, 0, 0, 0, 0),                    # supports COV on paper, no criteria class registered
    ]


def gen_timeline(rng, cfg, nmin=6, nmax=28, focus_obj=None, fine=False):
    """random timeline; the generator keeps a rough shadow (current values, values at the last drain, pending expiries)
    only to aim writes at the increment boundary and advances at the expiries"""
    n = rng.randrange(nmin, nmax + 1)
    cur = {i: [c[3], c[4], c[5]] for i, c in enumerate(cfg)}
    ref = {i: c[3] for i, c in enumerate(cfg)}          # guess of the last reported value
    now = 0
    expiries = []
    subs = []
    cov_objs = [i for i, c in enumerate(cfg) if c[2] != KNOCOV]
    hot = focus_obj if focus_obj is not None else rng.choice(cov_objs)
    events = []

    def pick_obj():
        return hot if rng.random() < 0.6 else rng.choice(cov_objs)

    def sync_refs():
        for i in cur:
            ref[i] = cur[i][0]

    while len(events) < n:
        r = rng.random()
        if not subs and r < 0.5:
            r = 0.5                      # start by subscribing
        if r < 0.42:                     # write(s)
            burst = 1 if rng.random() < 0.7 else rng.randrange(2, 5)
            for _ in range(burst):
                oi = pick_obj()
                t, _, kind = cfg[oi][0], cfg[oi][1], cfg[oi][2]
                q = rng.random()
                if q < 0.72:
                    if kind in (KINC, KPULSE):
                        inc = cur[oi][2]
                        base = rng.choice([ref[oi], ref[oi], cur[oi][0]])
                        d = rng.choice([0, 1, -1, inc - 1, inc, inc + 1, -(inc - 1), -inc, -(inc + 1), 2 * inc + 3,
                                        -2 * inc - 3, rng.randrange(-60, 61)])
                        v = base + d
                        if rng.random() < 0.12:
                            v = ref[oi]          # return to the reported value
                    elif t == 'binaryValue':
                        v = rng.randrange(2)
                    elif t == 'loadControl':
                        v = rng.randrange(4)
                    else:
                        v = rng.randrange(1, 6)
                    cur[oi][0] = v
                    events.append(('W', oi, 'pv', v))
                elif q < 0.9:
                    v = rng.choice([0, 1, 2, 4, 8, 12, cur[oi][1]])
                    cur[oi][1] = v
                    events.append(('W', oi, 'fl', v))
                else:
                    if kind in (KINC, KPULSE):
                        v = rng.choice(INCS)
                        cur[oi][2] = v
                        events.append(('W', oi, 'inc', v))
                    elif rng.random() < 0.2:
                        events.append(('W', oi, 'inc', 4))     # no such property: refused
            continue
        if fine and rng.random() < 0.18:
            events.append(('Q',))
            continue
        if r < 0.52:
            events.append(('D',))
            sync_refs()
        elif r < 0.74:
            c = rng.randrange(2, 5) if rng.random() < 0.7 else 2
            proc = rng.choice([1, 1, 2])
            q = rng.random()
            if q < 0.06:
                oid = UNKNOWN_OID
            elif q < 0.1:
                nocov = rng.choice([c for c in cfg if c[2] == KNOCOV])
                oid = oid_of(nocov[0], nocov[1])
            else:
                oi = pick_obj()
                oid = oid_of(cfg[oi][0], cfg[oi][1])
            if subs and rng.random() < 0.35:
                c, proc, oid = rng.choice(subs)      # renewal
            life = rng.choice(LIFETIMES)
            conf = rng.choice([0, 1, 0, 1, 0, 1, None])          # None: a lifetime but no issueConfirmedNotifications
            if conf is None and life is None:
                life = rng.choice([0, 5, 30])
            e = ('SN' if (fine and rng.random() < 0.6) else 'S', c, proc, oid, conf, life)
            if rng.random() < 0.2:
                e = e + ('P',)                                     # SubscribeCOVProperty(presentValue)
            events.append(e)
            if (c, proc, oid) not in subs:
                subs.append((c, proc, oid))
            if life:
                expiries.append(now + life * TICKS)
            sync_refs()
        elif r < 0.8:
            if subs and rng.random() < 0.8:
                k = rng.choice(subs)
                if rng.random() < 0.7:
                    subs.remove(k)
            else:
                k = (rng.randrange(2, 5), rng.choice([1, 2]), rng.choice([UNKNOWN_OID] + [oid_of(c[0], c[1]) for c in cfg]))
            events.append((('XN' if (fine and rng.random() < 0.6) else 'X'),) + k)
            sync_refs()
        elif r < 0.93:
            future = sorted(e for e in expiries if e > now)
            q = rng.random()
            if future and q < 0.6:
                e = rng.choice(future[:3])
                dt = e - now + rng.choice([0, 0, -1, 1, -8, 8, 3])
            elif q < 0.8:
                dt = rng.choice([1, 4, 7, 8, 9, 16])
            else:
                dt = rng.choice([8, 24, 80, 240, 480, 960, 961])
            if dt <= 0:
                dt = 1
            events.append(('A', dt))
            now += dt
            sync_refs()
        else:
            events.append(('RN' if (fine and rng.random() < 0.5) else 'R', rng.randrange(2, 5)))
            sync_refs()
    return events


def mk_case(cfg, events, kind, silent=()):
    obs = run_impl(cfg, events, silent)
    exp = canon_obs(obs)
    changes = sum(len(o['notifs']) for o in obs if o['ev'] in ('D', 'A', 'R', 'Q')) + \
        sum(max(0, len(o['notifs']) - 1) for o in obs if o['ev'] in ('S', 'X'))
    coq = 'run_canon %s %s' % (coq_cfg(cfg), coq_events(events))
    return Case(kind, coq, exp, key=(repr(cfg), repr(events), repr(sorted(silent))), nontrivial=changes >= 1,
                desc={'cfg': [list(c) for c in cfg], 'events': [list(e) for e in events], 'silent': sorted(silent)})


# ----------------------------------------------------------------------------- correspondence cases
def fixed_timelines():
    """hand-written timelines: the situations the theorems split on"""
    av = oid_of('analogValue', 1)
    pc = oid_of('pulseConverter', 1)
    bv = oid_of('binaryValue', 1)
    cfg = [('analogValue', 1, KINC, 0, 0, 40, 0), ('analogInput', 1, KINC, 0, 0, 4, 0), ('binaryValue', 1, KGEN, 0, 0, 0, 0),
           ('multiStateValue', 1, KGEN, 1, 0, 0, 0), ('pulseConverter', 1, KPULSE, 0, 0, 40, 3), ('calendar', 1, KNOCOV, 0, 0, 0, 0)]
    out = []
    # the two repaired defects: missing lifetime; renewal changes mode and lifetime (both directions)
    out.append((cfg, [('S', 2, 1, av, 1, None), ('W', 0, 'pv', 40), ('D',), ('R', 2)]))
    out.append((cfg, [('S', 2, 1, av, 0, 30), ('S', 2, 1, av, 1, 0), ('W', 0, 'pv', 40), ('D',), ('A', 320), ('W', 0, 'pv', 80),
                      ('D',), ('R', 3)]))
    out.append((cfg, [('S', 2, 1, av, 0, 0), ('S', 2, 1, av, 1, 60), ('W', 0, 'pv', 40), ('D',), ('R', 2), ('A', 480), ('W', 0, 'pv', 0),
                      ('D',), ('R', 2)]))
    # increment boundary, both sides, and the reset of the reference by another subscriber's initial notification
    out.append((cfg, [('S', 2, 1, av, 0, 0), ('W', 0, 'pv', 39), ('D',), ('W', 0, 'pv', 40), ('D',), ('W', 0, 'pv', 1), ('D',),
                      ('W', 0, 'pv', 0), ('D',), ('W', 0, 'pv', -39), ('D',), ('W', 0, 'pv', -40), ('D',)]))
    out.append((cfg, [('S', 2, 1, av, 0, 0), ('W', 0, 'pv', 32), ('D',), ('S', 3, 1, av, 1, 0), ('W', 0, 'pv', 48), ('D',),
                      ('W', 0, 'pv', 72), ('D',)]))
    # burst, return to the old value, flags, increment write
    out.append((cfg, [('S', 2, 1, av, 0, 0), ('W', 0, 'pv', 48), ('W', 0, 'pv', 0), ('D',), ('W', 0, 'pv', 48), ('W', 0, 'pv', 96),
                      ('D',), ('W', 0, 'fl', 4), ('D',), ('W', 0, 'fl', 4), ('D',), ('W', 0, 'inc', 4), ('D',), ('W', 0, 'pv', 100), ('D',)]))
    # expiry exactly at / one tick around the lifetime, cancel, cancel of nothing, unknown and unsupported objects
    for dt in (7, 8, 9):
        out.append((cfg, [('S', 2, 1, bv, 1, 1), ('S', 3, 2, bv, 0, 2), ('A', dt), ('W', 2, 'pv', 1), ('D',), ('R', 4), ('A', 8),
                          ('W', 2, 'pv', 0), ('D',), ('R', 4)]))
    out.append((cfg, [('X', 2, 1, av), ('W', 0, 'pv', 400), ('D',), ('S', 2, 1, av, 0, 5), ('X', 2, 1, av), ('W', 0, 'pv', 0), ('D',),
                      ('S', 2, 1, UNKNOWN_OID, 0, 5), ('S', 2, 1, oid_of('calendar', 1), 0, 5), ('X', 2, 1, UNKNOWN_OID), ('R', 2)]))
    # pulse converter: periodic notifications, period boundary coinciding with an expiry (both heap orders)
    out.append((cfg, [('S', 2, 1, pc, 0, 0), ('A', 80), ('W', 4, 'pv', 40), ('A', 24), ('X', 2, 1, pc), ('A', 80)]))
    for life in (1, 2, 3, 4):
        out.append((cfg, [('S', 2, 1, pc, 0, life), ('S', 3, 1, pc, 1, 60), ('A', 8), ('A', 8), ('A', 8), ('A', 8), ('R', 2)]))
        out.append((cfg, [('S', 3, 1, pc, 1, 60), ('S', 2, 1, pc, 0, life), ('A', 40), ('R', 2)]))
        out.append((cfg, [('S', 3, 1, pc, 1, 60), ('A', 1), ('S', 2, 1, pc, 0, life), ('S', 2, 1, pc, 0, life), ('A', 40), ('R', 2)]))
    # round 2: stepped deferred queue.  cancel overtaking the deferred initial notification (C16-F4), a stale _execute of a
    # detection that was dropped and re-created, subscribe between trigger and execute, lifetime without a mode (C16-F5)
    out.append((cfg, [('S', 2, 1, av, 0, 0), ('SN', 3, 1, av, 1, 0), ('XN', 3, 1, av), ('Q',), ('W', 0, 'pv', 40), ('D',)]))
    out.append((cfg, [('S', 2, 1, av, 0, 0), ('W', 0, 'pv', 40), ('XN', 2, 1, av), ('SN', 2, 1, av, 1, 9), ('W', 0, 'pv', 90),
                      ('Q',), ('W', 0, 'pv', 10), ('Q',), ('Q',), ('RN', 3), ('D',)]))
    out.append((cfg, [('S', 2, 1, av, 0, 0), ('W', 0, 'pv', 40), ('SN', 3, 1, av, 1, 0), ('Q',), ('Q',), ('W', 0, 'pv', 100),
                      ('W', 0, 'pv', 0), ('Q',), ('W', 0, 'pv', 50), ('D',)]))
    out.append((cfg, [('S', 4, 1, av, None, 30), ('R', 2), ('S', 4, 1, av, 1, 30), ('SN', 4, 1, av, None, 0, 'P'), ('D',), ('R', 2)]))
    # the per-object reference is reset by somebody else's initial notification (C16-F3): 2 ends three increments behind
    out.append((cfg, [('S', 2, 1, av, 0, 0), ('W', 0, 'pv', 32), ('S', 3, 1, av, 0, 0), ('W', 0, 'pv', 64), ('S', 3, 1, av, 0, 0),
                      ('W', 0, 'pv', 96), ('S', 3, 1, av, 0, 0), ('W', 0, 'pv', 120), ('D',)]))
    return out


def crowd_base(rng):
    """the subscribe phase of a crowd timeline: (cfg, keys, lifetimes, subscribe events)"""
    cfg = gen_cfg(rng, period=0)
    cov = [i for i, c in enumerate(cfg) if c[2] != KNOCOV]
    n = rng.randrange(9, 17)
    keys = rng.sample([(c, p, oid_of(cfg[i][0], cfg[i][1])) for c in (2, 3, 4) for p in (1, 2) for i in cov], n)
    pattern = rng.choice(['tree', 'tree', 'tree-mirror', 'desc', 'interleaved', 'random'])
    small = sorted(rng.sample(range(4, 60), n))
    big = sorted(rng.sample(range(90, 250), n))
    lifes = []
    if pattern in ('tree', 'tree-mirror'):
        # heap index k (scheduling order): the root early, then the left subtree late and the right one early (or mirrored)
        si, bi = 0, 0
        for k in range(n):
            side, j = None, k
            while j > 0:
                side = j
                j = (j - 1) // 2
            late = (side == 1) if pattern == 'tree' else (side == 2)
            if k > 0 and late:
                lifes.append(big[bi]); bi += 1
            else:
                lifes.append(small[si]); si += 1
    elif pattern == 'desc':
        lifes = sorted(rng.sample(range(4, 250), n), reverse=True)
    elif pattern == 'interleaved':
        for k in range(n):
            lifes.append(big[k // 2] if k % 2 == 0 else small[k // 2])
    else:
        lifes = rng.sample(range(4, 250), n)
    events = [('S', c, p, o, 1 if rng.random() < 0.15 else 0, life) for (c, p, o), life in zip(keys, lifes)]
    return cfg, keys, lifes, events


def crowd_tail(rng, cfg, keys, lifes, events, victims, land=None):
    """victims: [(index, op)] with op in 'cancel' | 'indefinite' | 'longer'; then ONE quiet jump across several expiries,
    changes on every subscribed object, a drain and a read of the active list"""
    events = list(events)
    lifes = list(lifes)
    n = len(keys)
    elapsed = 0
    if rng.random() < 0.5:
        elapsed = rng.choice([1, 8, 16, 24])
        events.append(('A', elapsed))
    removed = set()
    for k, op in victims:
        c, p, o = keys[k]
        if op == 'cancel':
            events.append(('X', c, p, o))
            removed.add(k)
        elif op == 'indefinite':
            events.append(('S', c, p, o, 0, rng.choice([0, None])))
            lifes[k] = 10 ** 6
        else:
            nl = rng.randrange(260, 400)
            events.append(('S', c, p, o, 0, nl))
            lifes[k] = nl
    alive = sorted(lifes[k] for k in range(n) if k not in removed and lifes[k] < 10 ** 6)
    if len(alive) >= 2:
        # land in the widest gap of the upper half of the expiries (between the early and the late cluster if there are two)
        gaps = [(alive[m + 1] - alive[m], m) for m in range(len(alive) // 3, len(alive) - 1)]
        if land is not None:
            m = min(land, len(alive) - 2)
        else:
            m = max(gaps)[1] if rng.random() < 0.7 else rng.randrange(0, len(alive) - 1)
        jump = alive[m] * TICKS - elapsed + rng.choice([1, 8, 20, 40])
    else:
        jump = 400
    events.append(('A', max(1, jump)))
    oi = {oid_of(c[0], c[1]): i for i, c in enumerate(cfg)}
    if rng.random() < 0.7:
        for o in sorted(set(o for (_, _, o) in keys)):
            i = oi[o]
            kind, t = cfg[i][2], cfg[i][0]
            if kind in (KINC, KPULSE):
                v = cfg[i][3] + 2 * cfg[i][5] + 7
            elif t == 'binaryValue':
                v = 1 - cfg[i][3]
            elif t == 'loadControl':
                v = (cfg[i][3] + 1) % 4
            else:
                v = cfg[i][3] % 5 + 1
            events.append(('W', i, 'pv', v))
        events.append(('D',))
    events.append(('R', rng.choice([2, 3, 4])))
    if rng.random() < 0.5:
        events.append(('A', rng.choice([16, 80, 400])))
        events.append(('R', rng.choice([2, 3, 4])))
    return events


def gen_crowd(rng):
    """many (9..16) concurrent subscriptions with distinct lifetimes, 1..3 renewals / cancellations of entries that are not the
    earliest ones (their timer sits below the root of the scheduler's heap), ONE long quiet jump across several expiries,
    then changes on every object and a read of the active list.  Lifetimes are laid out so that, in the order the expiry
    tasks are scheduled, whole subtrees of the heap hold late expiries and others early ones (level-order late/early,
    descending, interleaved): if the removal of a late entry does not repair the heap, an early one ends under a late
    parent and its expiry is not seen in time."""
    cfg, keys, lifes, events = crowd_base(rng)
    order = sorted(range(len(keys)), key=lambda k: lifes[k])
    victims = [(k, rng.choice(['cancel', 'cancel', 'indefinite', 'longer'])) for k in rng.sample(order[2:], rng.choice([1, 1, 2, 3]))]
    return cfg, crowd_tail(rng, cfg, keys, lifes, events, victims)


def gen_crowd_stairs(rng):
    """crowd with 2..4 removals and then a staircase of quiet jumps, each landing just behind the next expiry and followed by
    one read of the active list: an expiry task that got buried under a later one shows as a dead entry / negative time"""
    cfg, keys, lifes, events = crowd_base(rng)
    n = len(keys)
    lifes = list(lifes)
    events = list(events)
    order = sorted(range(n), key=lambda k: lifes[k])
    removed = set()
    for k in rng.sample(order[1:], rng.choice([2, 3, 4])):
        c, p, o = keys[k]
        op = rng.choice(['cancel', 'cancel', 'indefinite', 'longer'])
        if op == 'cancel':
            events.append(('X', c, p, o))
            removed.add(k)
        elif op == 'indefinite':
            events.append(('S', c, p, o, 0, rng.choice([0, None])))
            lifes[k] = 10 ** 6
        else:
            nl = rng.randrange(260, 400)
            events.append(('S', c, p, o, 0, nl))
            lifes[k] = nl
    alive = sorted(lifes[k] for k in range(n) if k not in removed and lifes[k] < 10 ** 6)
    now = 0
    for m in range(min(len(alive) - 1, rng.choice([3, 4, 5, 6]))):
        target = alive[m] * TICKS + rng.choice([1, 8, 12])
        if target <= now or target >= alive[m + 1] * TICKS:
            continue
        events.append(('A', target - now))
        now = target
        events.append(('R', rng.choice([2, 3, 4])))
    return cfg, events


def gen_rounds(rng):
    """whole notification rounds between quiescent instants on ONE object with 1..3 subscriptions (the setting of
    CovRound.v): each round is a single write or a burst within one instant followed by a drain.  Analog / pulse-converter
    writes are aimed at the TRUE reference (tracked exactly: the value of the last notification) at distance
    increment-1 / increment / increment+1 in both directions; bursts cross the increment with their first write and end
    on another value (so that the reported value, not the triggering one, must become the reference: the next rounds
    are aimed at both).  Between rounds, with some probability: a renewal that flips the notification mode (and
    changes the lifetime), or a LAPSE - the object loses all of its subscriptions (cancelled one by one, or the
    clock is moved past the last expiry) and is subscribed again, by the same key in the other mode or by a new one -
    after which the rounds go on."""
    cfg = gen_cfg(rng, period=0)
    analog = rng.random() < 0.7
    oi = rng.choice([0, 1, 4]) if analog else rng.choice([2, 3, 6])
    t = cfg[oi][0]
    oid = oid_of(t, cfg[oi][1])
    inc = cfg[oi][5]
    cur, flags = cfg[oi][3], cfg[oi][4]
    events = []
    subs = {}                    # key -> [conf, expiry tick or None]
    now = 0

    def sub(key, conf, life):
        events.append(('S', key[0], key[1], oid, conf, life) + (('P',) if rng.random() < 0.15 else ()))
        subs[key] = [1 if conf else 0, (now + life * TICKS) if life else None]

    def fresh_key():
        free = [(c, p) for c in (2, 3, 4) for p in (1, 2) if (c, p) not in subs]
        return rng.choice(free)

    def some_life(finite=False):
        return rng.choice([30, 60, 120] if finite else [None, 0, 30, 60, 120])

    for _ in range(rng.choice([1, 2, 2, 3])):
        sub(fresh_key(), rng.choice([0, 1]), some_life())
    ref = cur
    for _ in range(rng.randrange(3, 8)):
        q = rng.random()
        if q < 0.14 and subs:                                   # renewal flipping the mode
            key = rng.choice(sorted(subs))
            sub(key, 1 - subs[key][0], some_life())
            ref = cur
        elif q < 0.34 and subs:                                 # lapse: every subscription of the object ends
            old = dict(subs)
            finite = all(v[1] is not None for v in subs.values())
            if finite and rng.random() < 0.5:
                dt = max(v[1] for v in subs.values()) - now + rng.choice([0, 1, 8])
                events.append(('A', max(1, dt)))
                now += max(1, dt)
            else:
                for key in sorted(subs, key=lambda k: rng.random()):
                    events.append(('X', key[0], key[1], oid))
            subs.clear()
            if rng.random() < 0.3:                               # a change while nobody listens
                cur = cur + rng.choice([1, inc, 2 * inc + 1]) if analog else cur
                if analog:
                    events.append(('W', oi, 'pv', cur))
                    events.append(('D',))
            for _ in range(rng.choice([1, 1, 2])):
                if old and rng.random() < 0.6:
                    key = rng.choice(sorted(old))
                    conf = 1 - old.pop(key)[0]
                else:
                    key, conf = fresh_key(), rng.choice([0, 1])
                if key not in subs:
                    sub(key, conf, some_life())
            ref = cur
        # one round
        if analog:
            trig = False
            if rng.random() < 0.4:                               # burst: cross first, end elsewhere
                sgn = rng.choice([1, -1])
                vs = [ref + sgn * (inc + rng.choice([0, 1, 3]))]
                for _ in range(rng.choice([1, 1, 2, 3])):
                    vs.append(rng.choice([ref, ref + sgn * max(1, inc - 1), ref - sgn * (inc + 1), vs[0] + sgn * inc,
                                          vs[0] - sgn * max(1, inc // 2), ref + rng.randrange(-60, 61)]))
            else:
                d = rng.choice([inc - 1, inc, inc + 1, -(inc - 1), -inc, -(inc + 1), 0, 1, -1, 2 * inc + 3, rng.randrange(-60, 61)])
                vs = [ref + d]
                if rng.random() < 0.15:
                    vs.append(ref)                               # sub-increment excursion and back / return to the reference
            for v in vs:
                if not trig:
                    trig = abs(v - ref) >= inc
                cur = v
                events.append(('W', oi, 'pv', v))
            if rng.random() < 0.15:
                flags = rng.choice([0, 4, 8])
                events.append(('W', oi, 'fl', flags))
                trig = True                                      # close enough for aiming: the oracle does the judging
            events.append(('D',))
            if trig:
                ref = cur
        else:
            for _ in range(rng.choice([1, 1, 2, 3])):
                if rng.random() < 0.75:
                    cur = rng.randrange(2) if t == 'binaryValue' else (rng.randrange(4) if t == 'loadControl' else rng.randrange(1, 6))
                    events.append(('W', oi, 'pv', cur))
                else:
                    flags = rng.choice([0, 2, 4, 8, flags])
                    events.append(('W', oi, 'fl', flags))
            events.append(('D',))
    events.append(('R', rng.choice([2, 3, 4])))
    return cfg, events


def gen_any(rng, nmin=6, nmax=28):
    """(cfg, events, silent, kind): the mix of timeline families used by the correspondence and the direct check"""
    r = rng.random()
    fine = rng.random() < 0.5
    silent = ()
    if rng.random() < 0.15:
        silent = tuple(sorted(rng.sample([2, 3, 4], rng.choice([1, 1, 2]))))
    if r < 0.25:
        cfg = gen_cfg(rng, period=rng.choice([1, 2, 3, 7]))
        ev, kind = gen_timeline(rng, cfg, nmin, nmax, focus_obj=4, fine=fine), 'pulse'
    elif r < 0.5:
        cfg = gen_cfg(rng)
        ev, kind = gen_timeline(rng, cfg, nmin, nmax, focus_obj=rng.choice([0, 1]), fine=fine), 'analog'
    elif r < 0.65:
        cfg = gen_cfg(rng)
        ev, kind = gen_timeline(rng, cfg, nmin, nmax, focus_obj=rng.choice([2, 3, 6]), fine=fine), 'generic'
    else:
        cfg = gen_cfg(rng)
        ev, kind = gen_timeline(rng, cfg, nmin, nmax, fine=fine), 'mixed'
    return cfg, ev, silent, kind + ('-stepped' if fine else '') + ('-silent' if silent else '')


def cases(rng, tier):
    out = []
    for cfg, events in fixed_timelines():
        out.append(mk_case(cfg, events, 'fixed'))
    n = 6000 if tier == 'thorough' else 2000
    for k in range(n):
        cfg, ev, silent, kind = gen_any(rng)
        out.append(mk_case(cfg, ev, kind, silent))
    for k in range(240 if tier == 'thorough' else 60):
        cfg, ev = gen_crowd_stairs(rng) if k % 3 else gen_crowd(rng)
        out.append(mk_case(cfg, ev, 'crowd'))
    for k in range(400 if tier == 'thorough' else 120):
        cfg, ev = gen_rounds(rng)
        out.append(mk_case(cfg, ev, 'rounds'))
    return out


# ----------------------------------------------------------------------------- direct predicate
class Oracle:
    """Implementation-independent bookkeeping of who is subscribed and what changed, and the weakest reading of C16
    evaluated on the observations of one timeline.  Safety is judged per event (at the instant a notification is issued),
    completeness per *window* = the span between two instants at which no deferred COV function is pending.
    Where the statement leaves a choice the predicate accepts every choice:
      * the reference of the increment test may be the value last reported to this subscriber, to any subscriber of the
        object, or any value reported during the window;
      * writes within one window may count as one change, as their net effect, or one by one;
      * a change pending when the subscriber subscribes / cancels / renews / expires in the same window may or may not be reported;
      * a subscription whose lifetime ends exactly now may or may not still be served;
      * status-flag and increment writes on analog objects may or may not be reported; pulse converters with a covPeriod may
        additionally report once per period boundary;
      * time remaining may be rounded either way (0 only for an indefinite subscription or less than a second left).
    One check takes the subscriber's side only: at a quiescent instant no live subscriber may be left with a value that
    differs from the present value by two increments or more (every reading except "last value sent to anybody" bounds the
    difference by less than two increments)."""

    def __init__(self, cfg, silent=()):
        self.cfg = cfg
        self.silent = set(silent)
        self.vals = {i: [c[3], c[4], c[5]] for i, c in enumerate(cfg)}
        self.oi = {oid_of(c[0], c[1]): i for i, c in enumerate(cfg)}
        self.live = {}
        self.last_any = {}
        self.now = 0
        self.history = {}          # key -> 'cancelled' | 'expired'
        self.seq = 0
        self.new_window()

    def new_window(self):
        self.w_start_vals = {i: list(v) for i, v in self.vals.items()}
        self.w_start_live = {k: dict(v) for k, v in self.live.items() if self.status(k)}
        self.w_start_any = dict(self.last_any)
        self.w_writes = {}
        self.w_counts = {}
        self.w_subs = {}            # key -> acknowledged subscribes in the window
        self.w_gone = set()         # cancelled / expired / maybe-expired in the window
        self.w_reported = {}        # oid -> values reported in the window
        self.w_periods = {}         # oid -> period boundaries crossed
        self.w_t0 = self.now

    def status(self, k, t=None):
        """'live', 'maybe' (lifetime ends exactly now) or None"""
        t = self.now if t is None else t
        s = self.live.get(k)
        if s is None:
            return None
        if s['expiry'] is None or s['expiry'] > t:
            return 'live'
        return 'maybe' if s['expiry'] == t else None

    def note_write(self, ev, o):
        _, oi, prop, v = ev
        if o['ack'] != 0:
            return
        j = {'pv': 0, 'fl': 1, 'inc': 2}[prop]
        self.w_writes.setdefault(oi, []).append((prop, self.vals[oi][j], v))
        self.vals[oi][j] = v
        if prop == 'inc':
            for k, sub in self.live.items():
                if self.oi[k[2]] == oi:
                    sub['inc_written'] = True

    def change_info(self, oi):
        kind = self.cfg[oi][2]
        oid = oid_of(self.cfg[oi][0], self.cfg[oi][1])
        ws = self.w_writes.get(oi, [])
        pv0, fl0, inc0 = self.w_start_vals[oi]
        pvf, flf, incf = self.vals[oi]
        changed = [w for w in ws if w[1] != w[2]]
        if kind == KGEN:
            must = (pvf != pv0) or (flf != fl0)
            return (lambda last_to: must), (lambda last_to: bool(changed)), max(1, len(changed))
        incs = [inc0] + [w[2] for w in ws if w[0] == 'inc']
        inc_changed = any(w[0] == 'inc' and w[1] != w[2] for w in ws)
        fl_changed = any(w[0] == 'fl' and w[1] != w[2] for w in ws)
        pvw = [w[2] for w in ws if w[0] == 'pv']
        seq = [pv0] + pvw
        common = [r for r in [self.w_start_any.get(oid)] + self.w_reported.get(oid, []) if r is not None]

        def refs(last_to):
            return common + ([last_to] if last_to is not None else [])

        def must(last_to):
            rs = refs(last_to)
            return bool(rs) and bool(pvw) and (not inc_changed) and pvf != pv0 and all(abs(pvf - r) >= inc0 for r in rs)

        def may(last_to):
            if inc_changed or fl_changed:
                return True
            lo = min(incs)
            for i, v in enumerate(pvw):
                for r in refs(last_to) + seq[:i + 1]:
                    if abs(v - r) >= lo:
                        return True
            return False
        return must, may, max(1, len(pvw) + sum(1 for w in changed if w[0] != 'pv'))

    def check(self, ev, o):
        """ev is any event but a write, o its observation; returns failures"""
        fails = []
        k = ev[0]
        self.seq += 1

        def fail(kind, **kw):
            d = {'kind': kind, 'event': list(ev), 'at_ticks': self.now}
            d.update(kw)
            fails.append(d)

        if o['nerr']:
            fail('exception-in-stack', errors=o['errors'][:3])
        t_lo = self.now
        t_hi = self.now + (ev[1] if k == 'A' else 0)
        is_sub = k in ('S', 'SN')
        is_can = k in ('X', 'XN')
        ekey = tuple(ev[1:4]) if (is_sub or is_can) else None
        known = ekey is not None and ekey[2] in self.oi and self.cfg[self.oi[ekey[2]]][2] != KNOCOV
        if (is_sub or is_can) and known and o['ack'] != 1:
            fail('request-not-acknowledged', ack=o['ack'], code=o['code'])
        new_sub = None
        if is_sub and known and o['ack'] == 1:
            life = ev[5] or 0
            new_sub = {'conf': 1 if ev[4] else 0, 'keep_mode': ev[4] is None and ekey in self.live, 'life': life, 'expiry': (self.now + life * TICKS) if life else None,
                       'last_to': self.live.get(ekey, {}).get('last_to'), 'inc_written': False, 'others': 0}
        before = {key: self.status(key) for key in self.live if self.status(key)}
        allowed = dict(before)
        if new_sub is not None:
            allowed[ekey] = 'live'
        # ---- safety, per notification issued in this event
        for n in o['notifs']:
            key = n[:3]
            self.w_counts[key] = self.w_counts.get(key, 0) + 1
            if key not in allowed:
                fail('notified-while-not-subscribed', notification=list(n), previously=self.history.get(key, 'never subscribed'))
                continue
            versions = []
            if key in before:
                versions.append(self.live[key])
            if key == ekey and new_sub is not None:
                versions.append(new_sub)
            if n[3] not in [v['conf'] for v in versions] and not any(v.get('keep_mode') for v in versions):
                fail('wrong-notification-mode', notification=list(n), requested=[v['conf'] for v in versions])
            ok_t = False
            for v in versions:
                if v['expiry'] is None:
                    ok_t = ok_t or n[4] == 0
                else:
                    lo = max(0, (v['expiry'] - t_hi) // TICKS)
                    hi = max(1, -((t_lo - v['expiry']) // TICKS))
                    ok_t = ok_t or lo <= n[4] <= hi
            if not ok_t:
                fail('wrong-time-remaining', notification=list(n),
                     expiry_ticks=[v['expiry'] for v in versions], window=[t_lo, t_hi])
            oi = self.oi[key[2]]
            if (n[5], n[6]) != (self.vals[oi][0], self.vals[oi][1]):
                fail('stale-or-wrong-values', notification=list(n), current=self.vals[oi][:2])
        # ---- what was received against what was issued
        if 'received' in o:
            rec_ack = [n for n in o['received'] if n[0] not in self.silent]
            iss_ack = [n for n in o['notifs'] if n[0] not in self.silent]
            if sorted(rec_ack) != sorted(iss_ack):
                fail('received-differs-from-issued', issued=[list(n) for n in iss_ack], received=[list(n) for n in rec_ack])
        # ---- bookkeeping
        for n in o['notifs']:
            key = n[:3]
            val = self.vals[self.oi[key[2]]][0]
            self.last_any[key[2]] = val
            self.w_reported.setdefault(key[2], []).append(val)
            if key in self.live:
                self.live[key]['last_to'] = val
                self.live[key]['inc_written'] = False
                self.live[key]['others'] = 0
        if new_sub is not None:
            if any(n[:3] == ekey for n in o['notifs']):
                new_sub['last_to'] = self.vals[self.oi[ekey[2]]][0]
            for key2, sub2 in self.live.items():
                if key2 != ekey and key2[2] == ekey[2]:
                    sub2['others'] = sub2.get('others', 0) + 1
            self.live[ekey] = new_sub
            self.history.pop(ekey, None)
            self.w_subs[ekey] = self.w_subs.get(ekey, 0) + 1
        if is_can and known and o['ack'] == 1 and ekey in self.live:
            del self.live[ekey]
            self.history[ekey] = 'cancelled'
            self.w_gone.add(ekey)
        if k == 'A':
            for oi, c in enumerate(self.cfg):
                if c[2] == KPULSE and c[6]:
                    p8 = c[6] * TICKS
                    oid = oid_of(c[0], c[1])
                    self.w_periods[oid] = self.w_periods.get(oid, 0) + (T0_TICKS + t_hi) // p8 - (T0_TICKS + t_lo) // p8
            self.now += ev[1]
        for key in list(self.live):
            st = self.status(key)
            if st is None:
                del self.live[key]
                self.history[key] = 'expired'
                self.w_gone.add(key)
            elif st == 'maybe':
                self.w_gone.add(key)
        # ---- the active list
        if k in ('R', 'RN'):
            if o['active'] is None:
                fail('active-list-unreadable', ack=o['ack'], code=o['code'])
            else:
                seen = {}
                for a in o['active']:
                    key = a[:3]
                    seen[key] = seen.get(key, 0) + 1
                    stt = self.status(key)
                    if stt is None:
                        fail('active-list-shows-dead-subscription', entry=list(a), previously=self.history.get(key, 'never subscribed'))
                        continue
                    v = self.live[key]
                    if a[3] != v['conf'] and not v.get('keep_mode'):
                        fail('active-list-wrong-mode', entry=list(a), requested=v['conf'])
                    if v['expiry'] is None:
                        okt = a[4] == 0
                    else:
                        okt = max(0, (v['expiry'] - self.now) // TICKS) <= a[4] <= max(1, -((self.now - v['expiry']) // TICKS))
                    if not okt:
                        fail('active-list-wrong-time-remaining', entry=list(a), expiry_ticks=v['expiry'])
                for key, c in seen.items():
                    if c > 1:
                        fail('active-list-duplicate', subscriber=list(key), times=c)
                for key in self.live:
                    if self.status(key) == 'live' and key not in seen:
                        fail('active-list-misses-live-subscription', subscriber=list(key), listed=[list(a) for a in o['active']])
        # ---- completeness, at quiescence
        if o.get('pending', 0) == 0:
            fails += [dict(f, event=list(ev), at_ticks=self.now) for f in self.close_window()]
        return fails

    def close_window(self):
        fails = []
        info = {}
        keys = set(self.w_start_live) | set(self.w_subs) | set(self.w_counts)
        for key in sorted(keys):
            if key[2] not in self.oi:
                continue
            oi = self.oi[key[2]]
            if oi not in info:
                info[oi] = self.change_info(oi)
            must, may, maxn = info[oi]
            c = self.w_counts.get(key, 0)
            nsub = self.w_subs.get(key, 0)
            lo = hi = 0
            if key in self.w_start_live:
                last_to = self.w_start_live[key]['last_to']
                hi = maxn if may(last_to) else 0
                lo = 1 if must(last_to) else 0
                if key in self.w_gone or nsub or self.w_start_live[key]['expiry'] is not None and self.w_start_live[key]['expiry'] <= self.now:
                    lo = 0
                hi += self.w_periods.get(key[2], 0)
            elif nsub:
                hi = maxn if may(None) else 0
                hi += self.w_periods.get(key[2], 0)
            if nsub:
                hi += nsub
                if self.status(key) == 'live' and key not in self.w_gone:
                    lo = max(lo, 1)
            detail = dict(subscriber=list(key), got=c, writes=[list(w) for w in self.w_writes.get(oi, [])],
                          last_reported_to_subscriber=self.w_start_live.get(key, {}).get('last_to'),
                          last_reported_any=self.w_start_any.get(key[2]), increment=self.vals[oi][2])
            if c < lo:
                fails.append(dict(detail, kind='initial-notification-missing' if (nsub and not c) else 'change-not-notified', at_least=lo))
            if c > hi:
                fails.append(dict(detail, kind='notification-without-qualifying-change' if hi == 0 else 'too-many-notifications', at_most=hi))
        # the subscriber's side: nobody is left two increments behind
        for key, sub in self.live.items():
            oi = self.oi[key[2]]
            inc = self.vals[oi][2]
            if self.cfg[oi][2] in (KINC, KPULSE) and inc > 0 and self.status(key) == 'live' and sub['last_to'] is not None \
                    and not sub.get('inc_written') and abs(self.vals[oi][0] - sub['last_to']) >= 2 * inc:
                fails.append({'kind': 'subscriber-stale-by-two-increments', 'subscriber': list(key), 'told': sub['last_to'],
                              'present_value': self.vals[oi][0], 'increment': inc,
                              'other_subscribes_since_told': sub.get('others', 0)})
        self.new_window()
        return fails


T0_TICKS = int(T0) * TICKS


def judge(cfg, events, obs=None, silent=()):
    """evaluate the C16 predicate on one timeline; returns (failures, number of notifications)"""
    if obs is None:
        obs = run_impl(cfg, events, silent)
    orc = Oracle(cfg, silent)
    fails = []
    nchange = 0
    issued_silent, got = [], []
    for ev, o in zip(events, obs):
        got += o.get('received', [])
        if ev[0] == 'W':
            orc.note_write(ev, o)
            if o['notifs'] or o['nerr']:
                fails.append({'kind': 'notification-before-drain', 'event': list(ev)})
            continue
        fails += orc.check(ev, o)
        nchange += len(o['notifs'])
        issued_silent += [n for n in o['notifs'] if n[0] in orc.silent and n[3] == 1]
    if silent and obs and obs[-1]['ev'] == 'flush':
        # a subscriber that never acknowledges still gets every confirmed notification (retransmitted until the abort)
        got += obs[-1]['received']
        for n in issued_silent:
            if n not in got:
                fails.append({'kind': 'notification-to-silent-subscriber-lost', 'notification': list(n)})
    for f in fails:
        f['cfg'] = [list(c) for c in cfg]
        f['events'] = [list(e) for e in events]
        if silent:
            f['silent'] = sorted(silent)
    return fails, nchange


def shrink(cfg, events, kind, budget=150, silent=()):
    """greedy removal of events while a failure of the same kind remains"""
    cur = list(events)
    i = 0
    while i < len(cur) and budget > 0:
        cand = cur[:i] + cur[i + 1:]
        budget -= 1
        try:
            fs, _ = judge(cfg, cand, silent=silent)
        except Exception:
            fs = []
        if any(f['kind'] == kind for f in fs):
            cur = cand
        else:
            i += 1
    return cur


def direct(rng, tier, focus=()):
    failures, n, nontriv = [], 0, 0
    samples = []
    hist = {}

    def one(cfg, events, tag, silent=()):
        nonlocal n, nontriv
        n += 1
        fs, nchange = judge(cfg, events, silent=silent)
        if nchange:
            nontriv += 1
        hist[tag] = hist.get(tag, 0) + 1
        if fs:
            kinds = []
            for f in fs:
                if f['kind'] not in kinds:
                    kinds.append(f['kind'])
            for kd in kinds[:3]:
                if len(failures) >= 60:
                    break
                if sum(1 for f in failures if f['kind'] == kd) < 2:       # minimise the first two of each kind only
                    small = shrink(cfg, events, kd, silent=silent)
                    f2 = [f for f in judge(cfg, small, silent=silent)[0] if f['kind'] == kd]
                    failures.append(f2[0] if f2 else [f for f in fs if f['kind'] == kd][0])
                else:
                    failures.append([f for f in fs if f['kind'] == kd][0])
        return fs

    for cfg, events in fixed_timelines():
        one(cfg, events, 'fixed')
    samples.append({'direct': 'timeline judged by the oracle', 'events': [list(e) for e in fixed_timelines()[3][1]]})
    for d in focus:
        if isinstance(d, dict) and 'events' in d:
            cfg = [tuple(c) for c in d['cfg']]
            evs = [tuple(e) for e in d['events']]
            sil = tuple(d.get('silent', ()))
            one(cfg, evs, 'focus', sil)
            for _ in range(10):
                cut = [e for e in evs if rng.random() < 0.8]
                one(cfg, cut, 'focus', sil)
    total = 24000 if tier == 'thorough' else 4000
    for k in range(total):
        cfg, ev, silent, kind = gen_any(rng, nmin=8, nmax=34)
        one(cfg, ev, kind, silent)
    # crowds: 9..16 concurrent subscriptions, removals from the middle of the timer heap, quiet jumps across the expiries
    for k in range(2400 if tier == 'thorough' else 400):
        cfg, ev = gen_crowd_stairs(rng)
        one(cfg, ev, 'crowd-stairs')
    for k in range(900 if tier == 'thorough' else 150):
        cfg, ev = gen_crowd(rng)
        one(cfg, ev, 'crowd-jump')
    # whole rounds on one object: increment boundary against the true reference, bursts, mode-flipping renewals, lapses
    for k in range(3000 if tier == 'thorough' else 500):
        cfg, ev = gen_rounds(rng)
        one(cfg, ev, 'rounds')
    return failures, {'evaluations': n, 'distinct_nontrivial': nontriv, 'exhaustive': False, 'timelines': hist, 'samples': samples}


def classify(failure):
    # C16-F3: the per-object reference of the increment test was moved by somebody else's initial notification
    if failure.get('kind') == 'subscriber-stale-by-two-increments' and failure.get('other_subscribes_since_told', 0) >= 1:
        return 'C16-F3'
    return None


def replay(payload):
    import json
    import core
    f = payload.get('failure')
    if f is None:
        mc = [b.get('minimal_case') for b in payload.get('broken', []) if isinstance(b, dict) and b.get('minimal_case')]
        f = mc[0]['desc'] if mc else None
    if not f:
        print('nothing to replay:', payload.get('broken'))
        return
    cfg = [tuple(c) for c in f['cfg']]
    events = [tuple(e) for e in f['events']]
    silent = tuple(f.get('silent', ()))
    obs = run_impl(cfg, events, silent)
    print('configuration:', cfg, 'silent subscribers:', silent)
    for e, o in zip(events, obs):
        print(' ', e, '-> ack', o['ack'], o['code'], 'issued', o['notifs'], 'received', o['received'], 'pending', o['pending'], 'active', o['active'], o['errors'] or '')
    fs, _ = judge(cfg, events, obs, silent)
    for x in fs:
        print('PREDICATE FAILS:', json.dumps({k: v for k, v in x.items() if k not in ('cfg', 'events')}))
    got, err = core.coq_eval(COQ_IMPORTS, 'run_canon %s %s' % (coq_cfg(cfg), coq_events(events)))
    print('implementation (canonical):', canon_obs(obs))
    print('model          (canonical):', got if got is not None else err)
