"""C18 — addresses parse, print, compare and hash coherently in every notation.
Correspondence (model coq/theories/Addr.v vs pdu.Address and the typed constructors) and the direct,
implementation-only predicate (independent reading of the notations + the standard ipaddress module)."""
import ipaddress, itertools, logging, re
from core import Case, nlist
from pyerr import canon_call, exc_code

PROP = 'C18'
COQ_TARGETS = ['theories/AddrFacts.vo', 'theories/AddrParse.vo', 'theories/AddrOld.vo', 'theories/AddrEntry.vo', 'theories/AddrIp.vo',
               'theories/AddrWild.vo']
COQ_IMPORTS = 'From Bac Require Import Base Addr.'
RULE = ('cases: grammar-generated address texts over every notation (station 0..255 all, x networks {0,1,65533,65534,65535,65536,99999}; '
        'dotted quads over boundary octets x mask lengths 0..33,99 x ports {0,1,47807,47808,47823,47824,65535,65536,70000}; 0x / X\'\' octet '
        'strings of length 1..7 with optional network; ethernet; @route suffixes; trailing newline; leading zeros / octal parts), the int / '
        'bytes / bytearray / (host, port) tuple / two-argument / typed constructors, each observed as (type, net, octets, addrLen, route, IP '
        'attributes, str(), _tuple() under both route_aware settings); str() re-parsed; pairs from a pool of equivalent spellings compared '
        'with == both ways and by _tuple(); every constructor x argument type (int / bytes / bytearray / hex text) x octet-string length 1..8 with the '
        'last two octets on and next to 0xBAC0..0xBACF, observed and re-parsed from str(); == against un-coerced arguments; pack/unpack_ip_addr; random and single-character-mutated '
        'strings; ARGUMENT-TYPE grid for the two wildcard tests that precede the type dispatch: octet strings (bytes and bytearray) that spell a textual notation in ASCII '
        '("*", "*:*", "5", "5:*", "0x2a", "1.2.3.4" ... and a sample of the text stream) and every one-octet string 0..255 through Address(x), Address(net, x), '
        'LocalStation(x), RemoteStation(net, x); texts wrapped in white space / control characters / other case (" *", "*\\t", "*:* ", "0X01", "x\'01\'"); Address objects '
        '(broadcasts with and without route, stations, null) as constructor arguments; PROCESS histories on never-seen texts (random 3..7-octet hex / X\'\' / IP:port texts): '
        'Address(net, t) before Address(t), an object re-decoded or modified before the same text is parsed again, each construction observed when it is made.  non-trivial = the implementation accepts the input, or the input is a mutated/random string of length >= 1, or a '
        'range-edge refusal; distinct by (operation, input).  direct: distinct constructor calls whose denotation the statement fixes '
        '(accepted with the denoted fields, or refused), plus distinct ordered pairs of pool objects compared with == / hash / dict.')
TRUSTED = ['model coq/theories/Addr.v written by hand after pdu.py:32-607 (regex cascade re-expressed as a splitting parser); tie = correspondence',
           'CPython re, int(), socket.inet_aton/inet_ntoa (glibc octal rule), binascii, struct: modelled in Addr.v, pinned by correspondence only',
           'direct check: independent reading of the notations in harness/props/c18.py (spec_parse) + the standard ipaddress module']
ASSUMPTIONS = ['address texts are ASCII (Python\'s \\d and int() also accept non-ASCII decimal digits; not modelled, not generated)',
               'pdu.netifaces is None (interface-name notation unavailable in this environment; asserted at run time)',
               'digit runs shorter than CPython\'s 4300-digit int() limit',
               '(host, port) tuples: host is \'\', an int, or a \\d+.\\d+.\\d+.\\d+ text (other inet_aton spellings not modelled)',
               'equivalence / hash laws are for route-free addresses (the property lists no @route notation); the route rule of __eq__ is modelled and its non-transitivity is exhibited by C18_eq_routes_not_transitive_refuted',
               'raw octet strings of length 0 are accepted by Address(b\'\') but cannot be printed (struct.error); outside the property\'s 1..7 octets']

NETS = [0, 1, 65533, 65534, 65535, 65536, 99999]
PORTS = [0, 1, 47807, 47808, 47823, 47824, 65535, 65536, 70000]
OCTS = [0, 1, 9, 10, 99, 100, 127, 128, 254, 255]
MASKS = list(range(0, 34)) + [99]


def _pdu():
    import bacpypes.pdu as P
    assert P.netifaces is None, 'netifaces present: interface-name notation not modelled'
    logging.getLogger('bacpypes.pdu').setLevel(logging.ERROR)     # "route provided but not route aware"
    logging.getLogger('bacpypes.pdu.Address').setLevel(logging.ERROR)
    return P


# ---------------------------------------------------------------- specs: how an address is constructed
# arg:  ('int', z) ('bytes', b) ('bytearray', b) ('str', s) ('tup', host(str|int), port) ('other', name)
#       ('addr', ctor) = an Address object built by `ctor` passed as the argument
# ctor: ('A0',) ('A1', arg) ('A2', net, arg) ('LS', arg) ('RS', net, arg) ('LB',) ('RB', net) ('GB',)
OTHERS = {'float': 1.5, 'none': None, 'list': [1, 2]}


def pyarg(a):
    k = a[0]
    if k == 'int': return a[1]
    if k == 'bytes': return bytes(a[1])
    if k == 'bytearray': return bytearray(a[1])
    if k == 'str': return a[1]
    if k == 'tup': return (a[1], a[2])
    if k == 'other': return OTHERS[a[1]]
    if k == 'addr': return build(a[1])
    raise AssertionError(a)


def z(v):
    return '(%d)' % v if v < 0 else str(v)


def coqstr(s):
    return nlist([ord(c) for c in s])


def coqarg(a):
    k = a[0]
    if k == 'int': return '(AInt %s)' % z(a[1])
    if k in ('bytes', 'bytearray'): return '(ABytes %s)' % nlist(list(a[1]))
    if k == 'str': return '(AStr %s)' % coqstr(a[1])
    if k == 'tup':
        h = '(HStr %s)' % coqstr(a[1]) if isinstance(a[1], str) else '(HInt %s)' % z(a[1])
        return '(ATuple %s %s)' % (h, z(a[2]))
    if k == 'other': return 'AOther'
    if k == 'addr': return '(arg_of %s)' % coqctor(a[1])
    raise AssertionError(a)


def build(spec):
    P = _pdu()
    k = spec[0]
    if k == 'A0': return P.Address()
    if k == 'A1': return P.Address(pyarg(spec[1]))
    if k == 'A2': return P.Address(spec[1], pyarg(spec[2]))
    if k == 'LS': return P.LocalStation(pyarg(spec[1]))
    if k == 'RS': return P.RemoteStation(spec[1], pyarg(spec[2]))
    if k == 'LB': return P.LocalBroadcast()
    if k == 'RB': return P.RemoteBroadcast(spec[1])
    if k == 'GB': return P.GlobalBroadcast()
    raise AssertionError(spec)


def coqctor(spec):
    k = spec[0]
    if k == 'A0': return '(Ok null_addr)'
    if k == 'A1': return '(address1 %s)' % coqarg(spec[1])
    if k == 'A2': return '(address2 %s %s)' % (z(spec[1]), coqarg(spec[2]))
    if k == 'LS': return '(local_station %s)' % coqarg(spec[1])
    if k == 'RS': return '(remote_station %s %s)' % (z(spec[1]), coqarg(spec[2]))
    if k == 'LB': return '(Ok local_broadcast)'
    if k == 'RB': return '(remote_broadcast %s)' % z(spec[1])
    if k == 'GB': return '(Ok global_broadcast)'
    raise AssertionError(spec)


def jspec(spec):
    """JSON-able form of a spec (bytes -> hex) and back"""
    def ja(a):
        if a[0] in ('bytes', 'bytearray'): return [a[0], bytes(a[1]).hex()]
        if a[0] == 'addr': return ['addr', jspec(a[1])]
        return list(a)
    return [ja(x) if isinstance(x, tuple) else x for x in spec]


def unjspec(j):
    def ua(a):
        if a[0] in ('bytes', 'bytearray'): return (a[0], bytes.fromhex(a[1]))
        if a[0] == 'addr': return ('addr', unjspec(a[1]))
        return tuple(a)
    return tuple(ua(x) if isinstance(x, list) else x for x in j)


# ---------------------------------------------------------------- canonical observation of an Address
def coz(v):
    if v is None: return [0]
    if isinstance(v, int) and not isinstance(v, bool): return [1, v]
    return [9, 9, 9]


def cstr(s):
    return [len(s)] + [ord(c) for c in s]


def col(b):
    if b is None: return [-1]
    if not isinstance(b, bytes): return [-8]
    return [len(b)] + list(b)


def cmac(b, l):
    if b is None:
        return [-1] if l is None else [-2]
    if not isinstance(b, bytes): return [-8]
    return [l if isinstance(l, int) else -3] + list(b)


def croute(r):
    P = _pdu()
    if r is None: return [-1]
    if isinstance(r, P.Address) and r.addrType == 2 and r.addrNet is None and r.addrRoute is None and isinstance(r.addrAddr, bytes):
        return col(r.addrAddr)
    return [-9]


IPATTRS = ('addrIP', 'addrMask', 'addrHost', 'addrSubnet', 'addrPort', 'addrTuple', 'addrBroadcastTuple')


def cip(x):
    have = [a for a in IPATTRS if a in x.__dict__]
    if not have: return [0]
    if len(have) != len(IPATTRS): return [-9]
    out = [1, x.addrIP, x.addrMask] + coz(x.addrHost) + coz(x.addrSubnet) + [x.addrPort]
    t, b = x.addrTuple, x.addrBroadcastTuple
    if not (isinstance(t, tuple) and isinstance(b, tuple) and t[1] == x.addrPort and b[1] == x.addrPort):
        return out + [-9]
    return out + cstr(t[0]) + cstr(b[0])


def ctuple(t):
    ty, net, mac, rt = t
    if rt is None: r = [-1]
    elif isinstance(rt, tuple) and rt[0] == 2 and rt[1] is None and rt[3] is None: r = col(rt[2])
    else: r = [-9]
    return [ty] + coz(net) + col(mac) + r


def tuples_of(x):
    from bacpypes.settings import settings
    out = []
    try:
        for ra in (False, True):
            settings.route_aware = ra
            out.append(x._tuple())
    finally:
        settings.route_aware = False
    return out


def canon_addr(x):
    out = [x.addrType] + coz(x.addrNet) + cmac(x.addrAddr, x.addrLen) + croute(x.addrRoute) + cip(x)
    out += canon_call(lambda: str(x), cstr)
    for t in tuples_of(x):
        out += ctuple(t)
    return out


def impl_addr(spec):
    return canon_call(lambda: build(spec), canon_addr)


def impl_addr_of(x, err):
    return [1, exc_code(err)] if x is None else [0] + canon_addr(x)


def impl_reparse(spec):
    P = _pdu()
    return canon_call(lambda: P.Address(str(build(spec))), canon_addr)


def run_history(start, args):
    """one object: built by `start`, then decode_address(x) for every x of args; refusals of all but the last are swallowed"""
    a = build(start)
    for x in args[:-1]:
        try:
            a.decode_address(pyarg(x))
        except Exception:
            pass
    a.decode_address(pyarg(args[-1]))
    return a


def canon_hist(a, last):
    """like canon_addr, but the IP helper attributes are observed only if the last notation sets them
    (decode_address does not reset them: after an IP notation they stay on the object)"""
    P = _pdu()
    out = [a.addrType] + coz(a.addrNet) + cmac(a.addrAddr, a.addrLen) + croute(a.addrRoute)
    out += cip(a) if 'addrIP' in P.Address(pyarg(last)).__dict__ else [0]
    out += canon_call(lambda: str(a), cstr)
    for t in tuples_of(a):
        out += ctuple(t)
    return out


def impl_hist(start, args):
    return canon_call(lambda: run_history(start, args), lambda a: canon_hist(a, args[-1]))


def impl_cmp(sa, sb):
    try:
        a, b = build(sa), build(sb)
    except Exception:
        return [-1]
    ta, tb = tuples_of(a), tuples_of(b)
    return [int(bool(a == b)), int(bool(b == a)), int(ta[0] == tb[0]), int(ta[1] == tb[1])]


def impl_eq_coerce(sa, arg):
    return canon_call(lambda: build(sa) == pyarg(arg), lambda r: [int(bool(r))])


def impl_pack(host, port):
    P = _pdu()
    return canon_call(lambda: P.pack_ip_addr((host, port)), lambda b: [len(b)] + list(b))


def impl_unpack(b):
    P = _pdu()
    t = P.unpack_ip_addr(b)
    return cstr(t[0]) + [t[1]]


# ---------------------------------------------------------------- cases
def _nontriv(exp, spec, kind):
    return exp[0] == 0 or kind in ('mutated', 'random', 'edge')


def case_addr(spec, kind):
    exp = impl_addr(spec)
    return Case(kind, 'canon_addr_r %s' % coqctor(spec), exp, key=('addr', repr(spec)), nontrivial=_nontriv(exp, spec, kind),
                desc={'op': 'construct', 'spec': jspec(spec)})


def case_reparse(spec):
    exp = impl_reparse(spec)
    return Case('reparse', 'canon_addr_r (reparse %s)' % coqctor(spec), exp, key=('reparse', repr(spec)), nontrivial=exp[0] == 0,
                desc={'op': 'reparse', 'spec': jspec(spec)})


def case_cmp(sa, sb):
    exp = impl_cmp(sa, sb)
    return Case('cmp', 'canon_cmp %s %s' % (coqctor(sa), coqctor(sb)), exp, key=('cmp', repr(sa), repr(sb)), nontrivial=exp != [-1],
                desc={'op': 'cmp', 'a': jspec(sa), 'b': jspec(sb)})


def case_eqc(sa, arg):
    exp = impl_eq_coerce(sa, arg)
    return Case('eq-coerce', 'canon_bool_r (eq_coerce %s %s)' % (coqctor(sa), coqarg(arg)), exp, key=('eqc', repr(sa), repr(arg)),
                nontrivial=exp[0] == 0, desc={'op': 'eq-coerce', 'a': jspec(sa), 'arg': jspec((arg,))[0]})


def case_hist(start, args):
    exp = impl_hist(start, args)
    hist = '[' + ';'.join(coqarg(a) for a in args[:-1]) + ']'
    return Case('history', 'canon_addr_r (decode_on %s %s)' % (hist, coqarg(args[-1])), exp, key=('hist', repr(start), repr(args)),
                nontrivial=exp[0] == 0, desc={'op': 'history', 'start': jspec(start), 'args': jspec(tuple(args))})


def case_pack(host, port):
    exp = impl_pack(host, port)
    return Case('pack', 'canon_pack (pack_ip_addr %s %s)' % (coqstr(host), z(port)), exp, key=('pack', host, port), nontrivial=exp[0] == 0,
                desc={'op': 'pack', 'host': host, 'port': port})


def case_unpack(b):
    exp = impl_unpack(b)
    return Case('unpack', 'canon_unpack (unpack_ip_addr %s)' % nlist(list(b)), exp, key=('unpack', bytes(b)), nontrivial=True,
                desc={'op': 'unpack', 'octets': bytes(b).hex()})


def S(s):
    return ('A1', ('str', s))


def hexs(b, upper=False):
    h = bytes(b).hex()
    return h.upper() if upper else h


def rnd_octets(rng, n):
    return bytes(rng.choice([0, 1, 127, 128, 254, 255, rng.randrange(256), rng.randrange(256)]) for _ in range(n))


def ip_texts(rng, tier):
    """(text, quad, masklen|None, port|None) over boundary octets x masks x ports"""
    out = []
    quads = [(0, 0, 0, 0), (255, 255, 255, 255), (1, 2, 3, 4), (192, 168, 0, 255), (10, 0, 0, 1), (127, 255, 128, 0)]
    quads += [tuple(rng.choice(OCTS) for _ in range(4)) for _ in range(3 if tier == 'quick' else 40)]
    for q in quads:
        qs = '.'.join(str(x) for x in q)
        out.append((qs, q, None, None))
        for m in MASKS:
            out.append(('%s/%d' % (qs, m), q, m, None))
        for p in PORTS:
            out.append(('%s:%d' % (qs, p), q, None, p))
        for _ in range(8 if tier == 'quick' else 60):
            m, p = rng.choice(MASKS), rng.choice(PORTS + [rng.randrange(65536)])
            out.append(('%s/%d:%d' % (qs, m, p), q, m, p))
    return out


ALPHABET = "0123456789:*./@xX'abcdefABF \n-"


def mutate(rng, s):
    k = rng.randrange(len(s) + 1)
    how = rng.randrange(4)
    if how == 0 and s:
        k = min(k, len(s) - 1)
        return s[:k] + s[k + 1:]
    if how == 1:
        return s[:k] + rng.choice(ALPHABET) + s[k:]
    if how == 2 and s:
        k = min(k, len(s) - 1)
        return s[:k] + rng.choice(ALPHABET) + s[k + 1:]
    if s:
        k = min(k, len(s) - 1)
        return s[:k] + s[k] + s[k:]
    return rng.choice(ALPHABET)


def valid_texts(rng, tier):
    """mostly-valid address texts over every notation"""
    out = []
    out += ['*', '*:*']
    for s in range(256):
        out.append(str(s))
    for s in [256, 257, 300, 999, 65535, 00, 1000000]:
        out.append(str(s))
    for n in NETS:
        out.append('%d:*' % n)
        for s in ([0, 1, 9, 10, 99, 100, 254, 255, 256, 1000] if tier == 'quick' else list(range(256)) + [256, 1000]):
            out.append('%d:%d' % (n, s))
    for s in range(256):       # every station number behind a network
        out.append('%d:%d' % (rng.choice([1, 7, 65534]), s))
    for l in range(1, 8):
        for _ in range(4 if tier == 'quick' else 20):
            b = rnd_octets(rng, l)
            up = rng.random() < 0.4
            out.append('0x' + hexs(b, up))
            out.append("X'" + hexs(b, up) + "'")
            n = rng.choice(NETS + [5, 100])
            out.append('%d:0x%s' % (n, hexs(b, up)))
            out.append("%d:X'%s'" % (n, hexs(b, up)))
    # six octets that print as dotted quads
    for p in [47807, 47808, 47809, 47823, 47824]:
        b = bytes([10, 1, 2, 3, p >> 8, p & 255])
        out += ['0x' + hexs(b), '9:0x' + hexs(b), "X'" + hexs(b) + "'"]
    for t, q, m, p in ip_texts(rng, tier):
        out.append(t)
        if rng.random() < 0.25:
            out.append('%d:%s' % (rng.choice(NETS + [5]), t))
    # leading zeros, octal parts, odd spellings
    out += ['007', '0255', '0256', '00000000000000000000005', '010.1.1.1', '08.1.1.1', '0377.1.1.1', '0400.1.1.1', '00.00.00.00',
            '1.2.3.0010', '1.2.3.4/032', '1.2.3.4/033', '1.2.3.4:047808', '1.2.3.4:0', '0001:0002', '065535:1', '065534:1',
            '256.1.1.1', '1.256.1.1', '1.1.256.1', '1.1.1.256', '99999999999999999999.1.1.1', '1.2.3', '1.2.3.4.5', '1.2.3.4/', '1.2.3.4:',
            '1.2.3.4/24/24', '1.2.3.4:1:1', '1.2.3.4:5/6', '0x', '0x1', '0x123', '0X01', '0x0g', "X'", "X''", "X'1'", "X'01", "x'01'", "X'0102'x",
            '1:', ':1', ':', '', '1:2:3', '0x01:5', '*:5', '*:0x01', '*:1.2.3.4', '5:*:*', '**', '*:', ':*', '1:*:', ' 5', '5 ', '-1', '+5', '1:-1',
            '5\n', '*\n', '*:*\n', '1:*\n', '1.2.3.4\n', "X'01'\n", "2:X'0102'\n", '5\n\n', '\n', '\n5', '0x0102\n', '01:02:03:04:05:06\n',
            '01:02:03:04:05:06', 'aa:BB:cc:DD:ee:FF', '01:02:03:04:05', '01:02:03:04:05:06:07', '01:02:03:04:05:0', '01-02-03-04-05-06', '1:2:3:4:5:6',
            'Null', 'lo', 'eth0', 'eth0:47808', 'abc', '1.2.3.4x', 'x1.2.3.4', '1..2.3', '.1.2.3.4', '1.2.3.4.', '1.2.3.4/24:', '1:1.2.3.4/24:1']
    # routes
    for body in ['5', '0x0102', '1:5', '1:*', '*', '*:*', '1.2.3.4', '2:1.2.3.4:47809', '1.2.3.4/24']:
        for r in ['6', '255', '256', '0x0a0b', '0x1', '1.2.3.4', '1.2.3.4:47809', '1.2.3.4:65536', '1.2.3.4/24', '256.1.1.1', '*', '', '1:5', '6@7']:
            out.append(body + '@' + r)
    return out


# ---- argument-type grid: the tests `addr == "*"` / `addr == "*:*"` precede the dispatch on the argument's type
SPELL = ['*', '*:*', '*\n', '*:*\n', ' *', '* ', '**', '*:', ':*', '*:*:', '*:*\x00', '*@5', '*:*@5', '5', '42', '255', '256', '007', '5:*', '0:*', '65535:*',
         '5:7', '*:5', '5@6', '0x2a', '0x2A', '0x0102', "X'2a'", "X'2A'", '1.2.3.4', '1.2.3', '1.2.3.4:1', '1:2:3', 'Null', 'lo', '\n', ' ', ':', '@', '.']


def text_octets(rng, tier, texts):
    """octet strings that SPELL a textual notation in ASCII: raw octets are a station notation of their own and must never be
    read as text (b'*' is the one-octet station 0x2A, b'*:*' the three-octet station 0x2A3A2A)"""
    out = [t.encode('latin-1') for t in SPELL]
    short = sorted({t for t in texts if 1 <= len(t) <= 8 and all(ord(c) < 256 for c in t)})
    out += [t.encode('latin-1') for t in rng.sample(short, min(len(short), 30 if tier == 'quick' else 400))]
    seen, res = set(), []
    for b in out:
        if b not in seen:
            seen.add(b); res.append(b)
    return res


def octet_ctors(b, nets=(9,)):
    """every entry point that takes raw octets x bytes / bytearray"""
    sp = []
    for k in ('bytes', 'bytearray'):
        sp += [('A1', (k, b)), ('LS', (k, b))]
        for n in nets:
            sp += [('A2', n, (k, b)), ('RS', n, (k, b))]
    return sp


WRAPS = [' ', '\t', '\r', '\x0b', '\x0c', '\x00', '\r\n', '\n', '  ']
WRAP_BASE = ['*', '*:*', '5', '5:*', '5:7', '0x0102', '0x0a', "X'0a'", "5:X'0a'", '1.2.3.4', '1.2.3.4/24:47809', '5:0x0a', '01:02:03:04:05:0a']


def wrapped_texts(rng, tier, texts):
    """valid texts with surrounding / inner white space and control characters, and in the other letter case"""
    base = WRAP_BASE + rng.sample([t for t in texts if t], 8 if tier == 'quick' else 100)
    out = []
    for t in base:
        for w in WRAPS:
            out += [w + t, t + w]
        out += [t.upper(), t.lower(), t.swapcase(), t.replace(':', ' :'), t.replace(':', ': '), t + t, t + ':' + t]
    seen, res = set(), []
    for t in out:
        if t not in seen:
            seen.add(t); res.append(t)
    return res


# Address objects as constructor arguments (an object that == a broadcast is accepted, see Addr.v decode_address)
ADDR_OBJECTS = [('LB',), ('GB',), ('A1', ('str', '*')), ('A1', ('str', '*:*')), ('A1', ('str', '*@5')), ('A1', ('str', '*:*@5')), ('A1', ('str', '*@1.2.3.4')),
                ('RB', 5), ('A2', 5, ('str', '*')), ('LS', ('int', 42)), ('A1', ('str', '5')), ('A1', ('bytes', b'*')), ('A1', ('bytes', b'*:*')),
                ('RS', 5, ('int', 42)), ('A0',), ('A1', ('str', '1.2.3.4')), ('A1', ('str', '5:*@6'))]


def addr_arg_specs():
    out = []
    for o in ADDR_OBJECTS:
        a = ('addr', o)
        out += [('A1', a), ('A2', 9, a), ('A2', 65535, a), ('LS', a), ('RS', 9, a)]
    out += [('A1', ('addr', ('A1', ('addr', ('LB',))))), ('A2', 7, ('addr', ('A1', ('addr', ('GB',)))))]
    return out


# ---- process histories: constructions (and modifications of the objects built) that precede a construction in the same process
def fresh_text(rng):
    """a local-station text that has practically never been parsed before in this process (3..7 random octets / random IP and port)"""
    k = rng.randrange(6)
    b = bytes(rng.randrange(256) for _ in range(rng.randrange(3, 8)))
    if k == 0: return '0x' + b.hex()
    if k == 1: return "X'" + b.hex().upper() + "'"
    if k == 2: return "X'" + b.hex() + "'"
    q = '.'.join(str(rng.randrange(1, 256)) for _ in range(4))
    if k == 3: return '%s:%d' % (q, rng.randrange(1024, 65536))
    if k == 4: return '%s/%d:%d' % (q, rng.randrange(33), rng.randrange(1024, 65536))
    return '0x' + b.hex().upper()


def sequences(rng, tier, count):
    """step lists: ('new', ctor) builds and observes an object; ('redecode', i, arg) calls decode_address(arg) on the i-th object
    built; ('set', i, field, value) assigns one of its fields (what the two-argument constructor does to itself)"""
    others = [('str', '7'), ('str', '5:*'), ('str', '*'), ('int', 9), ('str', '6:0x0102@9'), ('bytes', b'\x01\x02'), ('str', 'bad'), ('str', '5:256')]
    out = []
    for i in range(count):
        t = ('str', fresh_text(rng))
        n1, n2 = rng.sample([0, 1, 5, 9, 65534], 2)
        k = i % 7
        if k == 0: st = [('new', ('A2', n1, t)), ('new', ('A1', t)), ('new', ('A2', n2, t)), ('new', ('A1', t))]
        elif k == 1: st = [('new', ('A1', t)), ('new', ('A2', n1, t)), ('new', ('A1', t)), ('new', ('A2', n2, t))]
        elif k == 2: st = [('new', ('A1', t)), ('redecode', 0, rng.choice(others)), ('new', ('A1', t)), ('new', ('A2', n1, t))]
        elif k == 3: st = [('new', ('A1', t)), ('set', 0, rng.choice(['addrNet', 'addrType', 'addrAddr', 'addrRoute'])), ('new', ('A1', t)), ('new', ('A2', n1, t))]
        elif k == 4: st = [('new', ('A2', rng.choice([65535, -1, 70000]), t)), ('new', ('A2', n1, t)), ('new', ('A1', t))]
        elif k == 5:
            r = ('str', '%d:%s' % (n1, t[1]))          # a remote text, then the object is re-used for something else
            st = [('new', ('A1', r)), ('redecode', 0, rng.choice(others)), ('new', ('A1', r)), ('new', ('A1', t))]
        else:
            m = bytes(rng.randrange(256) for _ in range(rng.randrange(1, 8)))
            kind = rng.choice(['bytes', 'bytearray'])
            st = [('new', ('A2', n1, (kind, m))), ('new', ('A1', (kind, m))), ('new', ('LS', (kind, m))), ('redecode', 2, rng.choice(others)),
                  ('new', ('LS', (kind, m))), ('new', ('RS', n2, (kind, m)))]
        out.append(st)
    return out


SET_VALUES = {'addrNet': 7, 'addrType': 4, 'addrAddr': b'\xee', 'addrRoute': None}


def jsteps(steps):
    out = []
    for st in steps:
        if st[0] == 'new': out.append(['new', jspec(st[1])])
        elif st[0] == 'redecode': out.append(['redecode', st[1], jspec((st[2],))[0]])
        else: out.append(list(st))
    return out


def unjsteps(j):
    out = []
    for st in j:
        if st[0] == 'new': out.append(('new', unjspec(st[1])))
        elif st[0] == 'redecode': out.append(('redecode', st[1], unjspec([st[2]])[0]))
        else: out.append(tuple(st))
    return out


def run_steps(steps, on_new):
    """run a process history; on_new(index of step, ctor, object or None, exception or None) at every construction.
    Returns the objects built (None where refused) and the set of indices of objects modified afterwards."""
    P = _pdu()
    objs, touched = [], set()
    for i, st in enumerate(steps):
        if st[0] == 'new':
            try:
                x, err = build(st[1]), None
            except Exception as e:
                x, err = None, e
            objs.append(x)
            on_new(i, st[1], x, err)
        elif objs[st[1]] is not None:
            touched.add(st[1])
            if st[0] == 'redecode':
                try:
                    objs[st[1]].decode_address(pyarg(st[2]))
                except Exception:
                    pass
            else:
                v = SET_VALUES[st[2]]
                setattr(objs[st[1]], st[2], P.Address(99) if st[2] == 'addrRoute' else v)
    return objs, touched


def impl_seq(steps):
    out = []

    def on_new(i, spec, x, err):
        out.extend([1, exc_code(err)] if x is None else [0] + canon_addr(x))
    run_steps(steps, on_new)
    return out


def case_seq(steps):
    exp = impl_seq(steps)
    news = [st[1] for st in steps if st[0] == 'new']
    return Case('process-history', 'canon_seq [%s]' % ';'.join(coqctor(sp) for sp in news), exp, key=('seq', repr(steps)), nontrivial=True,
                desc={'op': 'sequence', 'steps': jsteps(steps)})


TAILS = [0xBAC0, 0xBAC1, 0xBACF, 0xBAD0, 0xBABF, 0x0000, 0xFFFF]


def mac_grid(rng, tier):
    """octet strings of every length 1..8 whose last two octets sit on / next to the BACnet port range 0xBAC0..0xBACF
    (the range __str__ tests before printing a dotted quad), plus plain random ones"""
    tails = TAILS if tier != 'quick' else [0xBAC0, 0xBACF, 0xBAD0, 0x0000]
    out = [bytes([v]) for v in (0x00, 0xC0, 0xBA, 0xFF)]
    for l in range(2, 9):
        for t in tails:
            out.append(rnd_octets(rng, l - 2) + t.to_bytes(2, 'big'))
        out.append(rnd_octets(rng, l))
    return out


def ctor_grid(mac, nets=(1, 65534)):
    """every constructor x every argument type that denotes the station `mac` (locally and behind each of `nets`)"""
    h = hexs(mac)
    sp = [('A1', ('bytes', mac)), ('A1', ('bytearray', mac)), ('LS', ('bytes', mac)), ('LS', ('bytearray', mac)),
          S('0x' + h), S("X'" + h.upper() + "'")]
    if len(mac) == 1:
        sp += [('A1', ('int', mac[0])), ('LS', ('int', mac[0])), S(str(mac[0]))]
    for n in nets:
        sp += [('RS', n, ('bytes', mac)), ('RS', n, ('bytearray', mac)), ('A2', n, ('bytes', mac)), ('A2', n, ('bytearray', mac)),
               S('%d:0x%s' % (n, h)), S("%d:X'%s'" % (n, h)), ('A2', n, ('str', '0x' + h)), ('A2', n, ('str', "X'" + h + "'"))]
        if len(mac) == 1:
            sp += [('RS', n, ('int', mac[0])), ('A2', n, ('int', mac[0])), ('A2', n, ('str', str(mac[0]))), S('%d:%d' % (n, mac[0]))]
    return sp


H_ACCEPTED = [('str', '7'), ('str', '*'), ('str', '*:*'), ('str', '5:*'), ('str', '5:7'), ('str', '0:9'), ('str', '0x0102'), ('str', '6:0x0102'),
              ('str', "X'0a'"), ('str', '1.2.3.4'), ('str', '5:1.2.3.4:47809'), ('str', '1.2.3.4/24:1'), ('str', '01:02:03:04:05:06'),
              ('str', '7@6'), ('str', '5:7@1.2.3.4'), ('str', '*@9'), ('int', 9), ('bytes', b'\x07'), ('bytearray', b'\x01\x02\x03'),
              ('bytes', bytes([1, 2, 3, 4, 0xba, 0xc0])), ('tup', '1.2.3.4', 47808), ('tup', 0x0a000001, 1)]
# refused notations; several raise only AFTER having stored something (network, octets, port, route)
H_REFUSED = [('str', '5:256'), ('str', '5:300'), ('str', '65535:5'), ('str', '65535:*'), ('str', '5:1.2.3.4:70000'), ('str', '5:999.1.1.1'),
             ('str', '1.2.3.4/33'), ('str', '5:1.2.3.4/40'), ('str', '7@300'), ('str', '5:0x0102@256'), ('str', '5:*@999.1.1.1'), ('str', '*:5'),
             ('str', 'bad'), ('str', ''), ('str', "5:X'0'"), ('int', 256), ('int', -1), ('other', 'none'), ('tup', '1.2.3.4', 70000),
             ('tup', '999.1.1.1', 1)]
H_STARTS = [('A0',), ('RS', 5, ('int', 7)), ('RS', 5, ('bytes', b'\x01\x02')), ('RB', 5), ('LS', ('int', 7)), ('LB',), ('GB',),
            ('A1', ('str', '5:7@6')), ('A2', 9, ('str', '1.2.3.4'))]


def histories(rng, tier):
    """(start constructor, [notations]) with an accepted last notation: every (earlier notation, last notation) pair on a fresh
    object, every (non-null start object, last notation), and sampled triples"""
    out = []
    for prev in H_ACCEPTED + H_REFUSED:
        for last in H_ACCEPTED:
            out.append((('A0',), [prev, last]))
    for st in H_STARTS[1:]:
        for last in H_ACCEPTED:
            out.append((st, [last]))
    allh = H_ACCEPTED + H_REFUSED
    for _ in range(200 if tier == 'quick' else 3000):
        out.append((rng.choice(H_STARTS), [rng.choice(allh), rng.choice(allh), rng.choice(H_ACCEPTED)]))
    return out


def pool(rng, tier, lenient=True):
    """denoted addresses -> several spellings each (constructor specs); used for == / hash / dict membership.
    lenient=False leaves out the spellings the property statement does not list (leading zeros, trailing newline, ethernet)."""
    P = []

    def local(mac):
        h = hexs(mac)
        sp = [S('0x' + h), S("X'" + h.upper() + "'"), ('A1', ('bytes', mac)), ('A1', ('bytearray', mac)), ('LS', ('bytes', mac)),
              ('LS', ('bytearray', mac))]
        if len(mac) == 1:
            sp += [S(str(mac[0])), ('A1', ('int', mac[0])), ('LS', ('int', mac[0]))]
            if lenient: sp.append(S('00' + str(mac[0])))
        if len(mac) == 6:
            q = '.'.join(str(x) for x in mac[:4]); p = mac[4] * 256 + mac[5]
            sp += [S('%s:%d' % (q, p)), S('%s/%d:%d' % (q, rng.randrange(33), p)), ('A1', ('tup', q, p)),
                   ('A1', ('tup', int.from_bytes(mac[:4], 'big'), p))]
            if lenient: sp.append(S(':'.join('%02x' % x for x in mac)))
            if p == 47808:
                sp += [S(q), S(q + '/24')]
        return sp

    def remote(n, mac):
        h = hexs(mac)
        sp = [S('%d:0x%s' % (n, h)), S("%d:X'%s'" % (n, h)), ('A2', n, ('bytes', mac)), ('RS', n, ('bytes', mac)), ('A2', n, ('str', '0x' + h)),
              ('A2', n, ('bytearray', mac)), ('RS', n, ('bytearray', mac))]
        if len(mac) == 1:
            sp += [S('%d:%d' % (n, mac[0])), ('A2', n, ('int', mac[0])), ('RS', n, ('int', mac[0])), ('A2', n, ('str', str(mac[0])))]
        if len(mac) == 6:
            q = '.'.join(str(x) for x in mac[:4]); p = mac[4] * 256 + mac[5]
            sp += [S('%d:%s:%d' % (n, q, p)), ('A2', n, ('tup', q, p)), ('A2', n, ('str', '%s:%d' % (q, p)))]
        return sp

    macs = [b'\x00', b'\x05', b'\xff', b'\x05\x00', b'\x00\x05', b'\x01\x02\x03', bytes([1, 2, 3, 4, 0xba, 0xc0]), bytes([1, 2, 3, 4, 0xba, 0xc1]),
            bytes([1, 2, 3, 5, 0xba, 0xc0]), bytes([1, 2, 3, 4, 0, 5]), bytes(range(7)), bytes([9, 8, 7, 6]), bytes([9, 8, 7, 6, 5]),
            bytes([1, 2, 3, 4, 5, 0xba, 0xc0]), bytes([1, 2, 3, 4, 0xba, 0xc0, 0xba, 0xc0]), bytes([0xba, 0xc0]), bytes([1, 0xba, 0xc1])]
    if tier != 'quick':
        macs += [rnd_octets(rng, rng.randrange(1, 8)) for _ in range(10)]
    for m in macs:
        P.append((('L', m), local(m)))
        for n in ([0, 5, 65534] if len(m) in (1, 6, 7) else [5]):
            P.append((('R', n, m), remote(n, m)))
    P.append((('LB',), [S('*'), ('LB',)] + ([S('*\n')] if lenient else [])))
    P.append((('GB',), [S('*:*'), ('GB',)]))
    for n in [0, 5, 6, 65534]:
        P.append((('RB', n), [S('%d:*' % n), ('RB', n), ('A2', n, ('str', '*'))] + ([S('0%d:*' % n)] if lenient else [])))
    P.append((('NULL',), [('A0',)]))
    return P


def cases(rng, tier):
    _pdu()
    out = []
    texts = valid_texts(rng, tier)
    for t in texts:
        out.append(case_addr(S(t), 'str'))
    # single-character mutations of valid texts and random strings (the malformed stream)
    base = [t for t in texts if t]
    for _ in range(800 if tier == 'quick' else 8000):
        out.append(case_addr(S(mutate(rng, rng.choice(base))), 'mutated'))
    for _ in range(500 if tier == 'quick' else 4000):
        out.append(case_addr(S(''.join(rng.choice(ALPHABET) for _ in range(rng.randrange(0, 9)))), 'random'))
    # argument-type grid for the wildcard tests: octets that spell a notation, every one-octet string, wrapped texts, Address objects
    for b in text_octets(rng, tier, texts):
        for sp in octet_ctors(b, nets=(rng.choice([0, 1, 9, 65534]),)):
            out.append(case_addr(sp, 'text-octets'))
        out.append(case_reparse(('A1', ('bytes', b))))
        out.append(case_reparse(('RS', 9, ('bytearray', b))))
    for v in range(256):
        k, k2 = (('bytes', 'bytearray') if v % 2 else ('bytearray', 'bytes'))
        out.append(case_addr(('A1', (k, bytes([v]))), 'one-octet'))
        out.append(case_addr(('A2', 1 + v, (k2, bytes([v]))), 'one-octet'))
        if tier != 'quick' or v in (0, 41, 42, 43, 58, 255):
            out.append(case_addr(('LS', (k2, bytes([v]))), 'one-octet'))
            out.append(case_addr(('RS', 65534, (k, bytes([v]))), 'one-octet'))
    for t in wrapped_texts(rng, tier, texts):
        out.append(case_addr(S(t), 'mutated'))
    for sp in addr_arg_specs():
        out.append(case_addr(sp, 'addr-object'))
    for o in ADDR_OBJECTS:
        for sa in [('LB',), ('GB',), ('LS', ('int', 42)), ('A1', ('str', '*@5')), ('RB', 5)]:
            out.append(case_eqc(sa, ('addr', o)))
    # process histories on never-seen texts: each construction observed when it is made
    for st in sequences(rng, tier, 42 if tier == 'quick' else 420):
        out.append(case_seq(st))
    # int / bytes / bytearray / other
    for v in list(range(-2, 258)) + [65535, 10 ** 12, -10 ** 12]:
        out.append(case_addr(('A1', ('int', v)), 'int'))
        out.append(case_addr(('LS', ('int', v)), 'typed'))
    for l in range(0, 9):
        for _ in range(3):
            b = rnd_octets(rng, l)
            out.append(case_addr(('A1', (rng.choice(['bytes', 'bytearray']), b)), 'bytes'))
            out.append(case_addr(('LS', ('bytes', b)), 'typed'))
            out.append(case_addr(('RS', rng.choice([0, 1, 65534]), ('bytearray', b)), 'typed'))
    # every constructor x argument type x MAC length 1..8 x port-like tails: observed (incl. str()) and printed form re-parsed
    for i, m in enumerate(mac_grid(rng, tier)):
        for sp in ctor_grid(m, nets=(1, 65534) if tier != 'quick' else ((1, 65534)[i % 2],)):
            out.append(case_addr(sp, 'mac-grid'))
            if sp[0] != 'A1' or sp[1][0] != 'str' or tier != 'quick':
                out.append(case_reparse(sp))
    for p in PORTS[:7]:
        b = bytes([192, 168, 1, 255, p >> 8, p & 255])
        out.append(case_addr(('A1', ('bytes', b)), 'bytes'))
        out.append(case_addr(('A2', 7, ('bytes', b)), 'two-arg'))
        out.append(case_unpack(b))
    for o in OTHERS:
        out.append(case_addr(('A1', ('other', o)), 'other'))
        out.append(case_addr(('LS', ('other', o)), 'typed'))
        out.append(case_addr(('A2', 1, ('other', o)), 'two-arg'))
    out.append(case_addr(('LS', ('str', '5')), 'typed'))
    out.append(case_addr(('RS', 1, ('str', '5')), 'typed'))
    out += [case_addr(('A0',), 'typed'), case_addr(('LB',), 'typed'), case_addr(('GB',), 'typed')]
    # tuples
    hosts = ['1.2.3.4', '0.0.0.0', '255.255.255.255', '', '010.1.1.1', '256.1.1.1', '08.1.1.1', '192.168.0.255', 0, 1, 0x01020304, 0xFFFFFFFF,
             0x100000000, 0x1FFFFFFFF, -1, -256, 0xC0A800FF | ~0xFFFFFF00]
    for h in hosts:
        for p in PORTS + [-1, -65536]:
            out.append(case_addr(('A1', ('tup', h, p)), 'tuple'))
        out.append(case_addr(('A2', 5, ('tup', h, 47808)), 'two-arg'))
        if isinstance(h, str):
            for p in [0, 47808, 65535, 65536, 70000, -1]:
                out.append(case_pack(h, p))
    # network numbers at every entry point
    for n in NETS + [-1, -65536, 2, 255, 256, 65532]:
        out.append(case_addr(('RB', n), 'edge'))
        out.append(case_addr(('RS', n, ('int', 5)), 'edge'))
        for a in [('int', 5), ('str', '5'), ('str', '*'), ('str', '0x0102'), ('bytes', b'\x01\x02'), ('str', '1.2.3.4'), ('str', '1:5'), ('str', '*:*'),
                  ('str', '1:*'), ('int', 256), ('str', 'bad'), ('tup', '1.2.3.4', 47808), ('str', '5@6')]:
            out.append(case_addr(('A2', n, a), 'edge'))
    # printed form re-parsed
    plist = pool(rng, tier)
    specs = [sp for _, sps in plist for sp in sps]
    for sp in specs:
        out.append(case_addr(sp, 'pool'))
        out.append(case_reparse(sp))
    for t in rng.sample(texts, 300 if tier == 'quick' else 2000):
        out.append(case_reparse(S(t)))
    for l in range(0, 8):
        for _ in range(6):
            b = rnd_octets(rng, l)
            out.append(case_reparse(('A1', ('bytes', b))))
            out.append(case_reparse(('RS', rng.choice([0, 9, 65534]), ('bytes', b))))
    # comparisons: every pair of denoted addresses once, plus random pairs of spellings, plus routed ones
    pairs = list(itertools.product(plist, plist))
    if tier == 'quick':
        pairs = [pq for pq in pairs if pq[0][0] == pq[1][0]] + rng.sample(pairs, 500)
    for (d1, s1), (d2, s2) in pairs:
        out.append(case_cmp(rng.choice(s1), rng.choice(s2)))
    for _ in range(300 if tier == 'quick' else 3000):
        d, sps = rng.choice(plist)
        out.append(case_cmp(rng.choice(sps), rng.choice(sps)))
    routed = [S(x) for x in ['5', '5@6', '5@7', '5@0x06', '5@1.2.3.4', '5@1.2.3.4:47808', '6@6', '1:5@6', '1:5', '*@6', '*', '*:*@6', '*:*@7', '1:*@6']]
    for a, b in itertools.product(routed, routed):
        out.append(case_cmp(a, b))
    # object history: decode_address on an object that already holds state (accepted, refused, typed constructor)
    hs = histories(rng, tier)
    if tier == 'quick':
        hs = rng.sample(hs[:len(hs) - 200], 320) + hs[-100:]
    for st, args in hs:
        out.append(case_hist(st, args))
    # also a refused last notation: both sides must refuse with the same class whatever came before
    for _ in range(40 if tier == 'quick' else 600):
        out.append(case_hist(rng.choice(H_STARTS), [rng.choice(H_ACCEPTED), rng.choice(H_REFUSED)]))
    # == against an un-coerced right-hand side
    for sp in rng.sample(specs, 30 if tier == 'quick' else 100):
        for a in [('str', '5'), ('int', 5), ('bytes', b'\x05'), ('str', '1.2.3.4'), ('tup', '1.2.3.4', 47808), ('str', '5:5'), ('str', '*'), ('str', 'bad'),
                  ('other', 'none'), ('int', 256)]:
            out.append(case_eqc(sp, a))
    return out


# ---------------------------------------------------------------- direct predicate (implementation only)
UNSPEC = 'unspec'
_DEC = re.compile(r'[0-9]+\Z')
_HEX = re.compile(r'(?:[0-9A-Fa-f]{2})+\Z')


def _num(s):
    """decimal number without superfluous leading zeros, else None (leading zeros: unspecified)"""
    if not _DEC.match(s): return None
    if len(s) > 1 and s[0] == '0': return UNSPEC
    return int(s)


def spec_station(s):
    """the part after an optional 'net:' — returns ('mac', bytes, ipmeta|None) / ('bcast',) / None (refuse) / UNSPEC"""
    if s == '*': return ('bcast',)
    v = _num(s)
    if v is UNSPEC: return UNSPEC
    if v is not None:
        return ('mac', bytes([v]), None) if v <= 255 else None
    if s.startswith('0x') and _HEX.match(s[2:]): return ('mac', bytes.fromhex(s[2:]), None)
    if s.startswith("X'") and s.endswith("'") and len(s) > 3 and _HEX.match(s[2:-1]): return ('mac', bytes.fromhex(s[2:-1]), None)
    # dotted quad [/len] [:port]
    m = re.match(r'([0-9]+)\.([0-9]+)\.([0-9]+)\.([0-9]+)(?:/([0-9]+))?(?::([0-9]+))?\Z', s)
    if not m: return None
    parts = [_num(x) for x in m.groups()[:4]]
    ml = _num(m.group(5)) if m.group(5) is not None else 32
    port = _num(m.group(6)) if m.group(6) is not None else 47808
    if UNSPEC in parts or ml is UNSPEC or port is UNSPEC: return UNSPEC
    if any(p > 255 for p in parts) or ml > 32 or port > 65535: return None
    iface = ipaddress.ip_interface('%d.%d.%d.%d/%d' % (tuple(parts) + (ml,)))        # independent oracle
    meta = {'ip': int(iface.ip), 'mask': int(iface.netmask), 'subnet': int(iface.network.network_address),
            'host': int(iface.ip) & int(iface.hostmask), 'bcast': str(iface.network.broadcast_address), 'text': str(iface.ip), 'port': port}
    return ('mac', iface.ip.packed + port.to_bytes(2, 'big'), meta)


def spec_parse(s):
    """What an address text denotes according to the property statement, read independently of the library:
    ('ok', type, net, octets, ipmeta) / None = must be refused / UNSPEC = the statement leaves it open
    (routes, trailing newline, ethernet notation, non-ASCII, superfluous leading zeros)."""
    if any(ord(c) > 127 for c in s) or '\n' in s or '@' in s: return UNSPEC
    if re.match(r'(?:[0-9A-Fa-f]{2}:){5}[0-9A-Fa-f]{2}\Z', s): return UNSPEC
    if s == '*': return ('ok', 1, None, None, None)
    if s == '*:*': return ('ok', 5, None, None, None)
    head, sep, tail = s.partition(':')
    net = None
    if sep and _DEC.match(head):
        net = _num(head)
        st = spec_station(tail)
        if net is UNSPEC: return None if st is None else UNSPEC
        if st is None or net > 65534: return None
    else:
        st = spec_station(s)
        if st is None: return None
    if st is UNSPEC: return UNSPEC
    if st[0] == 'bcast':
        return ('ok', 3, net, None, None) if net is not None else ('ok', 1, None, None, None)
    return ('ok', 4 if net is not None else 2, net, st[1], st[2])


def check_fields(x, exp):
    """the address object against what the notation denotes; returns a description of the first difference or None"""
    P = _pdu()
    _, ty, net, mac, meta = exp
    if x.addrType != ty: return 'addrType %r != %r' % (x.addrType, ty)
    if x.addrNet != net or (net is not None and type(x.addrNet) is not int): return 'addrNet %r != %r' % (x.addrNet, net)
    if x.addrAddr != mac or (mac is not None and type(x.addrAddr) is not bytes): return 'addrAddr %r != %r' % (x.addrAddr, mac)
    if x.addrLen != (None if mac is None else len(mac)): return 'addrLen %r' % (x.addrLen,)
    if x.addrRoute is not None: return 'addrRoute %r' % (x.addrRoute,)
    if meta:
        got = {'ip': x.addrIP, 'mask': x.addrMask, 'subnet': x.addrSubnet, 'host': x.addrHost, 'port': x.addrPort}
        for k, v in got.items():
            if v != meta[k]: return '%s %r != %r (ipaddress)' % (k, v, meta[k])
        if x.addrTuple != (meta['text'], meta['port']): return 'addrTuple %r' % (x.addrTuple,)
        if x.addrBroadcastTuple != (meta['bcast'], meta['port']): return 'addrBroadcastTuple %r != %r' % (x.addrBroadcastTuple, meta['bcast'])
        if P.unpack_ip_addr(x.addrAddr) != x.addrTuple: return 'unpack_ip_addr %r' % (P.unpack_ip_addr(x.addrAddr),)
        if P.pack_ip_addr(x.addrTuple) != x.addrAddr: return 'pack_ip_addr'
    return None


def denoted_of_spec(spec):
    """what a non-text constructor call denotes (independent of the library) or None = must be refused / UNSPEC"""
    k = spec[0]

    def mac_of(a, allow_text):
        if a[0] == 'int': return ('mac', bytes([a[1]]), None) if 0 <= a[1] <= 255 else None
        if a[0] in ('bytes', 'bytearray'): return ('mac', bytes(a[1]), None) if len(a[1]) >= 1 else UNSPEC
        if a[0] == 'tup':
            h, p = a[1], a[2]
            if not (0 <= p <= 65535): return None
            if isinstance(h, int):
                if not (0 <= h < 2 ** 32): return UNSPEC
                return ('mac', h.to_bytes(4, 'big') + p.to_bytes(2, 'big'), None)
            if h == '': return ('mac', bytes(4) + p.to_bytes(2, 'big'), None)
            try:
                return ('mac', ipaddress.IPv4Address(h).packed + p.to_bytes(2, 'big'), None)
            except ValueError:
                return UNSPEC
        if a[0] == 'addr': return UNSPEC       # an Address object as argument is not a notation of the statement
        if a[0] == 'str' and allow_text:
            e = spec_parse(a[1])
            if e is None or e is UNSPEC: return e
            if e[1] == 2: return ('mac', e[3], None)
            if e[1] == 1: return ('bcast',)
            return None
        return None
    if k == 'A0': return UNSPEC
    if k == 'LB': return ('ok', 1, None, None, None)
    if k == 'GB': return ('ok', 5, None, None, None)
    if k == 'RB': return ('ok', 3, spec[1], None, None) if 0 <= spec[1] <= 65534 else None
    if k in ('A1', 'LS'):
        if spec[1][0] == 'str':
            return spec_parse(spec[1][1]) if k == 'A1' else None
        m = mac_of(spec[1], False)
        if m is None or m is UNSPEC: return m
        if k == 'LS' and spec[1][0] == 'tup': return None
        return ('ok', 2, None, m[1], None)
    if k in ('A2', 'RS'):
        n = spec[1]
        m = mac_of(spec[2], k == 'A2')
        if k == 'RS' and spec[2][0] == 'tup': m = None
        if m is UNSPEC: return UNSPEC
        if m is None or not (0 <= n <= 65534): return None
        if m[0] == 'bcast': return ('ok', 3, n, None, None)
        return ('ok', 4, n, m[1], None)
    return UNSPEC


def direct(rng, tier, focus=()):
    """Implementation-only predicate of C18 (weakest reading of the statement):
       D1 every accepted notation yields the denoted type / network / octets / IP values (ipaddress as oracle);
       D2 what denotes nothing (network > 65534, station > 255, port > 65535, mask > 32, stray text) is refused (any exception);
       D3 Address(str(a)) == a with equal hash, for route-free non-null addresses with >= 1 octet;
       D6 a constructor call gives the denoted address whatever was constructed, re-decoded or modified earlier in the process
          (never-seen texts, Address(net, t) before Address(t)), and does not change objects built before;
       D5 decode_address on an object that already holds state (earlier accepted / refused notation, typed constructor) gives the same
          address as a fresh Address(notation): fields, str, ==, hash, dict membership;
       D4 == is reflexive, symmetric, transitive and holds exactly between spellings of the same address;
          equal addresses have equal hash / _tuple and find each other in a dict."""
    P = _pdu()
    failures, n = [], 0
    nontriv = set()
    samples = []

    def fail(kind, spec, **kw):
        d = {'kind': kind, 'spec': jspec(spec)}
        d.update(kw)
        failures.append(d)

    def check_spec(spec):
        nonlocal n
        n += 1
        exp = denoted_of_spec(spec)
        try:
            x = build(spec)
        except Exception as e:
            if exp is not None and exp is not UNSPEC:
                fail('valid-notation-refused', spec, exc=repr(e)[:120], denotes=repr(exp)[:200])
            elif exp is None:
                nontriv.add(('refuse', repr(spec)))
            return None
        if exp is None:
            # name what is out of range, so that distinct defects give distinct replays
            kind = 'accepted-but-denotes-nothing'
            port = x.__dict__.get('addrPort')
            if isinstance(x.addrNet, int) and not (0 <= x.addrNet <= 65534) or (x.addrNet is not None and not isinstance(x.addrNet, int)):
                kind = 'network-out-of-range-accepted'
            elif isinstance(port, int) and not (0 <= port <= 65535):
                kind = 'port-out-of-range-accepted'
            fail(kind, spec, got=[x.addrType, repr(x.addrNet), repr(x.addrAddr)])
            return None
        if exp is UNSPEC:
            return x
        nontriv.add(('ok', repr(spec)))
        why = check_fields(x, exp)
        if why:
            fail('wrong-denotation', spec, why=why)
            return None
        # every accepted address must be usable as a dict key next to an independently built equal one
        _, ty, net, mac, _m = exp
        try:
            if ty in (2, 4) and mac:
                ref = P.Address(('%d:' % net if net is not None else '') + '0x' + mac.hex())
                if spec[0] == 'A1' and spec[1][0] == 'str' and spec[1][1] == str(ref):
                    ref = P.RemoteStation(net, mac) if net is not None else P.LocalStation(mac)
            else:
                ref = {1: P.LocalBroadcast, 5: P.GlobalBroadcast}[ty]() if ty in (1, 5) else P.RemoteBroadcast(net)
            if not (x == ref and ref == x) or hash(x) != hash(ref) or {ref: 1}.get(x) != 1 or {x: 1}.get(ref) != 1:
                fail('not-interchangeable-with-equal-address', spec, ref=str(ref))
                return None
        except Exception as e:
            fail('hash-raises', spec, exc=repr(e)[:120])
            return None
        return x

    def check_print_parse(spec, x):
        nonlocal n
        if x is None or x.addrRoute is not None or x.addrType == 0: return
        if x.addrAddr is not None and len(x.addrAddr) == 0: return
        n += 1
        try:
            text = str(x)
            y = P.Address(text)
        except Exception as e:
            fail('print-parse-raises', spec, exc=repr(e)[:160])
            return
        try:
            hx, hy = hash(x), hash(y)
        except Exception as e:
            fail('hash-raises', spec, exc=repr(e)[:120])
            return
        if not (x == y and y == x) or hx != hy or (x.addrType, x.addrNet, x.addrAddr) != (y.addrType, y.addrNet, y.addrAddr):
            fail('print-parse-differs', spec, text=text, got=[y.addrType, repr(y.addrNet), repr(y.addrAddr)])

    # D1/D2/D3 over the text stream, the mutated/random streams and the other constructors
    texts = valid_texts(rng, tier)
    specs = [S(t) for t in texts]
    base = [t for t in texts if t]
    for _ in range(4000 if tier == 'quick' else 60000):
        specs.append(S(mutate(rng, rng.choice(base))))
    for _ in range(2000 if tier == 'quick' else 40000):
        specs.append(S(''.join(rng.choice(ALPHABET) for _ in range(rng.randrange(0, 9)))))
    # exhaustive small domains: every station number alone and behind range-edge networks; every mask length
    for s in range(0, 300):
        specs += [S(str(s)), ('A1', ('int', s)), ('LS', ('int', s)), ('RS', 1, ('int', s)), ('A2', 65534, ('int', s)), ('A2', 2, ('str', str(s)))]
        for nn in NETS:
            specs.append(S('%d:%d' % (nn, s)))
    for nn in list(range(65500, 65600)) + NETS + [-1, -65536, 2 ** 32]:
        specs += [S('%d:*' % nn) if nn >= 0 else ('RB', nn), ('RB', nn), ('RS', nn, ('int', 0)), ('A2', nn, ('int', 255)), ('A2', nn, ('str', '*')),
                  ('A2', nn, ('bytes', b'\x01\x02')), ('A2', nn, ('str', '1.2.3.4'))]
        if nn >= 0:
            specs += [S('%d:0x0102' % nn), S("%d:X'0102'" % nn), S('%d:1.2.3.4' % nn), S('%d:255' % nn)]
    for _ in range(300 if tier == 'quick' else 5000):
        q = tuple(rng.choice(OCTS + [rng.randrange(256)]) for _ in range(4))
        qs = '.'.join(map(str, q))
        for m in range(0, 35):
            specs.append(S('%s/%d' % (qs, m)))
        p = rng.choice(PORTS + [rng.randrange(65536)])
        specs += [S('%s:%d' % (qs, p)), ('A1', ('tup', qs, p)), ('A1', ('tup', int.from_bytes(bytes(q), 'big'), p)),
                  ('A1', ('bytes', bytes(q) + (p & 65535).to_bytes(2, 'big')))]
    for l in range(0, 9):
        for _ in range(10 if tier == 'quick' else 200):
            b = rnd_octets(rng, l)
            specs += [('A1', ('bytes', b)), ('A1', ('bytearray', b)), ('LS', ('bytes', b)), ('RS', 9, ('bytes', b)), ('A2', 9, ('bytes', b))]
    for m in mac_grid(rng, 'thorough') + [rnd_octets(rng, rng.randrange(1, 9)) for _ in range(40 if tier == 'quick' else 2000)]:
        specs += ctor_grid(m, nets=(0, 1, 65534))
    # argument-type grid of the wildcard tests: every one-octet string and the octet strings that spell a notation, as bytes and
    # bytearray at every entry point; texts wrapped in white space / other case; Address objects as arguments
    for v in range(256):
        specs += octet_ctors(bytes([v]), nets=(0, 65534))
    for b in text_octets(rng, tier, texts):
        if b:
            specs += octet_ctors(b, nets=(0, 9, 65534))
            specs += [S('0x' + b.hex()), S("X'" + b.hex().upper() + "'"), S('9:0x' + b.hex())]
    for t in wrapped_texts(rng, tier, texts):
        specs += [S(t), ('A2', 9, ('str', t))]
    addr_specs = addr_arg_specs()
    specs += addr_specs
    specs += [('LB',), ('GB',), ('A0',)]
    for d in focus:
        if isinstance(d, dict):
            for k in ('spec', 'a', 'b'):
                if k in d:
                    try: specs.append(unjspec(d[k]))
                    except Exception: pass
    for sp in specs:
        x = check_spec(sp)
        check_print_parse(sp, x)
    # constructors must copy a caller's bytearray: changing the buffer afterwards must not change the address
    for m in mac_grid(rng, 'quick'):
        for cname, mk in (('Address', lambda b: P.Address(b)), ('LocalStation', lambda b: P.LocalStation(b)),
                          ('RemoteStation', lambda b: P.RemoteStation(7, b)), ('Address2', lambda b: P.Address(7, b))):
            n += 1
            buf = bytearray(m)
            try:
                x = mk(buf)
                before = (bytes(x.addrAddr), str(x))
                buf[0] ^= 0xFF
                buf.append(1)
                if (bytes(x.addrAddr), str(x)) != before or x.addrLen != len(m):
                    fail('aliases-caller-buffer', ('A1', ('bytearray', m)), ctor=cname, after=repr(x.addrAddr))
            except Exception as e:
                fail('bytearray-argument-raises', ('A1', ('bytearray', m)), ctor=cname, exc=repr(e)[:120])
    samples.append({'direct': 'denotation+refusal+print/parse', 'first_specs': [jspec(s) for s in specs[:3]], 'count': len(specs)})
    # an Address object accepted as a constructor argument must give an address equal to it (behind the network for the two-argument form)
    for sp in addr_specs:
        n += 1
        try:
            arg = build(sp[-1][1])
            x = build((sp[0],) + tuple(sp[1:-1]) + (('addr', sp[-1][1]),))
        except Exception:
            continue
        try:
            if sp[0] == 'A1':
                ok = (x == arg and arg == x and hash(x) == hash(arg))
            else:
                ok = x.addrNet == sp[1] and x.addrAddr == arg.addrAddr and x.addrType in (3, 4)
        except Exception:
            ok = False
        if not ok:
            fail('address-object-argument-not-preserved', sp, got=[x.addrType, repr(x.addrNet), repr(x.addrAddr)])

    # D6 process history: what was constructed (or done to the objects constructed) earlier in the process must not change what a
    # constructor call yields, nor may a construction change an object built before
    for steps in sequences(rng, tier, 210 if tier == 'quick' else 4200):
        def on_new(i, spec, x, err, steps=steps):
            nonlocal n
            n += 1
            exp = denoted_of_spec(spec)
            why = None
            if x is None:
                if exp is not None and exp is not UNSPEC:
                    why = 'refused with %r, denotes %r' % (err, exp)
            elif exp is None:
                why = 'accepted as (%r, %r, %r) but denotes nothing' % (x.addrType, x.addrNet, x.addrAddr)
            elif exp is not UNSPEC:
                why = check_fields(x, exp)
                nontriv.add(('seq', repr(steps), i))
            if why:
                fail('process-history-dependent-address', spec, steps=jsteps(steps[:i + 1]), why=why[:200])
        objs, touched = run_steps(steps, on_new)
        # re-observe at the end: later constructions / modifications of OTHER objects must not have altered an untouched object
        news = [st[1] for st in steps if st[0] == 'new']
        for k, (sp, x) in enumerate(zip(news, objs)):
            if x is None or k in touched: continue
            n += 1
            exp = denoted_of_spec(sp)
            if exp is None or exp is UNSPEC: continue
            why = check_fields(x, exp)
            if why:
                fail('object-changed-by-later-construction', sp, steps=jsteps(steps), index=k, why=why[:200])
    samples.append({'direct': 'process history', 'example': jsteps(sequences(__import__('random').Random(1), 'quick', 1)[0])})

    # D5 object history: the final object of successive decode_address calls on ONE object is the address of the last notation
    for st, args in histories(rng, tier):
        n += 1
        last = args[-1]
        try:
            fresh = P.Address(pyarg(last))
        except Exception:
            continue
        try:
            a = run_history(st, args)
        except Exception as e:
            fail('history-last-notation-refused', st, args=jspec(tuple(args)), exc=repr(e)[:120])
            continue
        nontriv.add(('hist', repr(st), repr(args)))
        why = None
        for fld in ('addrType', 'addrNet', 'addrAddr', 'addrLen'):
            if getattr(a, fld) != getattr(fresh, fld):
                why = '%s %r != %r' % (fld, getattr(a, fld), getattr(fresh, fld))
                break
        if why is None and (a.addrRoute is None) != (fresh.addrRoute is None):
            why = 'addrRoute %r != %r' % (a.addrRoute, fresh.addrRoute)
        if why is None and a.addrRoute is not None and not (a.addrRoute == fresh.addrRoute):
            why = 'addrRoute %r != %r' % (a.addrRoute, fresh.addrRoute)
        if why is None and 'addrIP' in fresh.__dict__:
            for fld in IPATTRS:
                if getattr(a, fld, 'missing') != getattr(fresh, fld):
                    why = '%s %r != %r' % (fld, getattr(a, fld, 'missing'), getattr(fresh, fld))
                    break
        try:
            if why is None and str(a) != str(fresh):
                why = 'str %r != %r' % (str(a), str(fresh))
            if why is None and not (a == fresh and fresh == a):
                why = 'not == to a fresh Address of the same notation'
            if why is None and (hash(a) != hash(fresh) or a._tuple() != fresh._tuple()):
                why = 'hash / _tuple differ from a fresh Address of the same notation'
            if why is None and ({fresh: 1}.get(a) != 1 or {a: 1}.get(fresh) != 1):
                why = 'misses the dict entry of a fresh Address of the same notation'
        except Exception as e:
            why = 'raises %r' % (e,)
        if why:
            fail('history-dependent-address', st, args=jspec(tuple(args)), why=why[:200])
    samples.append({'direct': 'object history', 'example': {'start': ['A0'], 'args': [['str', '5:256'], ['str', '7']]}})

    # D4 equality / hash over a pool of equivalent spellings
    plist = pool(rng, tier, lenient=False)
    objs = []
    for den, sps in plist:
        for sp in sps:
            try:
                objs.append((den, sp, build(sp)))
            except Exception as e:
                fail('pool-spelling-refused', sp, exc=repr(e)[:120], denotes=repr(den))
    for (d1, s1, a), (d2, s2, b) in itertools.product(objs, objs):
        n += 1
        try:
            eq, qe = bool(a == b), bool(b == a)
            ne = bool(a != b)
        except Exception as e:
            fail('eq-raises', s1, other=jspec(s2), exc=repr(e)[:120])
            continue
        if eq != qe:
            fail('eq-not-symmetric', s1, other=jspec(s2))
        elif ne == eq:
            fail('ne-inconsistent', s1, other=jspec(s2))
        elif eq != (d1 == d2):
            fail('eq-wrong' if d1 == d2 else 'eq-conflates-distinct-addresses', s1, other=jspec(s2))
        elif eq:
            try:
                if hash(a) != hash(b) or a._tuple() != b._tuple():
                    fail('equal-but-hash-differs', s1, other=jspec(s2))
                elif b not in {a: 1} or {a: 1}.get(b) != 1:
                    fail('equal-but-dict-miss', s1, other=jspec(s2))
            except Exception as e:
                fail('hash-raises', s1, other=jspec(s2), exc=repr(e)[:120])
        nontriv.add(('pair', repr(s1), repr(s2)))
    for den, sp, a in objs:
        if not (a == a):
            fail('eq-not-reflexive', sp)
    for _ in range(3000 if tier == 'quick' else 50000):
        n += 1
        (d1, s1, a), (d2, s2, b), (d3, s3, c) = rng.choice(objs), rng.choice(objs), rng.choice(objs)
        if rng.random() < 0.7:      # bias towards chains that exist
            same = [o for o in objs if o[0] == d1]
            (d2, s2, b), (d3, s3, c) = rng.choice(same), rng.choice(same)
        if a == b and b == c and not (a == c):
            fail('eq-not-transitive', s1, other=jspec(s2), third=jspec(s3))
    # routing-table style use: one dict keyed by every spelling; each denoted address occupies exactly one entry
    table = {}
    try:
        for den, sp, a in objs:
            table.setdefault(a, den)
    except Exception:
        table = {}
    if len(table) != len({d for d, _, _ in objs}):
        fail('dict-entries-per-address', ('A0',), entries=len(table), addresses=len({d for d, _, _ in objs}))
    samples.append({'direct': 'eq/hash/dict', 'objects': len(objs), 'denoted': len(plist)})
    return failures, {'evaluations': n, 'distinct_nontrivial': len(nontriv), 'exhaustive': True,
                      'exhaustive_domain': 'station numbers 0..299 at every entry point; networks 65500..65599 at every entry point; mask lengths 0..34 on each sampled quad; '
                                           'one-octet strings 0..255 as bytes and as bytearray at every entry point',
                      'samples': samples}


def classify(failure):
    # the three defects of the pinned tree are repaired by fix: commits (known_findings/C18.json, status fixed): nothing is excused
    return None


def replay(payload):
    import core
    f = payload.get('failure')
    if not f:
        mc = (payload.get('broken') or [{}])[0]
        mc = mc.get('minimal_case', {}) if isinstance(mc, dict) else {}
        print('replay (correspondence)', mc.get('desc'))
        d = mc.get('desc') or {}
        if 'spec' in d:
            sp = unjspec(d['spec'])
            print('implementation:', impl_addr(sp))
            print('model         :', core.coq_eval(COQ_IMPORTS, 'canon_addr_r %s' % coqctor(sp))[0])
        return
    print('replay', f)
    sp = unjspec(f['spec'])
    if 'steps' in f:
        steps = unjsteps(f['steps'])

        def show(i, spec, x, err):
            print('  step %d %r -> %s   denotes %r' % (i, spec, impl_addr_of(x, err)[:12], denoted_of_spec(spec)))
        run_steps(steps, show)
        print('model (each construction on its own):', core.coq_eval(COQ_IMPORTS, 'canon_addr_r %s' % coqctor(sp))[0])
        return
    if 'args' in f:
        args = list(unjspec(f['args']))
        print('one object, successive decode_address:', impl_hist(sp, args))
        print('fresh Address(last notation)         :', impl_addr(('A1', args[-1])))
        print('model                                :', core.coq_eval(COQ_IMPORTS, 'canon_addr_r (decode_on [] %s)' % coqarg(args[-1]))[0])
        return
    print('denotes (independent reading):', denoted_of_spec(sp))
    print('implementation:', impl_addr(sp))
    print('model         :', core.coq_eval(COQ_IMPORTS, 'canon_addr_r %s' % coqctor(sp))[0])
    if 'other' in f:
        so = unjspec(f['other'])
        print('compare with  :', so, impl_cmp(sp, so))
