"""C19 — routing knowledge stays coherent: one next hop per destination, newest wins.
Correspondence (model RouterCache.v vs netservice.RouterInfoCache, driven directly and through
real network-layer messages into a NetworkServiceAccessPoint) and the direct,
implementation-only predicate."""
import itertools
from core import Case
from pyerr import exc_code

PROP = 'C19'
COQ_TARGETS = ['theories/RouterCacheFacts.vo', 'theories/RouterCacheRenum.vo', 'theories/RouterCacheSweep.vo',
               'theories/RouterNodeFacts.vo']
COQ_IMPORTS = 'From Bac Require Import Base RouterCache RouterNode.'
RULE = ('cases: histories over {learn(snet, router, dnets, status), status(snet, router), forget router, forget dnets, '
        'forget dnets of a router, forget with neither (refused), renumber(old, new)} on source nets {None,1,2,3} x routers '
        '{1,2,3} x dnets {10,11,12,13}: every history of length 1 over the 105-op alphabet, of length 2 over its 38-op core (all 105^2 in the thorough tier) plus 3000 seeded pairs, seeded random ones of length '
        '3..6, random ones of length 300 (also over a wider domain 5 x 5 x 8), the repaired-defect witnesses, two systematic families (the same MAC on two source networks followed by forget / renumber / announce on one of them; a router announcing dnets held by two different routers of the same source network); the cache is '
        'dumped after EVERY operation (key sets, every router record, every lookup, identity of the record a path leads to). '
        'nsap cases: the same kind of history sent as real IAmRouterToNetwork / NetworkNumberIs / routed NPDUs (same MACs 1..3 on both LANs) plus delete_router_references calls over two '
        'vlan.Networks into a two- or three-adapter NetworkServiceAccessPoint whose adapters sit on link stubs that go down (downstream requests raise) and come back while frames keep arriving; cache dumped after each frame / link change, compared with the model; aged-process scenarios (the real TaskManager\'s same-instant tie-break counter advanced to just before 2^16 / 2^20, then two competing announcements queued back to back in one instant: the newest must win) '
        'run on the operations the frames stand for.  nsap-traffic cases: emitted frames (application data handed to next-hop routers, Who-Is-Router), parked requests and cache after every step of histories of announcements (lists mixing remote and attached networks), application requests, routed through-traffic, withdrawals and renumberings, against the node model RouterNode.v.  direct: breadth-first over all DISTINCT reachable cache states to depth '
        '2 (quick) / 4 (thorough) with every op of the alphabet applied to each (= all histories of length <= 3 / 5, since the '
        'predicate depends on the state only), random histories of length 300, and next-hop MAC of frames emitted by the '
        'NSAP (wave 6: systematic families sadr-competes / unnumbered adapter bound with net=None next to numbered ones / who-is-router, a quarter of the random message-driven histories on a node with an unnumbered adapter; relayed announcements, I-Am-Router claims and relayed Who-Is-Router frames are part of the emitted-traffic observation) '
        'NSAP after message-driven histories.  non-trivial = at least one operation changes the cache or is refused; '
        'distinct by operation list.')
TRUSTED = ['model coq/theories/RouterCache.v written by hand after netservice.py:38-190 (RouterInfo, RouterInfoCache, as repaired '
           'by the four fix: commits; RouterNode.v after NetworkServiceElement.IAmRouterToNetwork / WhoIsRouterToNetwork and NetworkServiceAccessPoint.indication / process_npdu, fifth fix: commit); tie = correspondence after every operation',
           'path_info values are object references; the model stores the key (snet, address) instead - equal on coherent '
           'states, and the dump flags a path whose record is not the one filed in routers (so a divergence shows)']
ASSUMPTIONS = ['Address objects used as dict keys hash/compare by value (pdu.Address.__hash__/__eq__, property C18)',
               'RouterInfo.set_status and direct mutation of RouterInfoCache.routers/path_info by callers are outside the history alphabet',
               'network numbers in NPDUs are 1..65534 and MACs one octet (what the vlan harness sends)']

NONE = -1                      # model value of snet None
SN = [NONE, 1, 2, 3]
AD = [1, 2, 3]
DN = [10, 11, 12, 13]
SNW = [NONE, 1, 2, 3, 4]
ADW = [1, 2, 3, 4, 5]
DNW = [10, 11, 12, 13, 14, 15, 16, 17]


def _py_sn(z):
    return None if z == NONE else z


_ADDR = {}


def addr(i):
    from bacpypes.pdu import LocalStation
    if i not in _ADDR:
        _ADDR[i] = LocalStation(i)
    return _ADDR[i]


def addr_int(a):
    return a.addrAddr[0]


# ---- operations: ('L', sn, a, (ds), st) ('S', sn, a, st) ('F', sn, a|None, (ds)|None) ('R', old, new)
def apply_op(cache, op):
    k = op[0]
    if k == 'L':
        if op[4] == 0:
            cache.update_router_info(_py_sn(op[1]), addr(op[2]), list(op[3]))
        else:
            cache.update_router_info(_py_sn(op[1]), addr(op[2]), list(op[3]), op[4])
    elif k == 'S':
        cache.update_router_status(_py_sn(op[1]), addr(op[2]), op[3])
    elif k == 'F':
        cache.delete_router_info(_py_sn(op[1]), None if op[2] is None else addr(op[2]),
                                 None if op[3] is None else list(op[3]))
    elif k == 'R':
        cache.update_source_network(_py_sn(op[1]), _py_sn(op[2]))
    else:
        raise AssertionError(op)


def _z(x):
    return '(%d)' % x if x < 0 else '%d' % x


def _zl(xs):
    return '[' + ';'.join(_z(x) for x in xs) + ']'


def coq_op(op):
    k = op[0]
    if k == 'L':
        return 'Learn %s %s %s %s' % (_z(op[1]), _z(op[2]), _zl(op[3]), _z(op[4]))
    if k == 'S':
        return 'Status %s %s %s' % (_z(op[1]), _z(op[2]), _z(op[3]))
    if k == 'F':
        return 'Forget %s %s %s' % (_z(op[1]), 'None' if op[2] is None else '(Some %s)' % _z(op[2]),
                                    'None' if op[3] is None else '(Some %s)' % _zl(op[3]))
    return 'Renum %s %s' % (_z(op[1]), _z(op[2]))


def coq_hist(h):
    return '[' + '; '.join(coq_op(o) for o in h) + ']'


def oz1(v):
    return 0 if v is None else v + 1


def dump(cache, sns, ads, dns):
    """same cells as RouterCache.dump; a path whose record is not the one filed under its own
    (snet, address), is stale, or does not list the dnet gets a code the model never produces"""
    out = [len(cache.routers), sum(len(v) for v in cache.routers.values()), len(cache.path_info)]
    for snz in sns:
        sn = _py_sn(snz)
        out.append(1 if sn in cache.routers else 0)
        for a in ads:
            ri = cache.routers.get(sn, {}).get(addr(a))
            if ri is None:
                out += [0, 0] + [0] * len(dns)
            else:
                flag = 1
                if ri.snet != sn or ri.address != addr(a):
                    flag = 7           # never produced by the model
                out += [flag, oz1(getattr(ri, 'status', None))] + [oz1(ri.dnets.get(d)) for d in dns]
        for d in dns:
            p = cache.get_router_info(sn, d)
            if p is None:
                out.append(0)
            else:
                code = addr_int(p.address) + 1
                if cache.routers.get(sn, {}).get(p.address) is not p or p.snet != sn or d not in p.dnets:
                    code = 7           # never produced by the model
                out.append(code)
    return out


def pack(cells):
    """RouterCache.pack: three counts, then the cells (< 8) 20 to a radix-8 number behind a leading 1"""
    out = list(cells[:3])
    acc, n = 1, 20
    for x in cells[3:]:
        assert 0 <= x < 8, cells
        if n == 0:
            out.append(acc)
            acc, n = 8 + x, 19
        else:
            acc, n = acc * 8 + x, n - 1
    out.append(acc)
    return out


def new_cache():
    from bacpypes.netservice import RouterInfoCache
    return RouterInfoCache()


def impl_observe(h, sns, ads, dns):
    cache = new_cache()
    out, changed = [], False
    prev = dump(cache, sns, ads, dns)
    for op in h:
        try:
            apply_op(cache, op)
            code = 0
        except RecursionError:
            raise
        except Exception as e:
            code = exc_code(e)
        cur = dump(cache, sns, ads, dns)
        if code or cur != prev:
            changed = True
        out.append(code)
        out += pack(cur)
        prev = cur
    return out, changed


def dom(w):
    return (SNW, ADW, DNW) if w else (SN, AD, DN)


def case_hist(h, kind, wide=False):
    sns, ads, dns = dom(wide)
    exp, changed = impl_observe(h, sns, ads, dns)
    return Case(kind, 'observe_packed %s %s %s empty %s' % (_zl(sns), _zl(ads), _zl(dns), coq_hist(h)), exp,
                key=(wide, tuple(h)), nontrivial=changed,
                desc={'op': 'history', 'wide': wide, 'history': [list(o) for o in h]})


# ---- alphabets
def alphabet(level=2):
    """level 2: the full 105-op alphabet over 2 source nets (+ a fresh number for renumbering);
    level 1: 38 ops; level 0: 22 ops"""
    ops = []
    sns = [1, 2]
    if level >= 2:
        singles, pairs = DN, [(10, 11), (11, 12), (12, 13), (10, 13)]
        ads, fds, fpairs = AD, DN, [(10, 11), (12, 13)]
        ren = [(1, 2), (2, 1), (1, 3), (3, 1), (2, 3), (3, 2), (1, 1)]
    elif level == 1:
        singles, pairs = [10, 11], [(10, 11), (11, 12)]
        ads, fds, fpairs = [1, 2], [10, 11], [(10, 11)]
        ren = [(1, 2), (2, 1), (1, 3), (1, 1)]
    else:
        singles, pairs = [10], [(10, 11)]
        ads, fds, fpairs = [1, 2], [10], [(10, 11)]
        ren = [(1, 2), (2, 1)]
    for sn in sns:
        for a in ads:
            for d in singles:
                ops.append(('L', sn, a, (d,), 0))
            for p in pairs:
                ops.append(('L', sn, a, p, 0))
            ops.append(('F', sn, a, None))
            for d in fds:
                ops.append(('F', sn, a, (d,)))
            if level >= 2:
                ops.append(('F', sn, a, (10, 11)))
        for d in fds:
            ops.append(('F', sn, None, (d,)))
        for p in fpairs:
            ops.append(('F', sn, None, p))
    if level >= 2:
        ops += [('L', 1, 1, (), 0), ('L', 2, 2, (), 0)]
    for r in ren:
        ops.append(('R',) + r)
    return ops


def random_op(rng, sns, ads, dns):
    r = rng.random()
    sn = rng.choice(sns)
    if r < 0.45:
        n = rng.choice([0, 1, 1, 1, 2, 2, 3, 4])
        ds = tuple(rng.choice(dns) for _ in range(n))           # duplicates on purpose
        return ('L', sn, rng.choice(ads), ds, rng.choice([0, 0, 0, 1, 2, 3]))
    if r < 0.50:
        return ('S', sn, rng.choice(ads), rng.randrange(4))
    if r < 0.60:
        return ('F', sn, rng.choice(ads), None)
    if r < 0.72:
        n = rng.choice([0, 1, 1, 2, 3])
        return ('F', sn, rng.choice(ads), tuple(rng.choice(dns) for _ in range(n)))
    if r < 0.86:
        n = rng.choice([0, 1, 1, 2, 3])
        return ('F', sn, None, tuple(rng.choice(dns) for _ in range(n)))
    if r < 0.88:
        return ('F', sn, None, None)
    return ('R', sn, rng.choice(sns))


WITNESSES = [
    # the four repaired defects (DESIGN.md section 5 C19), as histories
    [('L', 1, 1, (10, 11), 0), ('F', 1, None, (10,))],
    [('L', 1, 1, (10, 11), 0), ('F', 1, 1, (10,))],
    [('L', 1, 1, (10,), 0), ('L', 1, 2, (11,), 0), ('F', 1, 1, (11,))],
    [('L', 1, 1, (10,), 0), ('F', 1, 1, (12,))],
    [('L', 1, 1, (10, 11), 0), ('L', 2, 2, (10, 12), 0), ('R', 1, 2)],
    [('L', 1, 1, (10,), 0), ('F', 1, 1, None), ('L', 2, 2, (12,), 0), ('R', 1, 2)],
    [('L', NONE, 1, (10,), 0), ('R', NONE, 2), ('L', 2, 2, (10,), 0)],
    [('L', 1, 1, (10, 10), 2), ('F', 1, 1, (10, 10))],
    [('L', 1, 1, (10,), 0), ('F', 1, None, None)],
    # the same MAC on two attached networks (MACs are unique per network only): forgetting on one
    # network must leave the other network's paths and record alone
    [('L', 1, 1, (10, 11), 0), ('L', 2, 1, (10, 12), 0), ('F', 1, 1, None)],
    [('L', 1, 2, (10,), 0), ('L', 2, 2, (10,), 0), ('F', 2, 2, (10,))],
    [('L', 1, 1, (10,), 0), ('L', 2, 1, (10,), 0), ('F', 1, None, (10,))],
    [('L', 1, 1, (10,), 0), ('L', 2, 1, (11,), 0), ('R', 1, 3), ('F', 3, 1, None)],
    [('L', 1, 1, (10,), 0), ('L', 2, 1, (10,), 0), ('L', 1, 1, (11,), 0), ('S', 2, 1, 2)],
    # a third router announces dnets held by two DIFFERENT routers of the same source network:
    # every displaced owner loses its dnet (and its record when nothing is left)
    [('L', 1, 1, (10,), 0), ('L', 1, 2, (11,), 0), ('L', 1, 3, (10, 11), 0)],
    [('L', 1, 1, (10, 12), 0), ('L', 1, 2, (11, 13), 0), ('L', 1, 3, (10, 11, 12), 0)],
    [('L', 1, 1, (10,), 0), ('L', 1, 2, (11,), 0), ('L', 1, 3, (12,), 0), ('L', 1, 1, (11, 12), 0)],
    [('L', 1, 1, (10,), 0), ('L', 1, 2, (11,), 0), ('F', 1, None, (10, 11))],
]


def families():
    """systematic small families around the two situations above"""
    out = []
    # multi-owner displacement: owners a1 != a2 of D1, D2; announcer a3 (a third router or one of the owners)
    for a1 in AD:
        for a2 in AD:
            if a1 == a2:
                continue
            for a3 in AD:
                for d1 in ((10,), (10, 12)):
                    for d2 in ((11,), (11, 13)):
                        for d3 in ((10, 11), (11, 10), (10, 11, 12), (10, 11, 12, 13)):
                            out.append(('multi-owner', [('L', 1, a1, d1, 0), ('L', 1, a2, d2, 0), ('L', 2, a1, (10, 11), 0),
                                                        ('L', 1, a3, d3, 1)]))
    # same MAC on both networks, then one more operation on network 1 (or a renumbering)
    for a in AD:
        for d1 in ((10,), (10, 11)):
            for d2 in ((10,), (11, 12)):
                for last in (('F', 1, a, None), ('F', 2, a, None), ('F', 1, a, (10,)), ('F', 1, a, ()), ('F', 1, None, (10,)),
                             ('R', 1, 3), ('R', 1, 2), ('R', 2, 1), ('L', 1, a, (12,), 0), ('S', 1, a, 2),
                             ('L', 1, (a % 3) + 1, (10, 11, 12), 0)):
                    out.append(('same-mac', [('L', 1, a, d1, 0), ('L', 2, a, d2, 0), last]))
    return out


# =====================================================================================
#   the same histories as real network-layer messages into a NetworkServiceAccessPoint
# =====================================================================================
NOW = [1000.0]
_TM = [None]


def _task_manager():
    """virtual clock, installed before the (singleton) TaskManager exists"""
    if _TM[0] is None:
        import bacpypes.task
        bacpypes.task._time = lambda: NOW[0]
        _TM[0] = bacpypes.task.TaskManager()
    return _TM[0]


class LinkDown(RuntimeError):
    """raised by the link stub under an adapter while its link is down"""


_LINK = []


def link_class():
    """a datalink stub between a NetworkAdapter and its vlan.Node: downstream requests raise while the
    link is down (like a vlan node removed from its network, or a datalink that is not up yet);
    upstream traffic is always delivered - the node still observes what arrives"""
    if not _LINK:
        from bacpypes.comm import Client, Server

        class Link(Client, Server):
            def __init__(self, name):
                Client.__init__(self)
                Server.__init__(self)
                self.name, self.up, self.refused = name, True, 0

            def indication(self, pdu):
                if not self.up:
                    self.refused += 1
                    raise LinkDown('%s: link is down' % (self.name,))
                self.request(pdu)

            def confirmation(self, pdu):
                self.response(pdu)
        _LINK.append(Link)
    return _LINK[0]


SNN = [NONE, 1, 2, 3, 4]       # source nets dumped in NPDU-driven histories (LAN C is net 4)


class Rig:
    """router node under test: adapters on vlan net A (number 1, configured or learned), vlan net B
    (number 2, configured) and optionally vlan net C (number 4, configured); MAC 9 on each, each
    behind a link stub that can go down and come back.  Peers 1..3 on each LAN send frames."""

    def __init__(self, learned_a=False, start_a=1, three=False):
        from bacpypes.netservice import NetworkServiceAccessPoint, NetworkServiceElement
        from bacpypes.comm import bind
        from bacpypes.vlan import Network, Node
        from bacpypes.pdu import LocalBroadcast, Address
        import bacpypes.core

        class NSE(NetworkServiceElement):
            _startup_disabled = True

        _task_manager()
        import logging
        logging.getLogger('bacpypes.netservice').setLevel(logging.CRITICAL)     # "path error" warnings of the spoof check

        self.core = bacpypes.core
        self.nsap = NetworkServiceAccessPoint()
        self.nse = NSE()
        bind(self.nse, self.nsap)
        self.lans, self.nodes, self.sniff = {}, {}, {}
        self.adapters = {}
        self.links = {}
        self.trace = []            # every frame a peer receives, in order of delivery: (lan, mac, pdu)
        self.raised = 0            # handlers left with the link stub's exception
        Link = link_class()
        for name, net in (('A', None if learned_a else start_a), ('B', 2)) + ((('C', 4),) if three else ()):
            lan = Network(broadcast_address=LocalBroadcast())
            node = Node(Address(9), lan)
            link = Link(name)
            bind(link, node)
            self.links[name] = link
            self.nsap.bind(link, net, Address(9))
            self.adapters[name] = self.nsap.adapters[net]
            self.lans[name] = lan
            frames = []
            self.sniff[name] = frames
            for mac in (1, 2, 3):
                peer = Node(Address(mac), lan)
                peer.response = (lambda pdu, _f=frames, _m=mac, _l=name: (_f.append((_m, pdu)), self.trace.append((_l, _m, pdu))))
                self.nodes[(name, mac)] = peer
        if learned_a and start_a is not None:
            # first learn the number start_a the ordinary way
            self.send_nni('A', 1, start_a)
        self.cache = self.nsap.router_info_cache

    def drain(self, limit=5000):
        """run every zero-delay task and deferred function (virtual clock does not advance)"""
        n = 0
        while True:
            busy = False
            while self.core.deferredFns:
                fns = self.core.deferredFns
                self.core.deferredFns = []
                for fn, args, kwargs in fns:
                    fn(*args, **kwargs)
                busy = True
            task, delta = _TM[0].get_next_task()
            if task is not None:
                try:
                    _TM[0].process_task(task)
                except LinkDown:
                    self.raised += 1          # a handler was left because relaying hit a dead link
                busy = True
            n += 1
            if n > limit:
                raise RuntimeError('watchdog: the node does not come to rest')
            if not busy:
                return

    def _send(self, lan, mac, npdu, dest=None):
        from bacpypes.pdu import PDU, LocalBroadcast
        from bacpypes.npdu import NPDU
        x = NPDU()
        npdu.encode(x)
        pdu = PDU()
        x.encode(pdu)
        pdu.pduSource = self.nodes[(lan, mac)].address
        pdu.pduDestination = dest if dest is not None else LocalBroadcast()
        self.nodes[(lan, mac)].indication(pdu)
        self.drain()

    def send_iam(self, lan, mac, dnets):
        from bacpypes.npdu import IAmRouterToNetwork
        self._send(lan, mac, IAmRouterToNetwork(list(dnets)))

    def send_nni(self, lan, mac, net, flag=0):
        from bacpypes.npdu import NetworkNumberIs
        self._send(lan, mac, NetworkNumberIs(net=net, flag=flag))

    def send_routed(self, lan, mac, snet, dnet=None):
        """application traffic from (snet, 77) relayed by router `mac` to our local address, or (dnet
        given) to station (dnet, 5) - to be forwarded by the node through another adapter"""
        from bacpypes.pdu import RemoteStation, Address
        from bacpypes.npdu import NPDU
        n = NPDU()
        n.npduSADR = RemoteStation(snet, 77)
        if dnet is not None:
            n.npduDADR = RemoteStation(dnet, 5)
        n.npduHopCount = 200
        n.pduData = b'\x10\x08'          # unconfirmed who-is
        self._send_raw(lan, mac, n)

    def _send_raw(self, lan, mac, n):
        from bacpypes.pdu import PDU, Address
        pdu = PDU()
        n.encode(pdu)
        pdu.pduSource = self.nodes[(lan, mac)].address
        pdu.pduDestination = Address(9)
        self.nodes[(lan, mac)].indication(pdu)
        self.drain()

    def age(self, modulus):
        """an aged process: advance the TaskManager's same-instant tie-break counter (without replacing it)
        so that the NEXT task scheduled gets a sequence number = -1 modulo `modulus` - whatever wraps at a
        power of two <= modulus wraps between the next two tasks.  Silent when there is no such counter."""
        tm = _TM[0]
        if tm is None or not hasattr(tm, 'counter'):
            return 0
        try:
            v = next(tm.counter)
        except Exception:
            return 0
        k = (modulus - 1 - (v + 1)) % modulus if isinstance(v, int) else modulus - 2
        c = tm.counter
        for _ in range(k):
            next(c)
        return k

    def send_iam_pair(self, lan, mac1, dnets1, mac2, dnets2):
        """two announcements put on the LAN back to back in the same clock instant, mac1's first"""
        from bacpypes.pdu import PDU, LocalBroadcast
        from bacpypes.npdu import NPDU, IAmRouterToNetwork
        for mac, dnets in ((mac1, dnets1), (mac2, dnets2)):
            x = NPDU()
            IAmRouterToNetwork(list(dnets)).encode(x)
            pdu = PDU()
            x.encode(pdu)
            pdu.pduSource = self.nodes[(lan, mac)].address
            pdu.pduDestination = LocalBroadcast()
            self.nodes[(lan, mac)].indication(pdu)        # queued, not yet delivered
        self.drain()

    def send_whois(self, lan, mac, dnet):
        from bacpypes.npdu import WhoIsRouterToNetwork
        self._send(lan, mac, WhoIsRouterToNetwork(dnet))

    def set_link(self, lan, up):
        self.links[lan].up = bool(up)

    def delete(self, net, mac, dnets):
        from bacpypes.pdu import Address
        self.nsap.delete_router_references(net, None if mac is None else Address(mac),
                                           None if dnets is None else list(dnets))
        self.drain()

    def emitted(self):
        """frames the node under test put on its LANs since the trace was cleared, in order:
        ('send', lan, mac, dnet, tag, sadr_net) application data with a DADR, unicast to router mac;
        ('whois', lan, dnet) Who-Is-Router-To-Network broadcasts (seen once, at peer 1)"""
        from bacpypes.npdu import NPDU, WhoIsRouterToNetwork
        out = []
        from bacpypes.pdu import Address
        me = Address(9)
        for lan, mac, pdu in self.trace:
            if pdu.pduSource != me:
                continue
            n = NPDU()
            n.decode(_pdu_copy(pdu))
            unicast = str(pdu.pduDestination) == str(mac)
            if n.npduNetMessage is None:
                if n.npduDADR is not None and unicast:
                    data = bytes(n.pduData)
                    out.append(('send', lan, mac, n.npduDADR.addrNet, data[2] if len(data) > 2 else 0,
                                n.npduSADR.addrNet if n.npduSADR is not None else None))
            elif n.npduNetMessage == 0 and not unicast and mac == 1:
                w = WhoIsRouterToNetwork()
                w.decode(n)
                if n.npduSADR is not None:
                    # a question relayed for somebody else: carries the asker as SADR
                    out.append(('whoisf', lan, w.wirtnNetwork, n.npduSADR.addrNet, n.npduSADR.addrAddr[0]))
                else:
                    out.append(('whois', lan, w.wirtnNetwork))
            elif n.npduNetMessage == 1 and (unicast or mac == 1):
                # I-Am-Router-To-Network put on the LAN by the node itself: a repeated announcement
                # (broadcast, seen once at peer 1: destination 0) or an answer to one station
                from bacpypes.npdu import IAmRouterToNetwork
                w = IAmRouterToNetwork()
                w.decode(n)
                out.append(('iamr', lan, mac if unicast else 0, tuple(w.iartnNetworkList)))
        return out

    def pending(self):
        """{dnet: [tags]} of the application requests parked in NetworkServiceAccessPoint.pending_nets"""
        view = {}
        for d, npdus in self.nsap.pending_nets.items():
            view[d] = [(bytes(x.pduData)[2] if len(x.pduData) > 2 else 0) for x in npdus]
        return view

    def send_request(self, dnet, tag):
        """the node's own application sends an unconfirmed request (tagged) to station (dnet, 5)"""
        from bacpypes.pdu import RemoteStation
        from bacpypes.apdu import UnconfirmedRequestPDU
        apdu = UnconfirmedRequestPDU(8)
        apdu.put(tag)
        apdu.pduDestination = RemoteStation(dnet, 5)
        try:
            self.nsap.indication(apdu)
        except LinkDown:
            self.raised += 1
        self.drain()

    def next_hop(self, dnet):
        """ask the NSAP to send application data to (dnet, 5): which LAN, which MAC?  None = no
        unicast frame with that DNET left the node (it asks Who-Is-Router instead)"""
        from bacpypes.pdu import RemoteStation, Address
        from bacpypes.apdu import UnconfirmedRequestPDU
        from bacpypes.npdu import NPDU
        for f in self.sniff.values():
            del f[:]
        apdu = UnconfirmedRequestPDU(8)
        apdu.pduDestination = RemoteStation(dnet, 5)
        dead = None
        parked = self.nsap.pending_nets.pop(dnet, None)      # requests really waiting: set aside
        try:
            self.nsap.indication(apdu)
            self.drain()
        except LinkDown as e:
            dead = str(e).split(':')[0]
            self.drain()
        finally:
            # forget the probe's own parked packet so that probing does not change later behaviour
            self.nsap.pending_nets.pop(dnet, None)
            if parked is not None:
                self.nsap.pending_nets[dnet] = parked
        hops = set()
        if dead is not None:
            hops.add((dead, -1, 'link-down'))
        for lan, frames in self.sniff.items():
            for mac, pdu in frames:
                n = NPDU()
                n.decode(_pdu_copy(pdu))
                if n.npduNetMessage is None and n.npduDADR is not None and n.npduDADR.addrNet == dnet:
                    hops.add((lan, mac, str(pdu.pduDestination)))
        return hops


def _pdu_copy(pdu):
    from bacpypes.pdu import PDU
    p = PDU(pdu.pduData)
    p.pduSource, p.pduDestination = pdu.pduSource, pdu.pduDestination
    return p


def random_msg(rng):
    """a frame and the cache operation(s) it stands for, as a function of the adapter numbers"""
    r = rng.random()
    lan = rng.choice('AB')
    mac = rng.choice([1, 2, 3])
    if r < 0.52:
        n = rng.choice([0, 1, 1, 2, 2, 3, 4])
        # lists also name networks the node is itself attached to (1..4) next to remote ones
        return ('iam', lan, mac, tuple(rng.choice(DN + DN + [1, 2, 3, 4]) for _ in range(n)))
    if r < 0.6:
        # the node's own application sends to a remote network (tag assigned by position in run_msgs)
        return ('req', rng.choice(DN))
    if r < 0.66:
        return ('routed', lan, mac, rng.choice(DN + [1, 2, 3, 4]))
    if r < 0.72:
        # routed traffic the node has to forward: to a directly connected net or to a dnet behind a router
        return ('fwd', lan, mac, rng.choice(DN + [1, 2, 3, 4]), rng.choice(DN + [1, 2, 3, 4]))
    if r < 0.84:
        # NetworkServiceAccessPoint.delete_router_references (the API applications use to withdraw knowledge)
        k = rng.random()
        if k < 0.4:
            return ('del', lan, mac, None)
        n = rng.choice([1, 1, 2])
        return ('del', lan, mac if k < 0.7 else None, tuple(rng.choice(DN) for _ in range(n)))
    if r < 0.92:
        # never B's own number 2 (or C's 4): that clash replaces the adapter in NetworkServiceAccessPoint.adapters
        return ('nni', 'A', mac, rng.choice([1, 3, 3]))
    return ('whois', lan, mac, rng.choice(DN))


def random_msgs(rng, n, three, outage):
    """n frames; with `outage` the links of the node go down and come back while frames keep arriving"""
    lans = 'ABC' if three else 'AB'
    msgs, down = [], set()
    for _ in range(n):
        if outage and rng.random() < 0.22:
            lan = rng.choice(lans)
            if lan in down:
                down.discard(lan)
                msgs.append(('link', lan, 1))
            else:
                down.add(lan)
                msgs.append(('link', lan, 0))
            continue
        m = random_msg(rng)
        if three and m[0] not in ('nni', 'req') and rng.random() < 0.3:
            m = (m[0], 'C') + m[2:]
        msgs.append(m)
    for lan in sorted(down):          # everything comes back at the end
        msgs.append(('link', lan, 1))
    return msgs


def run_msgs(msgs, learned_a, start_a=1, three=False, probe=None, unnum=False):
    """drive the rig; return (observation list, the history of cache ops the frames stand for,
    the rig, A's number).  The op translation uses only the adapter numbers the harness itself
    tracks and NEVER the link states: what the node observes updates its knowledge whatever
    happens to the copies it relays.  probe(rig, hist, netA, down) is called after every step."""
    if unnum:
        # adapter A bound with net=None (number not known, filed under None in sap.adapters, asked first)
        # next to the numbered adapter(s); it learns a number only if a Network-Number-Is arrives
        learned_a, start_a = True, None
    rig = Rig(learned_a=learned_a, start_a=start_a, three=three)
    netA = start_a            # what adapter A believes
    nets = {'B': 2, 'C': 4}
    hist, out, down = [], [], set()
    ntag = 0
    for m in msgs:
        rig.pre_pending = rig.pending()
        del rig.trace[:]
        net = None
        if m[1] in ('A', 'B', 'C'):
            net = netA if m[1] == 'A' else nets[m[1]]
        attached = {netA, 2} | ({4} if three else set())
        extra = None
        if m[0] == 'req':
            ntag += 1
            rig.last_tag = ntag
            rig.send_request(m[1], ntag)
        elif m[0] == 'iam2':
            # two competing announcements queued in the same instant: the one queued LAST is the newest.
            # m[6]: the process is aged first (tie-break counter of the scheduler just before 2^k), with
            # nothing scheduled in between
            hist.append(('L', NONE if net is None else net, m[2], m[3], 0))
            hist.append(('L', NONE if net is None else net, m[4], m[5], 0))
            if m[6]:
                rig.age(m[6])
            rig.send_iam_pair(m[1], m[2], m[3], m[4], m[5])
        elif m[0] == 'iam':
            hist.append(('L', NONE if net is None else net, m[2], m[3], 0))
            before = rig.raised
            relay_ok = [rig.links[l].up for l in sorted(rig.links) if l != m[1]]
            rig.send_iam(m[1], m[2], m[3])
            # the handler can also be left by the exception of the ARRIVAL adapter's dead link when it
            # releases parked requests for a listed network; on_iam models the relay only, so the flag is
            # compared only when that cannot happen (the cache is compared in any case)
            if rig.links[m[1]].up or not any(d in rig.pre_pending for d in m[3]):
                extra = (relay_ok, 1 if rig.raised > before else 0, NONE if net is None else net)
        elif m[0] == 'routed':
            if m[3] not in attached:
                hist.append(('L', NONE if net is None else net, m[2], (m[3],), 0))
            rig.send_routed(m[1], m[2], m[3])
        elif m[0] == 'fwd':
            if m[3] not in attached:
                hist.append(('L', NONE if net is None else net, m[2], (m[3],), 0))
            rig.send_routed(m[1], m[2], m[3], m[4])
        elif m[0] == 'del':
            hist.append(('F', NONE if net is None else net, m[2], m[3]))
            rig.delete(net, m[2], m[3])
        elif m[0] == 'whois':
            rig.send_whois(m[1], m[2], m[3])
        elif m[0] == 'link':
            rig.set_link(m[1], m[2])
            (down.discard if m[2] else down.add)(m[1])
        else:
            new = m[3]
            # NetworkNumberIs on A (netservice.py NetworkNumberIs): only a learned number follows
            if netA is None or (learned_a and new != netA):
                hist.append(('R', NONE if netA is None else netA, new))
                netA = new
            rig.send_nni('A', m[2], new)
        rig.step_emitted = rig.emitted()
        out.append((len(hist), dump(rig.cache, SNN, AD, DN), extra, m, rig.step_emitted, rig.pending(), netA))
        if probe is not None:
            if probe(rig, list(hist), netA, set(down), m):
                break
    return out, hist, rig, netA


AGED_WITNESSES = [
    # (three adapters?, learned A?, frames): a long-running process - the scheduler's same-instant tie-break
    # counter stands just before a power-of-two boundary (2^16, 2^20 and every smaller one) - receives two
    # competing announcements for the same (attached net, dnet) back to back in one clock instant; the one
    # queued last is the newest and must win
    (False, False, [('iam2', 'A', 1, (10,), 2, (10,), 1 << 16)]),
    (False, False, [('iam', 'A', 3, (10, 11)), ('iam2', 'A', 1, (10, 12), 2, (10, 11), 1 << 16)]),
    (True, True, [('iam2', 'B', 2, (10, 11), 3, (11,), 1 << 20), ('iam2', 'C', 1, (12,), 1, (13,), 1 << 16),
                  ('iam2', 'A', 3, (13,), 1, (13, 10), 1 << 16)]),
    (False, True, [('iam2', 'A', 1, (10,), 2, (10,), 1 << 20), ('nni', 'A', 1, 3), ('iam2', 'A', 2, (10,), 1, (10,), 1 << 16)]),
    (False, False, [('iam2', 'B', 1, (10,), 2, (10,), 0), ('iam2', 'B', 2, (11,), 1, (11,), 0)]),     # young process
]


TRAFFIC_WITNESSES = [
    # (three adapters?, learned A?, frames): the node's EMITTED traffic follows its current knowledge
    # routed through-traffic whose next hop is a router on the ARRIVAL network goes to that router
    (False, False, [('iam', 'A', 1, (10,)), ('fwd', 'A', 2, 12, 10)]),
    (True, False, [('iam', 'B', 3, (11, 12)), ('fwd', 'B', 1, 13, 12), ('fwd', 'C', 1, 10, 12), ('fwd', 'A', 2, 13, 11)]),
    # an announcement naming an attached network next to remote ones still decides the remote ones
    (False, False, [('iam', 'A', 1, (10,)), ('iam', 'A', 2, (2, 10)), ('req', 10)]),
    (True, True, [('iam', 'B', 1, (10, 11)), ('iam', 'B', 3, (11, 4, 1)), ('req', 11), ('req', 10), ('iam', 'C', 2, (12, 2)), ('req', 12)]),
    # requests parked while no router is known are all released by an announcement listing several networks,
    # whichever of them have something waiting; later requests go straight out
    (False, False, [('req', 11), ('iam', 'A', 1, (10, 11)), ('req', 11), ('req', 10)]),
    (False, False, [('req', 10), ('req', 12), ('req', 10), ('iam', 'B', 2, (11, 12, 13, 10)), ('req', 12), ('req', 13)]),
    (True, False, [('req', 13), ('iam', 'C', 3, (10, 2, 13)), ('req', 13), ('req', 11), ('iam2', 'A', 1, (12, 11), 2, (11,), 0), ('req', 11)]),
]


def random_traffic(rng, n, three):
    """frames for the node model: announcements (lists mixing remote and attached nets), application
    requests, routed through-traffic, routed local traffic, withdrawals, Network-Number-Is"""
    lans = 'ABC' if three else 'AB'
    msgs = []
    for _ in range(n):
        r = rng.random()
        lan, mac = rng.choice(lans), rng.choice(AD)
        if r < 0.26:
            k = rng.choice([1, 1, 2, 2, 3, 4])
            msgs.append(('iam', lan, mac, tuple(rng.choice(DN + DN + [1, 2, 3, 4]) for _ in range(k))))
        elif r < 0.34:
            msgs.append(('whois', lan, mac, rng.choice(DN + DN + [1, 2, 3, 4])))
        elif r < 0.60:
            msgs.append(('req', rng.choice(DN)))
        elif r < 0.80:
            msgs.append(('fwd', lan, mac, rng.choice(DN + [1, 2, 3, 4]), rng.choice(DN)))
        elif r < 0.86:
            msgs.append(('routed', lan, mac, rng.choice(DN + [1, 2, 3, 4])))
        elif r < 0.92:
            k = rng.random()
            msgs.append(('del', lan, mac if k < 0.7 else None, None if k < 0.3 else (rng.choice(DN),)))
        elif r < 0.96:
            msgs.append(('whois', lan, mac, rng.choice(DN + DN + [1, 2, 3, 4])))
        else:
            msgs.append(('nni', 'A', mac, rng.choice([1, 3, 3])))
    return msgs


def case_traffic(msgs, learned_a, three=False, unnum=False):
    """emitted frames + parked requests + cache after every step against the node model RouterNode.v"""
    desc = {'op': 'nsap', 'learned_a': learned_a, 'three': three, 'unnum': unnum, 'msgs': [list(m) for m in msgs]}
    key = ('traffic', learned_a, three, unnum, tuple(msgs))
    try:
        out, hist, rig, _ = run_msgs(msgs, learned_a, three=three, unnum=unnum)
    except RecursionError:
        raise
    except Exception as e:
        return Case('nsap-traffic', '[0]', [1, exc_code(e)], key=key, nontrivial=True, desc=desc)
    lan_net = lambda lan, netA: (NONE if netA is None else netA) if lan == 'A' else {'B': 2, 'C': 4}[lan]
    exp, steps, done, ntag = [], [], 0, 0
    netA_before = 1
    for n, d, extra, m, em, pend, netA in out:
        if m[0] == 'req':
            ntag += 1
            steps.append('NReq %d %d' % (m[1], ntag))
        elif m[0] == 'iam':
            steps.append('NIAm %s %s %s' % (_z(lan_net(m[1], netA)), _z(m[2]), _zl(m[3])))
        elif m[0] == 'fwd':
            steps.append('NFwd %s %s %s %s' % (_z(lan_net(m[1], netA)), _z(m[2]), _z(m[3]), _z(m[4])))
        elif m[0] == 'whois':
            steps.append('NWhoIs %s %s %s' % (_z(lan_net(m[1], netA)), _z(m[2]), _z(m[3])))
        elif m[0] == 'nni' and n > done:
            op = hist[done]
            steps.append('NRenum %s %s' % (_z(op[1]), _z(op[2])))
        else:
            steps.append('NOps %s' % coq_hist(hist[done:n]))
        done = n
        exp.append(len(em))
        for e in em:
            if e[0] == 'send':
                exp += [1, lan_net(e[1], netA), e[2], e[3], e[4], oz1(e[5])]
            elif e[0] == 'iamr':
                exp += [3, lan_net(e[1], netA), (e[2] + 1) if e[2] else 0, len(e[3])] + list(e[3])   # oz1 of the station, 0 = broadcast
            elif e[0] == 'whoisf':
                exp += [4, lan_net(e[1], netA), e[2], NONE if e[3] is None else e[3], e[4]]
            else:
                exp += [2, lan_net(e[1], netA), e[2]]
        for dn in DN:
            tags = pend.get(dn)
            exp += ([len(tags)] + list(tags)) if tags else [0]
        exp += pack(d)
    ads = ([2] + ([4] if three else []) + [1]) if learned_a else ([1, 2] + ([4] if three else []))
    if unnum:
        ads = [NONE, 2] + ([4] if three else [])
    expr = 'observe_node %s %s %s (mkN empty %s []) [%s]' % (_zl(SNN), _zl(AD), _zl(DN), _zl(ads), '; '.join(steps))
    return Case('nsap-traffic', expr, exp, key=key, nontrivial=True, desc=desc)


def case_nsap(msgs, learned_a, three=False, unnum=False):
    """expected = dump after each frame / link change; model = dump after the corresponding prefix of
    ops (which ignore the link states)"""
    kind = 'nsap-aged' if any(m[0] == 'iam2' for m in msgs) else 'nsap-outage' if any(m[0] == 'link' for m in msgs) else 'nsap-msgs'
    desc = {'op': 'nsap', 'learned_a': learned_a, 'three': three, 'unnum': unnum, 'msgs': [list(m) for m in msgs]}
    try:
        out, hist, rig, _ = run_msgs(msgs, learned_a, three=three, unnum=unnum)
    except RecursionError:
        raise
    except Exception as e:
        # the node raised while handling a frame: the model (which cannot) will disagree
        return Case(kind, '[0]', [1, exc_code(e)], key=('nsap', learned_a, three, unnum, tuple(msgs)), nontrivial=True, desc=desc)
    exp, frames, done = [], [], 0
    for n, d, extra, m, _em, _pend, _netA in out:
        if extra is not None:
            # an announcement: the model is told the state of the OTHER adapters' links; it must give the
            # same cache whatever they are, and the same "handler left by an exception" flag
            relay_ok, flag, net = extra
            exp.append(flag)
            frames.append('FIAm [%s] %s %s %s' % (';'.join('true' if b else 'false' for b in relay_ok), _z(net), _z(m[2]), _zl(m[3])))
        else:
            frames.append('FOps %s' % coq_hist(hist[done:n]))
        exp += pack(d)
        done = n
    expr = 'observe_frames %s %s %s empty [%s]' % (_zl(SNN), _zl(AD), _zl(DN), '; '.join(frames))
    return Case(kind, expr, exp, key=('nsap', learned_a, three, unnum, tuple(msgs)), nontrivial=len(hist) > 0, desc=desc)


OUTAGE_WITNESSES = [
    # (three adapters?, learned A?, frames): an older router is known, the link of ANOTHER adapter goes down, a
    # competing / brand-new announcement arrives during the outage, the link comes back
    (False, False, [('iam', 'A', 1, (10,)), ('link', 'B', 0), ('iam', 'A', 2, (10, 11)), ('link', 'B', 1)]),
    (False, True, [('iam', 'B', 1, (10,)), ('link', 'A', 0), ('iam', 'B', 3, (10,)), ('routed', 'B', 2, 12), ('link', 'A', 1)]),
    (True, False, [('iam', 'A', 1, (10, 11)), ('link', 'C', 0), ('iam', 'A', 2, (11,)), ('iam', 'B', 1, (12,)),
                   ('nni', 'A', 1, 3), ('link', 'C', 1), ('iam', 'C', 3, (13,))]),
    (True, True, [('link', 'B', 0), ('link', 'C', 0), ('iam', 'A', 1, (10,)), ('nni', 'A', 2, 3), ('iam', 'A', 2, (10,)),
                  ('whois', 'A', 1, 12), ('link', 'B', 1), ('link', 'C', 1)]),
    (False, False, [('link', 'A', 0), ('iam', 'A', 1, (10,)), ('routed', 'A', 2, 11), ('link', 'A', 1)]),
    # routed traffic to be forwarded through a dead link: its source network is still learned
    (False, False, [('iam', 'A', 1, (12,)), ('link', 'B', 0), ('fwd', 'A', 2, 12, 2), ('fwd', 'A', 3, 13, 10), ('link', 'B', 1)]),
]


def nsap_families():
    """systematic message-level families (wave 6), used by the correspondence AND the direct predicate:
    (three adapters?, learned A?, A unnumbered?, frames)
    * sadr-competes: a path to network d is known through router r1 of an attached network (announced, or
      revealed by the SADR of routed traffic), then routed traffic with SADR network d arrives through ANOTHER
      router r2 of the same attached network (to the node itself or to be forwarded): the newest observation
      wins, and a request sent afterwards goes to r2; controls: the same router again, a router of the other LAN
    * unnumbered: adapter A has no network number yet (bound with net=None, so its knowledge is filed under
      None and it is asked FIRST) next to numbered adapters: what is known through B / C must not be found
      from A and the other way round; requests, through-traffic, Who-Is-Router, withdrawals, and finally
      A learning its number
    * whois: Who-Is-Router-To-Network for a network known on the asking LAN / another LAN / nowhere / attached /
      just withdrawn: the node claims it exactly when its knowledge names a next hop on another adapter"""
    out = []
    configs = [(False, False, False), (True, True, False), (False, True, True), (True, False, True)]
    d = 10
    for three, learned, unnum in configs:
        for lan in 'AB':
            other = 'B' if lan == 'A' else 'A'
            for r1, r2 in ((1, 2), (2, 3), (3, 1)):
                firsts = [('iam', lan, r1, (d, 11)), ('routed', lan, r1, d), ('fwd', lan, r1, d, 12)]
                seconds = [('routed', lan, r2, d), ('fwd', lan, r2, d, 12), ('fwd', lan, r2, d, 11)]
                for f in firsts:
                    for g in seconds:
                        out.append((three, learned, unnum, [f, g, ('req', d), ('req', 11)]))
                # controls: same router again; a router with the same MAC on the other LAN
                out.append((three, learned, unnum, [firsts[0], ('routed', lan, r1, d), ('req', d)]))
                out.append((three, learned, unnum, [firsts[1], ('routed', other, r1, d), ('req', d), ('fwd', other, r2, 13, d)]))
    for three in (False, True):
        for r in AD:
            r2 = r % 3 + 1
            out += [
                (three, False, True, [('iam', 'B', r, (10,)), ('req', 10), ('whois', 'A', r2, 10), ('whois', 'B', r2, 10)]),
                (three, False, True, [('iam', 'A', r, (10,)), ('req', 10), ('iam', 'B', r2, (11,)), ('req', 11),
                                      ('fwd', 'A', 1, 12, 11), ('fwd', 'B', 1, 13, 10)]),
                (three, False, True, [('iam', 'B', r, (10, 11)), ('iam', 'A', r, (11, 12)), ('req', 10), ('req', 11), ('req', 12),
                                      ('del', 'A', r, None), ('req', 11), ('nni', 'A', 1, 3), ('req', 10), ('req', 12)]),
                (three, False, True, [('req', 10), ('iam', 'B', r, (10,)), ('whois', 'A', 1, 10), ('del', 'B', r, None),
                                      ('whois', 'A', 1, 10), ('req', 10)]),
                (three, False, True, [('routed', 'B', r, 10), ('routed', 'A', r, 11), ('del', 'A', None, (10,)), ('req', 10),
                                      ('req', 11), ('del', 'B', None, (10, 11)), ('req', 10)]),
                (three, False, True, [('iam', 'A', r, (10,)), ('nni', 'A', r2, 1), ('req', 10), ('iam', 'A', r2, (10,)), ('req', 10),
                                      ('nni', 'A', r2, 3), ('req', 10)]),
            ]
    for three, learned, unnum in configs:
        for l1 in ('AB' + ('C' if three else '')):
            for l2 in ('AB' + ('C' if three else '')):
                out.append((three, learned, unnum, [('whois', l2, 2, 10), ('iam', l1, 1, (10, 12)), ('whois', l2, 2, 10),
                                                    ('whois', l2, 3, 12), ('whois', l2, 3, 11), ('whois', l2, 1, 2),
                                                    ('del', l1, None, (10,)), ('whois', l2, 2, 10), ('whois', l2, 2, 12)]))
        # known on two adapters at once: the first in look-up order decides
        out.append((three, learned, unnum, [('iam', 'A', 1, (10,)), ('iam', 'B', 2, (10,)), ('whois', 'A', 3, 10), ('whois', 'B', 3, 10)]))
    return out


def cache_families():
    """knowledge filed under the not-yet-learned network (None) next to a numbered one: look-ups, withdrawals
    and announcements on one must not see or touch the other; then the unnumbered network learns its number"""
    out = []
    for a in AD:
        b = a % 3 + 1
        for d1 in ((10,), (10, 11)):
            for d2 in ((10,), (11, 12)):
                for first in ((NONE, 2), (2, NONE)):
                    for last in (('F', NONE, a, None), ('F', 2, b, None), ('F', NONE, None, (10,)), ('F', 2, None, (10, 11)),
                                 ('F', NONE, b, (10,)), ('F', 2, a, (10,)), ('R', NONE, 1), ('R', NONE, 2), ('R', 2, NONE),
                                 ('L', NONE, b, (10, 12), 0), ('L', 2, a, (10, 12), 0), ('S', NONE, a, 2)):
                        out.append(('unnumbered-net', [('L', first[0], a if first[0] == NONE else b, d1 if first[0] == NONE else d2, 0),
                                                       ('L', first[1], a if first[1] == NONE else b, d1 if first[1] == NONE else d2, 0),
                                                       last]))
    return out


def cases(rng, tier):
    big = tier == 'thorough'
    out = []
    for h in WITNESSES:
        out.append(case_hist(h, 'witness'))
    for kind, h in families() + cache_families():
        out.append(case_hist(h, kind))
    for three, learned, unnum, msgs in nsap_families():
        out.append(case_nsap(msgs, learned_a=learned, three=three, unnum=unnum))
        out.append(case_traffic(msgs, learned_a=learned, three=three, unnum=unnum))
    alpha = alphabet(2)
    for o in alpha:
        out.append(case_hist([o], 'exh-len1'))
    mid = alphabet(1)
    if big:
        for a in alpha:
            for b in alpha:
                out.append(case_hist([a, b], 'exh-len2'))
    else:
        # every pair of the 38-op alphabet, and a seeded third of the pairs of the full one (the
        # direct predicate below still visits every pair, triple and quadruple on the implementation)
        for a in mid:
            for b in mid:
                out.append(case_hist([a, b], 'exh-len2-mid'))
        for _ in range(3000):
            out.append(case_hist([rng.choice(alpha), rng.choice(alpha)], 'rand-len2'))
    if big:
        for h in itertools.product(mid, repeat=3):
            out.append(case_hist(list(h), 'exh-len3-mid'))
    for _ in range(6000 if big else 1500):
        n = rng.choice([3, 3, 4, 4, 5, 6])
        pool = alpha if rng.random() < 0.7 else mid
        out.append(case_hist([rng.choice(pool) for _ in range(n)], 'rand-short'))
    for _ in range(3000 if big else 300):
        n = rng.choice([4, 6, 8, 12])
        out.append(case_hist([random_op(rng, SN, AD, DN) for _ in range(n)], 'rand-free'))
    for _ in range(60 if big else 8):
        out.append(case_hist([random_op(rng, SN, AD, DN) for _ in range(300)], 'rand-300'))
    for _ in range(40 if big else 4):
        out.append(case_hist([random_op(rng, SNW, ADW, DNW) for _ in range(300)], 'rand-300-wide', wide=True))
    for _ in range(1500 if big else 200):
        msgs = [random_msg(rng) for _ in range(rng.choice([3, 6, 10, 20]))]
        out.append(case_nsap(msgs, learned_a=rng.random() < 0.6, unnum=rng.random() < 0.25))
    # outages: the link under one or more adapters of a 2- or 3-port node goes down and comes back while
    # announcements / routed traffic / Network-Number-Is keep arriving
    for three, learned, msgs in OUTAGE_WITNESSES + AGED_WITNESSES + TRAFFIC_WITNESSES:
        out.append(case_nsap(msgs, learned_a=learned, three=three))
    for three, learned, msgs in TRAFFIC_WITNESSES:
        if not any(m[0] == 'iam2' for m in msgs):
            out.append(case_traffic(msgs, learned_a=learned, three=three))
    for _ in range(2000 if big else 400):
        three = rng.random() < 0.5
        out.append(case_traffic(random_traffic(rng, rng.choice([3, 6, 10, 16]), three), learned_a=rng.random() < 0.5, three=three,
                                unnum=rng.random() < 0.25))
    for _ in range(200 if big else 40):
        # random histories in an aged process: pairs of competing same-instant announcements across the boundary
        three = rng.random() < 0.5
        msgs = []
        for _ in range(rng.choice([1, 2, 4])):
            msgs += random_msgs(rng, rng.choice([0, 1, 3]), three, outage=False)
            lan = rng.choice('ABC' if three else 'AB')
            d = rng.choice(DN)
            msgs += [('iam2', lan, rng.choice(AD), (d,) + tuple(rng.choice(DN) for _ in range(rng.choice([0, 1]))),
                      rng.choice(AD), (d,) + tuple(rng.choice(DN) for _ in range(rng.choice([0, 1]))),
                      rng.choice([1 << 16, 1 << 16, 1 << 20, 0]))]
        out.append(case_nsap(msgs, learned_a=rng.random() < 0.5, three=three))
    for _ in range(1500 if big else 300):
        three = rng.random() < 0.5
        msgs = random_msgs(rng, rng.choice([4, 8, 12, 20]), three, outage=True)
        out.append(case_nsap(msgs, learned_a=rng.random() < 0.5, three=three))
    return out


# =====================================================================================
#   direct predicate (implementation only)
# =====================================================================================
def knowledge(cache, sns, dns):
    """what the cache answers: {(sn, d): address int}"""
    k = {}
    for sn in sns:
        for d in dns:
            ri = cache.get_router_info(_py_sn(sn), d)
            if ri is not None:
                k[(sn, d)] = addr_int(ri.address)
    return k


def coherent(cache):
    """the two indexes agree (property text: at most one next hop per (snet, dnet); every
    destination credited to a router can be looked up and leads to that router; nothing else can)"""
    for (sn, d), ri in cache.path_info.items():
        filed = cache.routers.get(sn, {}).get(ri.address)
        if filed is not ri:
            return 'path (%r,%r) leads to a record that is not filed in routers' % (sn, d)
        if d not in ri.dnets:
            return 'path (%r,%r) leads to a router not credited with it' % (sn, d)
        if ri.snet != sn:
            return 'path (%r,%r) leads to a record of source network %r' % (sn, d, ri.snet)
    for sn, rs in cache.routers.items():
        for a, ri in rs.items():
            if ri.address != a:
                return 'router filed under another address'
            for d in ri.dnets:
                if cache.path_info.get((sn, d)) is not ri:
                    return 'router (%r,%s) is credited with %r but the lookup does not lead to it' % (sn, a, d)
    return None


def spec_step(K, op):
    """the property's own reading of one operation on the knowledge K {(sn,d): a}:
    returns (must, may): must = required lookups afterwards, may = keys allowed to be either
    their `must` value or absent (choices the text leaves open)"""
    must, may = dict(K), set()
    k = op[0]
    if k == 'L':
        for d in op[3]:
            must[(op[1], d)] = op[2]                      # newest wins
    elif k == 'S':
        pass
    elif k == 'F':
        sn, a, ds = op[1], op[2], op[3]
        if a is None and ds is None:
            pass                                           # refused, nothing changes
        elif a is None:
            for d in ds:
                must.pop((sn, d), None)
        elif ds is None:
            for key in [key for key, v in K.items() if key[0] == sn and v == a]:
                del must[key]
        elif len(ds) == 0:
            # "forget no destinations of router a": the text does not say whether that is the
            # router itself (the code's `dnets or ...`) or nothing; either is accepted
            for key in [key for key, v in K.items() if key[0] == sn and v == a]:
                may.add(key)
        else:
            for d in ds:
                if K.get((sn, d)) == a:
                    must.pop((sn, d), None)
    elif k == 'R':
        old, new = op[1], op[2]
        if old != new:
            moved = {key[1]: v for key, v in K.items() if key[0] == old}
            for d in moved:
                del must[(old, d)]
            # what was known under the new number: replaced, merged or kept - left open,
            # but never contradicting what moved in
            for key in [key for key in K if key[0] == new]:
                may.add(key)
            for d, v in moved.items():
                must[(new, d)] = v
                may.discard((new, d))
    return must, may


def check_step(cache, op, sns, dns):
    """apply op to the live cache and judge the result; returns failure dict or None"""
    K = knowledge(cache, sns, dns)
    must, may = spec_step(K, op)
    refused = op[0] == 'F' and op[2] is None and op[3] is None
    try:
        apply_op(cache, op)
    except RecursionError:
        raise
    except Exception as e:
        if not (refused and isinstance(e, RuntimeError)):
            return {'kind': 'operation-raises', 'exc': type(e).__name__}
    bad = coherent(cache)
    if bad:
        return {'kind': 'indexes-disagree', 'what': bad}
    K2 = knowledge(cache, sns, dns)
    for key in set(must) | set(K2):
        want, got = must.get(key), K2.get(key)
        if got == want:
            continue
        if key in may and got is None:
            continue
        return {'kind': 'wrong-next-hop', 'snet': key[0], 'dnet': key[1], 'got': got, 'want': want}
    return None


def replay_hist(h):
    c = new_cache()
    for op in h:
        try:
            apply_op(c, op)
        except Exception:
            pass
    return c


def bfs(alpha, depth, sns, ads, dns, failures, stats, tag, cap=None):
    """every op of alpha applied to every distinct state reachable in < depth ops"""
    seen = {tuple(dump(new_cache(), sns, ads, dns)): ()}
    frontier = [()]
    n = 0
    for level in range(depth):
        nxt = []
        for h in frontier:
            for op in alpha:
                c = replay_hist(h)
                f = check_step(c, op, sns, dns)
                n += 1
                if f:
                    f['history'] = [list(o) for o in h + (op,)]
                    failures.append(f)
                    continue
                key = tuple(dump(c, sns, ads, dns))
                if key not in seen:
                    seen[key] = h + (op,)
                    nxt.append(h + (op,))
        stats['bfs_%s_new_states_depth_%d' % (tag, level + 1)] = len(nxt)
        frontier = nxt
        if cap and len(frontier) > cap:
            frontier = frontier[:cap]
            stats['bfs_%s_capped_at_depth_%d' % (tag, level + 1)] = cap
    return n, len(seen)


def nsap_probe(failures, ctx):
    """judge the node after every frame / link change: indexes agree, the cache answers exactly what the
    frames OBSERVED so far say (whatever happened to relayed copies), and application data sent now goes
    to the router the property's reading names, on that router's LAN and nowhere else (or is refused by
    the dead link of exactly that LAN)"""
    state = {'K': {}, 'n': 0}

    def fail(kind, **kw):
        kw.update(kind=kind, **ctx)
        failures.append(kw)
        return True

    def probe(rig, hist, netA, down, m):
        for op in hist[state['n']:]:
            state['K'], _ = spec_step(state['K'], op)
        state['n'] = len(hist)
        K = state['K']
        step = list(m)
        bad = coherent(rig.cache)
        if bad:
            return fail('nsap-indexes-disagree', what=bad, at=step)
        got_k = knowledge(rig.cache, SNN, DN + [1, 2, 3, 4])     # routed traffic also reveals nets 1..4
        if got_k != K:
            key = sorted(set(K.items()) ^ set(got_k.items()))[0][0]
            return fail('nsap-wrong-knowledge', snet=key[0], dnet=key[1], got=got_k.get(key), want=K.get(key),
                        links_down=sorted(down), at=step)
        attached = {netA: 'A', 2: 'B'}
        if 'C' in rig.links:
            attached[4] = 'C'

        def want_of(d):
            w = set()
            for net_, lan_ in attached.items():
                a_ = K.get((NONE if net_ is None else net_, d))
                if a_ is not None:
                    w.add((lan_, a_))
            return w

        # ---- emitted traffic of THIS step follows the knowledge (only judged while every link is up)
        if not down:
            em = rig.step_emitted
            pre, post = rig.pre_pending, rig.pending()
            if m[0] == 'req':
                d, tag = m[1], rig.last_tag
                sends = [(e[1], e[2]) for e in em if e[0] == 'send' and e[3] == d and e[4] == tag]
                want, was = want_of(d), pre.get(d, [])
                sent_ok = len(sends) == 1 and sends[0] in want and post.get(d, []) == was
                parked_ok = not sends and post.get(d, []) == was + [tag]
                ok = sent_ok if (want and not was) else parked_ok if not want else (sent_ok or parked_ok)
                if not ok:
                    return fail('nsap-request-not-following-knowledge', dnet=d, sent_to=sends, want=sorted(want),
                                pending_before=was, pending_after=post.get(d, []), at=step)
            elif m[0] in ('iam', 'iam2'):
                lan = m[1]
                pairs = [(m[2], m[3])] if m[0] == 'iam' else [(m[2], m[3]), (m[4], m[5])]
                macs = set(a for a, _ in pairs)
                for d in sorted(set(x for _, ds in pairs for x in ds)):
                    for tag in pre.get(d, []):
                        sends = [(e[1], e[2]) for e in em if e[0] == 'send' and e[3] == d and e[4] == tag]
                        if len(sends) != 1 or sends[0][0] != lan or sends[0][1] not in macs:
                            return fail('nsap-pending-not-released', dnet=d, tag=tag, sent_to=sends,
                                        announcer=[lan, sorted(macs)], pending_before=pre.get(d), pending_after=post.get(d, []), at=step)
                    if post.get(d):
                        return fail('nsap-pending-not-released', dnet=d, sent_to=[], announcer=[lan, sorted(macs)],
                                    pending_before=pre.get(d, []), pending_after=post.get(d), at=step)
            elif m[0] == 'fwd':
                lan, mac, snet, d = m[1], m[2], m[3], m[4]
                sends = [(e[1], e[2]) for e in em if e[0] == 'send' and e[3] == d and e[5] == snet]
                asked = [e for e in em if e[0] == 'whois' and e[2] == d]
                nets_now = set(attached)
                if snet in nets_now:
                    ok = not sends                      # spoofed source: dropped
                elif d in nets_now:
                    ok = True                           # last hop: delivered locally without a DADR, not judged here
                else:
                    want = want_of(d)
                    ok = (len(sends) == 1 and sends[0] in want and not asked) if want else not sends
                if not ok:
                    return fail('nsap-forward-not-following-knowledge', dnet=d, snet=snet, arrived_on=lan, sent_to=sends,
                                want=sorted(want_of(d)), who_is_router=[list(e) for e in asked], at=step)
            elif m[0] == 'whois' and len(attached) > 1:
                # Who-Is-Router-To-Network d from station mac on lan: the node may claim d (I-Am-Router-To-Network
                # [d] to the asker, on that LAN) only when d is attached elsewhere or its knowledge names a next
                # hop for d on another LAN; it must claim when the only next hops known are on other LANs, and must
                # not when nothing is known or everything known is on the asking LAN
                lan, mac, d = m[1], m[2], m[3]
                claims = [e for e in em if e[0] == 'iamr' and d in e[3]]
                good = [e for e in claims if e[1] == lan and e[2] == mac and tuple(e[3]) == (d,)]
                nets_now = dict(attached)
                if d in nets_now:
                    must, may = nets_now[d] != lan, nets_now[d] != lan
                else:
                    lans_known = set(l for l, _ in want_of(d))
                    must = bool(lans_known) and lan not in lans_known
                    may = bool(lans_known - {lan})
                ok = (len(claims) == len(good) <= 1) and (good or not must) and (may or not claims)
                if not ok:
                    return fail('nsap-whois-not-following-knowledge', dnet=d, asked_on=lan, asker=mac, claims=[list(map(str, e)) for e in claims],
                                known_on=sorted(l for l, _ in want_of(d)), at=step)
        for d in DN:
            try:
                hops = rig.next_hop(d)
            except RecursionError:
                raise
            except Exception as e:
                return fail('nsap-send-raises', exc=type(e).__name__, dnet=d, at=step)
            # the NSAP tries its adapters in dict order; a next hop known on any attached LAN is acceptable
            want = set()
            for net, lan in attached.items():
                a = K.get((NONE if net is None else net, d))
                if a is not None:
                    want.add((lan, a))
            dead = set(h[0] for h in hops if h[2] == 'link-down')
            real = [h for h in hops if h[2] != 'link-down']
            got = set((lan, mac) for lan, mac, dst in real if dst == str(mac))
            other = [h for h in real if h[2] != str(h[1])]     # seen via broadcast: not a unicast to a router
            if not want:
                ok = not got
            elif dead:
                ok = not got and dead <= set(l for l, _ in want) and dead <= down
            else:
                ok = len(got) == 1 and got <= want
            if not ok or other:
                return fail('nsap-next-hop', dnet=d, got=sorted(got), want=sorted(want), links_down=sorted(down),
                            refused_by=sorted(dead), at=step)
        return False
    return probe


def direct_nsap(rng, n_hist, failures, stats):
    """message-driven histories on 2- and 3-adapter nodes, with and without link outages, judged by
    nsap_probe after every step"""
    evals = steps = outages = raised = 0
    plan = [(three, True, (learned, False, msgs)) for three, learned, msgs in TRAFFIC_WITNESSES + AGED_WITNESSES + OUTAGE_WITNESSES]
    plan += [(three, True, (learned, unnum, msgs)) for three, learned, unnum, msgs in nsap_families()]
    plan += [(False, False, None)] * n_hist + [(None, True, None)] * n_hist
    for three, outage, fixed in plan:
        if fixed:
            learned, unnum, msgs = fixed
        else:
            learned = rng.random() < 0.6
            unnum = rng.random() < 0.25
            if three is None:
                three = rng.random() < 0.5
            msgs = random_msgs(rng, rng.choice([2, 4, 8, 16]), three, outage) if outage else \
                [random_msg(rng) for _ in range(rng.choice([2, 4, 8, 16]))]
        ctx = {'learned_a': learned, 'three': three, 'unnum': unnum, 'msgs': [list(m) for m in msgs]}
        try:
            out, hist, rig, netA = run_msgs(msgs, learned, three=three, probe=nsap_probe(failures, ctx), unnum=unnum)
        except RecursionError:
            raise
        except Exception as e:
            failures.append(dict(ctx, kind='nsap-raises', exc=type(e).__name__))
            continue
        evals += 1
        steps += len(out)
        outages += 1 if any(m[0] == 'link' for m in msgs) else 0
        raised += rig.raised
    stats['nsap_histories'] = evals
    stats['nsap_steps_probed'] = steps
    stats['nsap_histories_with_outage'] = outages
    stats['nsap_handlers_left_by_dead_link'] = raised
    return evals


def direct(rng, tier, focus=()):
    failures, stats = [], {}
    big = tier == 'thorough'
    n = 0
    # 1. witnesses of the repaired defects
    for h in WITNESSES + [h for _, h in families() + cache_families()]:
        c = new_cache()
        for i, op in enumerate(h):
            f = check_step(c, op, SN, DN)
            n += 1
            if f:
                f['history'] = [list(o) for o in h[:i + 1]]
                failures.append(f)
                break
    # 2. all histories up to depth+1 via distinct states
    m, states = bfs(alphabet(2), 5 if big else 3, SN, AD, DN, failures, stats, 'full')
    n += m
    m2, states2 = bfs(alphabet(1), 7 if big else 5, SN, AD, DN, failures, stats, 'mid')
    n += m2
    stats['bfs_full_alphabet_states'] = states
    stats['bfs_mid_alphabet_states'] = states2
    # 3. long random histories
    nontriv = 0
    for wide in ([False] * (40 if big else 10)) + ([True] * (20 if big else 5)):
        sns, ads, dns = dom(wide)
        c = new_cache()
        h = []
        for _ in range(300):
            op = random_op(rng, sns, ads, dns)
            h.append(op)
            f = check_step(c, op, sns, dns)
            n += 1
            if f:
                f['history'] = [list(o) for o in _shrink(h, sns, dns)]
                failures.append(f)
                break
        nontriv += 1
    # 4. disagreements of the correspondence, replayed under the predicate
    for d in focus:
        if isinstance(d, dict) and d.get('op') == 'history':
            sns, ads, dns = dom(d.get('wide'))
            c = new_cache()
            h = [_op_from_list(o) for o in d['history']]
            for i, op in enumerate(h):
                f = check_step(c, op, sns, dns)
                n += 1
                if f:
                    f['history'] = [list(o) for o in _shrink(h[:i + 1], sns, dns)]
                    failures.append(f)
                    break
    # 5. through the network layer
    n += direct_nsap(rng, 1500 if big else 300, failures, stats)
    stats.update({'evaluations': n, 'distinct_nontrivial': states + states2 + nontriv + stats.get('nsap_histories', 0),
                  'exhaustive': True,
                  'exhaustive_domain': 'every op of the 105-op alphabet (2 source nets + a fresh number, 3 routers, 4 dnets) on every '
                                       'distinct cache state reachable in <= %d ops (= all histories of length <= %d), and of the '
                                       '38-op alphabet on all histories of length <= %d' % ((4, 5, 7) if big else (2, 3, 5)),
                  'samples': [{'direct': 'history', 'ops': [list(o) for o in WITNESSES[4]]}]})
    return failures, stats


def _op_from_list(o):
    o = list(o)
    if o[0] == 'L':
        return ('L', o[1], o[2], tuple(o[3]), o[4])
    if o[0] == 'F':
        return ('F', o[1], o[2], None if o[3] is None else tuple(o[3]))
    return tuple(o)


def _fails(h, sns, dns):
    c = new_cache()
    for op in h:
        if check_step(c, op, sns, dns):
            return True
    return False


def _shrink(h, sns, dns):
    """greedy one-at-a-time deletion keeping the history failing"""
    h = list(h)
    i = 0
    while i < len(h) and len(h) > 1:
        cand = h[:i] + h[i + 1:]
        if _fails(cand, sns, dns):
            h = cand
        else:
            i += 1
    return h


def classify(failure):
    return None       # the four defects of the pinned tree are repaired (known_findings/C19.json: status fixed)


def replay(payload):
    import core
    f = payload.get('failure') or {}
    if not f and payload.get('broken'):
        b = [x for x in payload['broken'] if isinstance(x, dict) and x.get('minimal_case')]
        f = b[0]['minimal_case'].get('desc', {}) if b else {}
    print('replay', f)
    if 'history' in f:
        h = [_op_from_list(o) for o in f['history']]
        sns, ads, dns = dom(f.get('wide'))
        c = new_cache()
        for op in h:
            r = check_step(c, op, sns, dns)
            print('  ', op, '->', r or 'ok', '| lookups:', knowledge(c, sns, dns))
        exp, _ = impl_observe(h, sns, ads, dns)
        got, err = core.coq_eval(COQ_IMPORTS, 'observe_packed %s %s %s empty %s' % (_zl(sns), _zl(ads), _zl(dns), coq_hist(h)))
        print('implementation:', exp)
        print('model         :', got if got is not None else err)
        print('agree' if got == exp else 'DISAGREE')
    elif 'msgs' in f:
        msgs = [tuple(tuple(x) if isinstance(x, list) else x for x in m) for m in f['msgs']]
        fl = []
        out, hist, rig, netA = run_msgs(msgs, f.get('learned_a', False), three=f.get('three', False),
                                        probe=nsap_probe(fl, {}), unnum=f.get('unnum', False))
        print('ops the frames stand for (up to the failing step):', hist)
        print('verdict:', fl or 'ok')
        print('cache lookups:', knowledge(rig.cache, SNN, DN), 'coherent:', coherent(rig.cache) or 'yes')
        for d in DN:
            print('  next hop to', d, ':', sorted(rig.next_hop(d)))
