"""C08 — network-layer headers and messages encode and decode faithfully.
Correspondence (model coq/theories/Npci.v vs bacpypes.npdu NPCI/NPDU and the 12 message classes + npdu_types)
and the direct, implementation-only predicate (independent clause-6.2 reference layout/parser)."""
import itertools
from core import Case, nlist
from pyerr import canon_call

PROP = 'C08'
COQ_TARGETS = ['theories/NpciFacts.vo', 'theories/NpciMsgFacts.vo', 'theories/NpciSound.vo', 'theories/NpciBodyFacts.vo',
               'theories/NpciRegistry.vo', 'theories/NpciReenc.vo',
               # the codec methods translated from npdu.py on this run (gen/NpciFns.v) = the hand model, for all inputs
               'theories/NpciGenFacts.vo', 'theories/NpciGenEnc.vo', 'theories/NpciGenDec.vo', 'theories/NpciGen.vo']
TABLE_OBLIGATIONS = ['NpciRegistry.registry_table_exact', 'NpciRegistry.registry_keys', 'NpciRegistry.registry_message_type',
                     'NpciRegistry.registry_ctor_message', 'NpciRegistry.registry_fields_arity', 'NpciRegistry.registry_nodup',
                     'NpciRegistry.registry_dispatch', 'NpciRegistry.registry_class',
                     'NpciGenFacts.address_codes', 'NpciGenFacts.message_type_constants']
COQ_IMPORTS = 'From Bac Require Import Base Npci.'
RULE = ('cases: NPDU.encode over expecting-reply x priority 0..3 x DADR {none, station 1/6/255 octets, remote broadcast, global} x '
        'SADR {none, station 1/6/255} x hop {0,1,254,255} x message {none, 0, 0x13, 0x7f, 0x80+vendor, 0xff+vendor} (quick: hop cycled, '
        '255-octet MACs on a quarter of the grid; thorough: full product), every message type 0..255 under two header shapes, refusing encodes (None/oversize fields, broadcast SADR); '
        'NPDU.decode of every valid frame produced, of all 2^8 control octets x up to 9 well-formed/ill-formed continuations (payload, truncations, SNET=0xFFFF with SLEN 1/n/0, SLEN=0, DNET=0xFFFF with DLEN>0), all octet strings '
        'of length <= 1 and [1,c], a grid of other 2-octet strings, all [1,c,x] (thorough), random 3-octet strings, single-octet mutations / '
        'deletions / insertions / truncations of valid frames; the 12 messages: network lists of length 0..20, routing tables with 0..5 '
        'entries and port-info length {0,1,2,255,256}, boundary nets/octets, decode of bodies of length <= 1 (32 per type quick, all thorough) and sampled 2..6 under '
        'each of the 12 types, npdu_types lookup for all 256 type codes, whole frames (message.encode + NPDU.encode, NPDU.decode + '
        'npdu_types dispatch); histories: for each of the 12 classes several decodes (and a default-constructed encode) in a row, and mixed '
        'histories over all classes and header decodes, every object canonicalised only at the END of its history; decode-then-re-encode of the same object for all 2^8 control octets '
        '(reserved bits 6 and 4 included) x address / hop / message shapes: plain, router forward (deepcopy, hop count - 1, SADR filled in, '
        'DADR stripped on the last leg), message object decoded through the registry and encoded again.  non-trivial = encode input with at least one optional field / parameter, or decode input of >= 3 octets; '
        'distinct by (operation, input).')
TRUSTED = ['translator/gen_npcifns.py: AST translation of the bodies of NPCI.encode/decode, NPDU.encode/decode and the 12 message classes\' encode/decode (npdu.py) '
           '-> coq/gen/NpciFns.v over the vocabulary coq/theories/NpciRt.v (objects as records, PDUData put/get lifted to objects, req = TypeError on None); fail-closed; '
           'trusted parts: the constructor mapping RemoteStation/RemoteBroadcast/GlobalBroadcast -> RStation/RBroadcast/GBroadcast (pdu.py constructors not translated), '
           'the skip allow-list (`if _debug:`, docstrings, PCI.update / NPCI.update), the attribute types declared in gen_npcifns.FIELDS, while-loop fuel 1 + len(pduData); '
           'NpciGenFacts/NpciGenEnc/NpciGenDec/NpciGen.v prove translated = hand model for all inputs on every run',
           'translator/gen_npdu.py: npdu.npdu_types, messageType, constructor message type, _debug_contents -> coq/gen/NpduRegistry.v (table obligations in NpciRegistry.v)',
           'model coq/theories/Npci.v written by hand after npdu.py:76-204,263-269,318-798 and comm.py PDUData; tie = equality with the translated methods (above) + in-kernel correspondence on every run; '
           'comm.py PDUData (put/get octet primitives of Base.v), pdu.py address constructors and netservice.py forwarding (reenc_fwd) remain hand-modelled, tied by correspondence only',
           'spec6_2 (Npci.v) and the harness reference layout/parser ref_layout/ref_parse are independent transcriptions of clause 6.2 (figure 6-1, 6.2.2)']
ASSUMPTIONS = ['bytes/bytearray hold octets < 256 (CPython)',
               'header fields are non-negative ints or None (negative ints are not modelled)',
               'message parameters are ints (None parameters, the constructor defaults, raise TypeError in put/put_short and are not modelled)']

NAMES = ['WhoIsRouterToNetwork', 'IAmRouterToNetwork', 'ICouldBeRouterToNetwork', 'RejectMessageToNetwork',
         'RouterBusyToNetwork', 'RouterAvailableToNetwork', 'InitializeRoutingTable', 'InitializeRoutingTableAck',
         'EstablishConnectionToNetwork', 'DisconnectConnectionToNetwork', 'WhatIsNetworkNumber', 'NetworkNumberIs']
CODES = [0, 1, 2, 3, 4, 5, 6, 7, 8, 9, 0x12, 0x13]
KINDS = ['whois', 'iam', 'icb', 'rej', 'busy', 'avail', 'irt', 'irta', 'est', 'disc', 'what', 'nni']
CODE_OF_NAME = dict(zip(NAMES, CODES))
CODE_OF_KIND = dict(zip(KINDS, CODES))
NAME_OF_KIND = dict(zip(KINDS, NAMES))

# ---------------------------------------------------------------------------------------------
# neutral descriptions
#   header H = (ver, er, prio, dadr, sadr, hop, nmsg, vendor); addr = None | ('rs', net, mac) | ('rb', net) | ('gb',)
#   message M = (kind, params...)


def mk_addr(a):
    from bacpypes.pdu import RemoteStation, RemoteBroadcast, GlobalBroadcast
    if a is None:
        return None
    if a[0] == 'rs':
        if 0 <= a[1] < 65535:
            return RemoteStation(a[1], bytes(a[2]))
        x = RemoteStation(1, bytes(a[2]))      # the constructor refuses such nets; reach the encoder's mask anyway
        x.addrNet = a[1]
        return x
    if a[0] == 'rb':
        if 0 <= a[1] < 65535:
            return RemoteBroadcast(a[1])
        x = RemoteBroadcast(1)
        x.addrNet = a[1]
        return x
    return GlobalBroadcast()


def fill_npci(n, H):
    ver, er, prio, dadr, sadr, hop, nmsg, vendor = H
    n.npduVersion = ver
    n.pduExpectingReply = er
    n.pduNetworkPriority = prio
    n.npduDADR = mk_addr(dadr)
    n.npduSADR = mk_addr(sadr)
    n.npduHopCount = hop
    if nmsg != 'keep':
        n.npduNetMessage = nmsg
    n.npduVendorID = vendor
    return n


def canon_addr(a):
    from bacpypes.pdu import Address
    if a is None:
        return [0]
    if a.addrType == Address.remoteStationAddr:
        return [1, 0, a.addrNet, len(a.addrAddr)] + list(a.addrAddr)
    if a.addrType == Address.remoteBroadcastAddr:
        return [1, 1, a.addrNet]
    if a.addrType == Address.globalBroadcastAddr:
        return [1, 2]
    return [1, 99, a.addrType]


def canon_optn(x):
    return [0] if x is None else [1, x]


def canon_npci(n):
    return ([n.npduVersion, 1 if n.pduExpectingReply else 0, n.pduNetworkPriority]
            + canon_addr(n.npduDADR) + canon_addr(n.npduSADR)
            + canon_optn(n.npduHopCount) + canon_optn(n.npduNetMessage) + canon_optn(n.npduVendorID))


def canon_rest(b):
    return [len(b)] + list(b)


def mk_msg(M):
    from bacpypes import npdu as N
    k = M[0]
    cls = getattr(N, NAME_OF_KIND[k])
    if k in ('irt', 'irta'):
        return cls([N.RoutingTableEntry(d, p, bytes(i)) for d, p, i in M[1]])
    if k in ('iam', 'busy', 'avail'):
        return cls(list(M[1]))
    return cls(*M[1:])


def canon_msgobj(o):
    name = type(o).__name__
    out = [CODE_OF_NAME.get(name, 999)]
    if name == 'WhoIsRouterToNetwork':
        out += canon_optn(o.wirtnNetwork)
    elif name == 'IAmRouterToNetwork':
        out += [len(o.iartnNetworkList)] + list(o.iartnNetworkList)
    elif name == 'ICouldBeRouterToNetwork':
        out += [o.icbrtnNetwork, o.icbrtnPerformanceIndex]
    elif name == 'RejectMessageToNetwork':
        out += [o.rmtnRejectionReason, o.rmtnDNET]
    elif name == 'RouterBusyToNetwork':
        out += [len(o.rbtnNetworkList)] + list(o.rbtnNetworkList)
    elif name == 'RouterAvailableToNetwork':
        out += [len(o.ratnNetworkList)] + list(o.ratnNetworkList)
    elif name in ('InitializeRoutingTable', 'InitializeRoutingTableAck'):
        tbl = o.irtTable if name == 'InitializeRoutingTable' else o.irtaTable
        out += [len(tbl)]
        for e in tbl:
            out += [e.rtDNET, e.rtPortID, len(e.rtPortInfo)] + list(e.rtPortInfo)
    elif name == 'EstablishConnectionToNetwork':
        out += [o.ectnDNET, o.ectnTerminationTime]
    elif name == 'DisconnectConnectionToNetwork':
        out += [o.dctnDNET]
    elif name == 'WhatIsNetworkNumber':
        pass
    elif name == 'NetworkNumberIs':
        out += [o.nniNet, o.nniFlag]
    return out


def canon_msgspec(M):
    """what canon_msgobj must give for a message that carries exactly the parameters of M"""
    k = M[0]
    out = [CODE_OF_KIND[k]]
    if k == 'whois':
        out += canon_optn(M[1])
    elif k in ('iam', 'busy', 'avail'):
        out += [len(M[1])] + list(M[1])
    elif k in ('irt', 'irta'):
        out += [len(M[1])]
        for d, p, i in M[1]:
            out += [d, p, len(i)] + list(i)
    else:
        out += list(M[1:])
    return out


# ---- Coq literals
def cN(x):
    return '%d%%N' % x


def coq_optn(x):
    return 'None' if x is None else '(Some %s)' % cN(x)


def coq_addr(a):
    if a is None:
        return 'None'
    if a[0] == 'rs':
        return '(Some (RStation %s %s))' % (cN(a[1]), nlist(a[2]))
    if a[0] == 'rb':
        return '(Some (RBroadcast %s))' % cN(a[1])
    return '(Some GBroadcast)'


def coq_npci(H):
    ver, er, prio, dadr, sadr, hop, nmsg, vendor = H
    return '(mkNpci %s %s %s %s %s %s %s %s)' % (cN(ver), 'true' if er else 'false', cN(prio), coq_addr(dadr), coq_addr(sadr),
                                                  coq_optn(hop), coq_optn(None if nmsg == 'keep' else nmsg), coq_optn(vendor))


def coq_msg(M):
    k = M[0]
    nets = lambda l: nlist(l)
    tbl = lambda t: '[' + ';'.join('mkRte %s %s %s' % (cN(d), cN(p), nlist(i)) for d, p, i in t) + ']'
    if k == 'whois': return '(WhoIsRouter %s)' % coq_optn(M[1])
    if k == 'iam': return '(IAmRouter %s)' % nets(M[1])
    if k == 'icb': return '(ICouldBeRouter %s %s)' % (cN(M[1]), cN(M[2]))
    if k == 'rej': return '(RejectMessage %s %s)' % (cN(M[1]), cN(M[2]))
    if k == 'busy': return '(RouterBusy %s)' % nets(M[1])
    if k == 'avail': return '(RouterAvailable %s)' % nets(M[1])
    if k == 'irt': return '(InitRT %s)' % tbl(M[1])
    if k == 'irta': return '(InitRTAck %s)' % tbl(M[1])
    if k == 'est': return '(EstablishConn %s %s)' % (cN(M[1]), cN(M[2]))
    if k == 'disc': return '(DisconnectConn %s)' % cN(M[1])
    if k == 'what': return 'WhatIsNetNum'
    if k == 'nni': return '(NetNumIs %s %s)' % (cN(M[1]), cN(M[2]))
    raise ValueError(k)


def descH(H):
    def a(x):
        if x is None: return None
        return [x[0]] + [bytes(v).hex() if isinstance(v, (bytes, bytearray, list)) else v for v in x[1:]]
    return {'ver': H[0], 'er': int(bool(H[1])), 'prio': H[2], 'dadr': a(H[3]), 'sadr': a(H[4]), 'hop': H[5], 'nmsg': H[6], 'vendor': H[7]}


def descM(M):
    if M[0] in ('irt', 'irta'):
        return [M[0], [[d, p, bytes(i).hex()] for d, p, i in M[1]]]
    return [M[0]] + [list(x) if isinstance(x, (list, tuple)) else x for x in M[1:]]


# ---------------------------------------------------------------------------------------------
# implementation drivers
def impl_enc_npdu(H, payload):
    from bacpypes.npdu import NPDU
    from bacpypes.pdu import PDU

    def f():
        n = fill_npci(NPDU(bytes(payload)), H)
        p = PDU()
        n.encode(p)
        return p.pduData
    return canon_call(f, list)


def impl_dec_npdu(octets):
    from bacpypes.npdu import NPDU
    from bacpypes.pdu import PDU

    def f():
        n = NPDU()
        n.decode(PDU(bytes(octets)))
        return n
    return canon_call(f, lambda n: [n.npduControl] + canon_npci(n) + canon_rest(n.pduData))


def impl_enc_msg(M):
    from bacpypes.npdu import NPDU

    def f():
        o = mk_msg(M)
        n = NPDU()
        o.encode(n)
        return n.pduData
    return canon_call(f, list)


def impl_dec_msg(t, body):
    from bacpypes.npdu import NPDU, npdu_types

    def f():
        n = NPDU(bytes(body))
        n.npduNetMessage = t
        o = npdu_types[t]()
        o.decode(n)
        return o, n
    return canon_call(f, lambda r: canon_msgobj(r[0]) + canon_rest(r[1].pduData))


def impl_enc_frame(H, M):
    from bacpypes.npdu import NPDU
    from bacpypes.pdu import PDU

    def f():
        o = fill_npci(mk_msg(M), H[:6] + ('keep',) + H[7:])
        n = NPDU()
        o.encode(n)
        p = PDU()
        n.encode(p)
        return p.pduData
    return canon_call(f, list)


def impl_dec_frame(octets):
    from bacpypes.npdu import NPDU, npdu_types
    from bacpypes.pdu import PDU

    def f():
        n = NPDU()
        n.decode(PDU(bytes(octets)))
        o = npdu_types[n.npduNetMessage]()
        o.decode(n)
        return n, o
    return canon_call(f, lambda r: [r[0].npduControl] + canon_npci(r[1]) + canon_msgobj(r[1]) + canon_rest(r[0].pduData))


def coq_op(o):
    if o[0] == 'decmsg': return '(OpDecMsg %s %s)' % (cN(o[1]), nlist(o[2]))
    if o[0] == 'decnpdu': return '(OpDecNpdu %s)' % nlist(o[1])
    if o[0] == 'encmsg': return '(OpEncMsg %s)' % coq_msg(o[1])
    if o[0] == 'encdefault': return '(OpEncMsg %s)' % coq_msg(DEFAULTS[o[1]])
    raise ValueError(o)


# what a default-constructed object of these classes stands for
DEFAULTS = {'whois': ('whois', None), 'iam': ('iam', []), 'busy': ('busy', []), 'avail': ('avail', []),
            'irt': ('irt', []), 'irta': ('irta', []), 'what': ('what',)}


def impl_history(ops):
    """run the operations one after the other in this process, keep every object, canonicalise them all only
    afterwards (so that an earlier result changed by a later operation shows)"""
    from bacpypes import npdu as N
    from bacpypes.pdu import PDU
    kept = []
    for o in ops:
        try:
            if o[0] == 'decmsg':
                n = N.NPDU(bytes(o[2]))
                n.npduNetMessage = o[1]
                obj = N.npdu_types[o[1]]()
                obj.decode(n)
                kept.append(('decmsg', obj, n))
            elif o[0] == 'decnpdu':
                n = N.NPDU()
                n.decode(PDU(bytes(o[1])))
                kept.append(('decnpdu', n))
            else:
                obj = mk_msg(o[1]) if o[0] == 'encmsg' else getattr(N, NAME_OF_KIND[o[1]])()
                n = N.NPDU()
                obj.encode(n)
                kept.append(('enc', n))
        except RecursionError:
            raise
        except Exception as e:
            from pyerr import exc_code
            kept.append(('err', exc_code(e)))
    out = [len(kept)]
    for k in kept:
        if k[0] == 'err':
            c = [1, k[1]]
        elif k[0] == 'decmsg':
            c = [0] + canon_msgobj(k[1]) + canon_rest(k[2].pduData)
        elif k[0] == 'decnpdu':
            c = [0, k[1].npduControl] + canon_npci(k[1]) + canon_rest(k[1].pduData)
        else:
            c = [0] + list(k[1].pduData)
        out += [len(c)] + c
    return out


def case_history(ops, kind='history'):
    exp = impl_history(ops)
    d = [[o[0]] + [bytes(x).hex() if isinstance(x, (bytes, bytearray)) else (descM(x) if isinstance(x, tuple) else x) for x in o[1:]] for o in ops]
    return Case(kind, 'canon_history (run_history [%s])' % '; '.join(coq_op(o) for o in ops), exp,
                key=('hist', repr(ops)), nontrivial=len(ops) >= 2, desc={'op': 'history', 'ops': d})


def impl_reenc(octets):
    from bacpypes.npdu import NPDU
    from bacpypes.pdu import PDU

    def f():
        n = NPDU()
        n.decode(PDU(bytes(octets)))
        p = PDU()
        n.encode(p)                       # the same object, as decoded
        return p.pduData
    return canon_call(f, list)


def forward_like_router(n, add_sadr, strip):
    """netservice.py:614-633,665 on a decoded NPDU: None = dropped (hop count exhausted)"""
    from copy import deepcopy
    if n.npduHopCount == 0:
        return None
    new = deepcopy(n)
    new.pduSource = None
    new.pduDestination = None
    new.npduHopCount -= 1
    if not n.npduSADR:
        new.npduSADR = mk_addr(add_sadr)
    else:
        new.npduSADR = n.npduSADR
    if strip:
        new.npduDADR = None
    return new


def impl_reenc_fwd(add_sadr, strip, octets):
    from bacpypes.npdu import NPDU
    from bacpypes.pdu import PDU

    def f():
        n = NPDU()
        n.decode(PDU(bytes(octets)))
        new = forward_like_router(n, add_sadr, strip)
        if new is None:
            return None
        p = PDU()
        new.encode(p)
        return p.pduData
    return canon_call(f, lambda r: [0] if r is None else [1] + list(r))


def impl_reenc_frame(octets):
    from bacpypes.npdu import NPDU, npdu_types
    from bacpypes.pdu import PDU

    def f():
        n = NPDU()
        n.decode(PDU(bytes(octets)))
        o = npdu_types[n.npduNetMessage]()
        o.decode(n)
        n2 = NPDU()
        o.encode(n2)                      # the message object, as decoded
        p = PDU()
        n2.encode(p)
        return p.pduData
    return canon_call(f, list)


def case_reenc(octets, kind='reenc'):
    octets = bytes(octets)
    return Case(kind, 'canon_res zs (reenc %s)' % nlist(octets), impl_reenc(octets), key=('reenc', octets),
                nontrivial=len(octets) >= 3, desc={'op': 'reenc', 'octets': octets.hex()})


def case_reenc_fwd(add_sadr, strip, octets, kind='reenc-fwd'):
    octets = bytes(octets)
    sa = coq_addr(add_sadr)
    return Case(kind, 'canon_res canon_optbytes (reenc_fwd (mkFwd %s %s) %s)' % (sa, 'true' if strip else 'false', nlist(octets)),
                impl_reenc_fwd(add_sadr, strip, octets), key=('reencfwd', repr(add_sadr), strip, octets), nontrivial=True,
                desc={'op': 'reenc_fwd', 'octets': octets.hex(), 'strip': strip,
                      'add_sadr': None if add_sadr is None else [add_sadr[0], add_sadr[1], bytes(add_sadr[2]).hex()]})


def case_reenc_frame(octets, kind='reenc-frame'):
    octets = bytes(octets)
    return Case(kind, 'canon_res zs (reenc_frame %s)' % nlist(octets), impl_reenc_frame(octets), key=('reencframe', octets),
                nontrivial=True, desc={'op': 'reenc_frame', 'octets': octets.hex()})


# ---- cases
def case_enc(H, payload=b'', kind='enc'):
    exp = impl_enc_npdu(H, payload)
    nontriv = any(x is not None for x in H[3:]) or bool(H[1]) or H[2] != 0
    return Case(kind, 'canon_res zs (enc_npdu %s %s)' % (coq_npci(H), nlist(payload)), exp,
                key=('enc', repr(H), bytes(payload)), nontrivial=nontriv,
                desc={'op': 'enc_npdu', 'header': descH(H), 'payload': bytes(payload).hex()})


def case_dec(octets, kind='dec'):
    octets = bytes(octets)
    exp = impl_dec_npdu(octets)
    return Case(kind, 'canon_res canon_dec (dec_npdu %s)' % nlist(octets), exp, key=('dec', octets),
                nontrivial=len(octets) >= 3, desc={'op': 'dec_npdu', 'octets': octets.hex()})


def case_enc_msg(M, kind='msg-enc'):
    exp = impl_enc_msg(M)
    return Case(kind, 'canon_res zs (enc_msg %s)' % coq_msg(M), exp, key=('menc', repr(M)),
                nontrivial=len(M) > 1, desc={'op': 'enc_msg', 'msg': descM(M)})


def case_dec_msg(t, body, kind='msg-dec'):
    body = bytes(body)
    exp = impl_dec_msg(t, body)
    return Case(kind, 'canon_res canon_decmsg (dec_msg %s %s)' % (cN(t), nlist(body)), exp, key=('mdec', t, body),
                nontrivial=len(body) >= 1 or t in CODES, desc={'op': 'dec_msg', 'type': t, 'body': body.hex()})


def case_enc_frame(H, M, kind='frame-enc'):
    exp = impl_enc_frame(H, M)
    return Case(kind, 'canon_res zs (enc_frame %s %s)' % (coq_npci(H), coq_msg(M)), exp, key=('fenc', repr(H), repr(M)),
                nontrivial=True, desc={'op': 'enc_frame', 'header': descH(H), 'msg': descM(M)})


def case_dec_frame(octets, kind='frame-dec'):
    octets = bytes(octets)
    exp = impl_dec_frame(octets)
    return Case(kind, 'canon_res canon_frame (dec_frame %s)' % nlist(octets), exp, key=('fdec', octets),
                nontrivial=len(octets) >= 3, desc={'op': 'dec_frame', 'octets': octets.hex()})


# ---------------------------------------------------------------------------------------------
# generators
def rmac(rng, n):
    return bytes(rng.randrange(256) for _ in range(n))


def rnet(rng):
    return rng.choice([0, 1, 2, 255, 256, 257, 4660, 65534, rng.randrange(65535), rng.randrange(65535)])


def dadr_shapes(rng):
    return [None, ('rs', rnet(rng), rmac(rng, 1)), ('rs', rnet(rng), rmac(rng, 6)), ('rs', rnet(rng), rmac(rng, 255)),
            ('rb', rnet(rng)), ('gb',)]


def sadr_shapes(rng):
    return [None, ('rs', rnet(rng), rmac(rng, 1)), ('rs', rnet(rng), rmac(rng, 6)), ('rs', rnet(rng), rmac(rng, 255))]


HOPS = [0, 1, 254, 255]
MSGKINDS = [None, 0x00, 0x13, 0x7F, 0x80, 0xFF]


def vendor_for(rng, t):
    if t is not None and 0x80 <= t <= 0xFF:
        return rng.choice([0, 1, 255, 256, 260, 65535, rng.randrange(65536)])
    return None


def wf_headers(rng, full):
    """the grid of the property's quantifier (well-formed headers)"""
    k = 0
    for er in (0, 1):
        for prio in range(4):
            for di, d0 in enumerate(dadr_shapes(rng)):
                for si in range(4):
                    for ti, t in enumerate(MSGKINDS):
                        # quick tier: the 255-octet MAC shapes (1 kB of literal each) only on a quarter of the grid
                        if not full and (di == 3 or si == 3) and (er * 4 + prio + di + si + ti) % 4 != 0:
                            continue
                        hops = HOPS if (full and d0 is not None) else [HOPS[k % 4]]
                        for hop in hops:
                            k += 1
                            d = dadr_shapes(rng)[di]
                            s = sadr_shapes(rng)[si]
                            yield (1, er, prio, d, s, hop if d is not None else None, t, vendor_for(rng, t))


def random_wf_header(rng, with_msg=None):
    d = rng.choice(dadr_shapes(rng)[:3] + dadr_shapes(rng)[4:])          # no 255-octet MACs here (size)
    s = rng.choice(sadr_shapes(rng)[:3])
    t = with_msg if with_msg is not None else rng.choice([None, None, rng.randrange(256)])
    return (1, rng.randrange(2), rng.randrange(4), d, s, rng.choice(HOPS + [rng.randrange(256)]) if d is not None else None,
            t, vendor_for(rng, t))


def malformed_headers(rng):
    """headers outside the domain: the encoder's own refusals and silent masks"""
    base = (1, 0, 0, None, None, None, None, None)

    def w(**kw):
        names = ['ver', 'er', 'prio', 'dadr', 'sadr', 'hop', 'nmsg', 'vendor']
        h = list(base)
        for k, v in kw.items():
            h[names.index(k)] = v
        return tuple(h)
    rs = ('rs', 5, b'\x01\x02')
    out = [w(ver=0), w(ver=2), w(ver=255), w(ver=256), w(prio=4), w(prio=7), w(prio=255), w(prio=256 + 2),
           w(dadr=rs), w(dadr=rs, hop=256), w(dadr=rs, hop=300), w(hop=7), w(dadr=('gb',)), w(dadr=('rb', 9)),
           w(dadr=('rs', 5, rmac(rng, 256)), hop=1), w(dadr=('rs', 5, rmac(rng, 300)), hop=1), w(dadr=('rs', 5, b''), hop=1),
           w(dadr=('rs', 65535, b'\x01'), hop=1), w(dadr=('rs', 65536 + 7, b'\x01'), hop=1), w(dadr=('rb', 65535), hop=1),
           w(dadr=('rb', 70000), hop=1),
           w(sadr=('rb', 5)), w(sadr=('gb',)), w(sadr=('rs', 5, b'')), w(sadr=('rs', 65535, b'\x01')), w(sadr=('rs', 65536 + 9, b'\x01\x02')),
           w(sadr=('rs', 5, rmac(rng, 256))), w(dadr=rs, sadr=('rb', 5), hop=1), w(dadr=('rs', 5, rmac(rng, 256)), sadr=('gb',)),
           w(nmsg=256), w(nmsg=300, vendor=5), w(nmsg=0x80), w(nmsg=0xFF), w(nmsg=0x7F, vendor=5), w(nmsg=0, vendor=5),
           w(nmsg=0x80, vendor=65536 + 3), w(nmsg=0x90, vendor=70000), w(vendor=5), w(nmsg=256, dadr=rs),
           w(dadr=rs, sadr=rs, nmsg=0x85), w(ver=256, dadr=rs)]
    return out


def ref_layout(H):
    """clause 6.2 layout written from the standard (independent of the implementation)"""
    ver, er, prio, dadr, sadr, hop, nmsg, vendor = H
    c = (0x80 if nmsg is not None else 0) | (0x20 if dadr is not None else 0) | (0x08 if sadr is not None else 0) \
        | (0x04 if er else 0) | prio
    out = [ver, c]
    for a in (dadr, sadr):
        if a is None:
            continue
        if a[0] == 'rs':
            out += [a[1] >> 8, a[1] & 255, len(a[2])] + list(a[2])
        elif a[0] == 'rb':
            out += [a[1] >> 8, a[1] & 255, 0]
        else:
            out += [0xFF, 0xFF, 0]
    if dadr is not None:
        out += [hop]
    if nmsg is not None:
        out += [nmsg]
        if nmsg >= 0x80:
            out += [vendor >> 8, vendor & 255]
    return bytes(out)


def ref_parse(b):
    """Reference reading of a header (clause 6.2).  Returns
       ('refuse', why)            — the property demands a decoding error,
       ('fields', H, rest)        — canonical header: the decoder must return exactly these fields,
       ('free', why)              — the text leaves the outcome open (reserved bits set, DNET=0xFFFF with DLEN>0)."""
    b = bytes(b)
    if len(b) < 2:
        return ('refuse', 'truncated')
    if b[0] != 1:
        return ('refuse', 'version')
    c = b[1]
    i = 2
    free = None
    if c & 0x50:
        free = 'reserved bits'
    dadr = sadr = hop = nmsg = vendor = None
    if c & 0x20:
        if len(b) < i + 3: return ('refuse', 'truncated')
        dnet, dlen = (b[i] << 8) | b[i + 1], b[i + 2]
        i += 3
        if len(b) < i + dlen: return ('refuse', 'truncated')
        mac = b[i:i + dlen]
        i += dlen
        if dnet == 0xFFFF:
            if dlen: free = 'global broadcast with DLEN>0'
            dadr = ('gb',)
        elif dlen == 0:
            dadr = ('rb', dnet)
        else:
            dadr = ('rs', dnet, mac)
    if c & 0x08:
        if len(b) < i + 3: return ('refuse', 'truncated')
        snet, slen = (b[i] << 8) | b[i + 1], b[i + 2]
        i += 3
        if len(b) < i + slen: return ('refuse', 'truncated')
        mac = b[i:i + slen]
        i += slen
        if snet == 0xFFFF or slen == 0:
            return ('refuse', 'bad-sadr')
        sadr = ('rs', snet, mac)
    if c & 0x20:
        if len(b) < i + 1: return ('refuse', 'truncated')
        hop = b[i]
        i += 1
    if c & 0x80:
        if len(b) < i + 1: return ('refuse', 'truncated')
        nmsg = b[i]
        i += 1
        if nmsg >= 0x80:
            if len(b) < i + 2: return ('refuse', 'truncated')
            vendor = (b[i] << 8) | b[i + 1]
            i += 2
    if free:
        return ('free', free)
    return ('fields', (1, 1 if c & 4 else 0, c & 3, dadr, sadr, hop, nmsg, vendor), b[i:])


def canon_Hspec(H):
    """what canon_npci must give for an object carrying exactly the fields of H"""
    def a(x):
        if x is None: return [0]
        if x[0] == 'rs': return [1, 0, x[1], len(x[2])] + list(x[2])
        if x[0] == 'rb': return [1, 1, x[1]]
        return [1, 2]
    return [H[0], 1 if H[1] else 0, H[2]] + a(H[3]) + a(H[4]) + canon_optn(H[5]) + canon_optn(H[6]) + canon_optn(H[7])


def control_continuations(rng, c):
    """for a control octet: one well-formed continuation built from its bits, and ill-formed relatives"""
    d = rng.choice(dadr_shapes(rng)[1:3] + dadr_shapes(rng)[4:]) if c & 0x20 else None
    s = rng.choice(sadr_shapes(rng)[1:3]) if c & 0x08 else None
    t = rng.choice([rng.randrange(0x80), rng.randrange(0x80, 0x100), rng.choice(CODES)]) if c & 0x80 else None
    H = (1, 1 if c & 4 else 0, c & 3, d, s, rng.choice(HOPS) if d is not None else None, t, vendor_for(rng, t))
    good = bytearray(ref_layout(H))
    good[1] = c                                 # keeps the reserved bits of c
    good = bytes(good)
    payload = rmac(rng, rng.randrange(0, 4))
    outs = [good, good + payload]
    if len(good) > 2:
        outs.append(good[:rng.randrange(2, len(good))])                   # truncated inside the optional fields
        outs.append(good[:-1])
    if c & 0x08:                                                          # broadcast / zero-length source
        for ln in (1, rng.choice([2, 3, 6]), 0):                          # SNET=0xFFFF with SLEN 1, a few, 0
            Hb = H[:4] + (('rs', 0xFFFF, rmac(rng, ln)),) + H[5:]
            x = bytearray(ref_layout(Hb)); x[1] = c
            outs.append(bytes(x) + payload)
        Hz = H[:4] + (('rs', rnet(rng), b''),) + H[5:]
        x = bytearray(ref_layout(Hz)); x[1] = c
        outs.append(bytes(x) + payload)
    if c & 0x20:                                                          # DNET=0xFFFF with a DLEN
        Hg = H[:3] + (('rs', 0xFFFF, rmac(rng, 3)),) + H[4:]
        x = bytearray(ref_layout(Hg)); x[1] = c
        outs.append(bytes(x))
    return outs


def mutate(rng, bs):
    m = bytearray(bs)
    how = rng.randrange(4)
    if not m:
        return bytes([rng.randrange(256)])
    k = rng.randrange(len(m))
    if how == 0:
        m[k] = rng.randrange(256)
    elif how == 1:
        del m[k]
    elif how == 2:
        m.insert(k, rng.randrange(256))
    else:
        m = m[:k]
    return bytes(m)


def rnets(rng, n):
    return [rng.choice([0, 1, 255, 256, 65534, 65535, rng.randrange(65536)]) for _ in range(n)]


def rtable(rng, n, lens=(0, 1, 2, 255)):
    return [(rng.choice([0, 1, 65535, rng.randrange(65536)]), rng.choice([0, 1, 255, rng.randrange(256)]),
             rmac(rng, rng.choice(lens))) for _ in range(n)]


NETS_B = [0, 1, 255, 256, 65534, 65535]
OCT_B = [0, 1, 127, 128, 255]


def wf_messages(rng, big):
    out = [('whois', None), ('what',)]
    for n in NETS_B + [rng.randrange(65536)]:
        out += [('whois', n), ('disc', n)]
        for o in OCT_B:
            out += [('icb', n, o), ('rej', o, n), ('est', n, o), ('nni', n, o)]
    for k in range(0, 21):
        for kind in ('iam', 'busy', 'avail'):
            out.append((kind, rnets(rng, k)))
    for k in range(0, 6):
        for rep in range(4 if big else 2):
            out.append(('irt', rtable(rng, k)))
            out.append(('irta', rtable(rng, k)))
    # an entry with port info followed by entries without, and the other way round
    for kind in ('irt', 'irta'):
        out.append((kind, [(5, 1, b'ab'), (6, 2, b'')]))
        out.append((kind, [(5, 1, rmac(rng, 3)), (6, 2, b''), (7, 3, b''), (8, 4, rmac(rng, 1))]))
        out.append((kind, [(5, 1, b''), (6, 2, rmac(rng, 2)), (7, 3, b'')]))
    out.append(('irt', rtable(rng, 255, lens=(0, 1, 2))))
    out.append(('irta', [(7, 3, rmac(rng, 255))] * 2))
    return out


def malformed_messages(rng):
    return [('whois', 65536), ('whois', 65536 + 77), ('iam', [65536 + 5, 3]), ('busy', [70000]), ('avail', [65535, 65536]),
            ('icb', 5, 256), ('icb', 65536 + 5, 255), ('rej', 256, 5), ('rej', 3, 70000), ('est', 5, 256), ('est', 70000, 300),
            ('disc', 65536), ('nni', 5, 256), ('nni', 65536 + 1, 1),
            ('irt', [(5, 256, b'')]), ('irt', [(5, 1, rmac(rng, 256))]), ('irta', [(70000, 1, b'ab')]),
            ('irt', [(5, 1, b'a'), (6, 300, b'b')]), ('irta', [(5, 1, rmac(rng, 256)), (6, 300, b'')]),
            ('irt', rtable(rng, 256, lens=(0,))), ('irta', rtable(rng, 257, lens=(0, 1)))]


def class_bodies(rng):
    """per message kind: a few (message, encoded body) pairs, non-empty ones first"""
    per = {k: [] for k in KINDS}
    for M in wf_messages(rng, False):
        if M[0] in ('irt', 'irta') and len(M[1]) > 6:
            continue
        e = impl_enc_msg(M)
        if e[0] == 0:
            per[M[0]].append((M, bytes(e[1:])))
    for k in per:
        rng.shuffle(per[k])
        per[k].sort(key=lambda mb: len(mb[1]) == 0)      # empty bodies last
    return per


def histories(rng, big):
    per = class_bodies(rng)
    out = []
    # every class on its own: several decodes in a row, then (where the class can be built without
    # arguments) an encode of a default-constructed object, then one more decode
    for k in KINDS:
        t = CODE_OF_KIND[k]
        for rep in range(6 if big else 3):
            pick = [rng.choice(per[k][:max(1, len(per[k]) // 2)])] + [rng.choice(per[k]) for _ in range(rng.randrange(2, 5))]
            ops = [('decmsg', t, b) for _, b in pick]
            if rep % 3 == 1:
                ops.insert(1, ('decmsg', t, mutate(rng, pick[0][1])))       # a refused decode in between
            if k in DEFAULTS:
                ops.append(('encdefault', k))
                ops.append(('decmsg', t, rng.choice(per[k])[1]))
                ops.append(('encdefault', k))
            else:
                ops.append(('encmsg', rng.choice(per[k])[0]))
            out.append(ops)
    # mixed histories over all classes, header decodes and encodes
    hdrs = [ref_layout(H) + rmac(rng, rng.randrange(3)) for H in itertools.islice(wf_headers(rng, False), 0, None, 37)
            if (H[3] is None or len(H[3]) < 3 or len(H[3][2]) < 50) and (H[4] is None or len(H[4][2]) < 50)]
    for _ in range(200 if big else 50):
        ops = []
        for _ in range(rng.randrange(4, 10)):
            k = rng.choice(KINDS)
            r = rng.random()
            if r < 0.6:
                ops.append(('decmsg', CODE_OF_KIND[k], rng.choice(per[k])[1]))
            elif r < 0.7:
                ops.append(('decmsg', CODE_OF_KIND[k], mutate(rng, rng.choice(per[k])[1])))
            elif r < 0.8:
                ops.append(('decnpdu', rng.choice(hdrs)))
            elif r < 0.9 and k in DEFAULTS:
                ops.append(('encdefault', k))
            else:
                ops.append(('encmsg', rng.choice(per[k])[0]))
        out.append(ops)
    return out


def reenc_inputs(rng, c, per):
    """for a control octet (reserved bits as they are): the fields its other bits call for, the frame with exactly
    this control octet, and — when it is a network message — a frame carrying a real message body"""
    d = rng.choice(dadr_shapes(rng)[1:3] + dadr_shapes(rng)[4:]) if c & 0x20 else None
    s_ = rng.choice(sadr_shapes(rng)[1:3]) if c & 0x08 else None
    t = rng.choice([rng.randrange(0x80), rng.randrange(0x80, 0x100)]) if c & 0x80 else None
    H = (1, 1 if c & 4 else 0, c & 3, d, s_, rng.choice([0, 1, 1, 2, 254, 255, 255]) if d is not None else None, t, vendor_for(rng, t))
    payload = rmac(rng, rng.randrange(0, 4))
    x = bytearray(ref_layout(H)); x[1] = c
    out = {'H': H, 'payload': payload, 'frame': bytes(x) + payload, 'msg': None}
    if c & 0x80:
        k = rng.choice(KINDS)
        M, body = rng.choice(per[k])
        Hm = H[:6] + (CODE_OF_KIND[k], None)
        y = bytearray(ref_layout(Hm)); y[1] = c
        out['msg'] = {'H': Hm, 'M': M, 'body': body, 'frame': bytes(y) + body}
    return out


def cases(rng, tier):
    big = tier == 'thorough'
    out = []
    valid_frames = []
    # --- headers: the grid of the quantifier, encode and decode of what was produced
    for H in wf_headers(rng, big):
        payload = rmac(rng, rng.choice([0, 0, 1, 3]))
        c = case_enc(H, payload)
        out.append(c)
        if c.expected[0] == 0:
            bs = bytes(c.expected[1:])
            out.append(case_dec(bs, 'dec-valid'))
            if len(H[3] or ()) < 3 or len(H[3][2]) < 200:
                valid_frames.append(bs)
    # every message type under two header shapes
    for t in range(256):
        for H in (random_wf_header(rng, t), (1, 0, 0, None, None, None, t, vendor_for(rng, t))):
            c = case_enc(H, b'\x05', 'enc-msgtype')
            out.append(c)
            if c.expected[0] == 0:
                out.append(case_dec(bytes(c.expected[1:]), 'dec-valid'))
    for H in malformed_headers(rng):
        out.append(case_enc(H, b'\xAA', 'enc-malformed'))
    # --- decode: all control octets, short strings, mutated frames
    for c in range(256):
        for bs in control_continuations(rng, c):
            out.append(case_dec(bs, 'dec-control'))
    out.append(case_dec(b'', 'dec-exh'))
    for a in range(256):
        out.append(case_dec(bytes([a]), 'dec-exh'))
        out.append(case_dec(bytes([1, a]), 'dec-exh'))
    if big:
        for a in range(256):
            for b in range(256):
                if a != 1 and b % 16 == a % 16:      # the version test does not look at the second octet
                    out.append(case_dec(bytes([a, b]), 'dec-exh'))
                out.append(case_dec(bytes([1, a, b]), 'dec-exh3'))
        for _ in range(5000):
            out.append(case_dec(rmac(rng, 3), 'dec-len3'))
    else:
        for a in range(256):
            for b in [(0x00, 0x04, 0x08, 0x20, 0x80, 0xA8, 0xFF)[a % 7], rng.randrange(256)]:
                out.append(case_dec(bytes([a, b]), 'dec-exh'))
        for _ in range(400):
            out.append(case_dec(bytes([1, rng.randrange(256), rng.randrange(256)]), 'dec-len3'))
        for _ in range(100):
            out.append(case_dec(rmac(rng, 3), 'dec-len3'))
    for _ in range(3000 if big else 500):
        out.append(case_dec(mutate(rng, rng.choice(valid_frames)), 'dec-mutated'))
    # --- messages
    frames = []
    for M in wf_messages(rng, big):
        c = case_enc_msg(M)
        out.append(c)
        if c.expected[0] == 0:
            body = bytes(c.expected[1:])
            out.append(case_dec_msg(CODE_OF_KIND[M[0]], body, 'msg-dec-valid'))
            if len(body) < 300:
                H = random_wf_header(rng, 0)
                f = case_enc_frame(H, M)
                out.append(f)
                if f.expected[0] == 0:
                    fb = bytes(f.expected[1:])
                    out.append(case_dec_frame(fb, 'frame-dec-valid'))
                    frames.append(fb)
                if body:
                    out.append(case_dec_msg(CODE_OF_KIND[M[0]], mutate(rng, body), 'msg-dec-mutated'))
                    out.append(case_dec_msg(CODE_OF_KIND[M[0]], body + rmac(rng, rng.randrange(1, 3)), 'msg-dec-trailing'))
    for M in malformed_messages(rng):
        out.append(case_enc_msg(M, 'msg-enc-malformed'))
        out.append(case_enc_frame((1, 0, 0, None, None, None, None, None), M, 'frame-enc-malformed'))
    for H in malformed_headers(rng)[:30]:
        out.append(case_enc_frame(H, ('icb', 5, 6), 'frame-enc-malformed'))
        out.append(case_enc_frame(H, ('icb', 5, 256), 'frame-enc-malformed'))
    # registry: every type code
    for t in range(256):
        out.append(case_dec_msg(t, b'', 'registry'))
        if big or t < 0x20 or t % 8 == 0:
            out.append(case_dec_msg(t, bytes([0, 7, 1, 0, 9, 2, 1, 0xEE]), 'registry'))
    out.append(case_dec_msg(256, b'\x00\x01', 'registry'))
    # every body of length <= 1 under each registered type; sampled longer ones
    for t in CODES:
        for a in (range(256) if big else sorted(set([0, 1, 2, 3, 127, 128, 254, 255] + [rng.randrange(256) for _ in range(24)]))):
            out.append(case_dec_msg(t, bytes([a]), 'msg-dec-exh'))
        for _ in range(600 if big else 60):
            out.append(case_dec_msg(t, rmac(rng, rng.choice([2, 2, 3, 4, 5, 6])), 'msg-dec-short'))
        for n in (0, 1, 2, 3, 255):      # routing tables: declared count vs what is there
            out.append(case_dec_msg(t, bytes([n]) + rmac(rng, rng.randrange(0, 12)), 'msg-dec-short'))
    for _ in range(2000 if big else 400):
        fb = mutate(rng, rng.choice(frames))
        if len(fb) < 2 or fb[1] & 0x80:
            out.append(case_dec_frame(fb, 'frame-dec-mutated'))
        else:
            out.append(case_dec(fb, 'dec-mutated'))
    for ops in histories(rng, big):
        out.append(case_history(ops))
    # decode, then encode the same object again: every control octet
    per = class_bodies(rng)
    for c in range(256):
        for rep in range(3 if big else 1):
            r = reenc_inputs(rng, c, per)
            out.append(case_reenc(r['frame']))
            if c & 0x20:
                out.append(case_reenc_fwd(('rs', rnet(rng), rmac(rng, rng.choice([1, 6]))), bool((c + rep) & 1), r['frame']))
            if r['msg']:
                out.append(case_reenc_frame(r['msg']['frame']))
    for _ in range(300 if big else 60):                       # and around mutated / refused frames
        fb = mutate(rng, rng.choice(frames))
        out.append(case_reenc(fb, 'reenc-mutated'))
        if len(fb) < 2 or fb[1] & 0x80:
            out.append(case_reenc_frame(fb, 'reenc-mutated'))
    return spread_heavy(out)


def spread_heavy(cs, limit=150):
    """The in-kernel shards are consecutive slices of the case list; a slice made only of 255-octet-MAC cases
    (about 1000 numerals each) costs coqc gigabytes.  Deterministically interleave the heavy cases with the
    light ones so that every shard gets the same small share of them."""
    heavy = [c for c in cs if c.coq.count(';') + len(c.expected) > limit]
    light = [c for c in cs if c.coq.count(';') + len(c.expected) <= limit]
    if not heavy or not light:
        return cs
    step = max(1, len(light) // len(heavy))
    out, hi = [], 0
    for i, c in enumerate(light):
        if i % step == 0 and hi < len(heavy):
            out.append(heavy[hi])
            hi += 1
        out.append(c)
    out.extend(heavy[hi:])
    return out


# ---------------------------------------------------------------------------------------------
# direct, implementation-only predicate
def check_header_roundtrip(H, payload):
    """encode -> clause 6.2 layout -> decode gives the same fields and payload"""
    from bacpypes.npdu import NPDU
    from bacpypes.pdu import PDU
    try:
        n = fill_npci(NPDU(bytes(payload)), H)
        p = PDU()
        n.encode(p)
        octets = bytes(p.pduData)
    except Exception as e:
        return {'kind': 'encode-exception', 'header': descH(H), 'payload': bytes(payload).hex(), 'exc': type(e).__name__}
    want = ref_layout(H) + bytes(payload)
    if octets != want:
        return {'kind': 'layout', 'header': descH(H), 'payload': bytes(payload).hex(), 'got': octets.hex(), 'want': want.hex()}
    try:
        m = NPDU()
        m.decode(PDU(octets))
    except Exception as e:
        return {'kind': 'decode-exception', 'header': descH(H), 'payload': bytes(payload).hex(), 'octets': octets.hex(), 'exc': type(e).__name__}
    if canon_npci(m) != canon_Hspec(H) or bytes(m.pduData) != bytes(payload):
        return {'kind': 'roundtrip', 'header': descH(H), 'payload': bytes(payload).hex(), 'octets': octets.hex(),
                'decoded': canon_npci(m)[:40], 'decoded_payload': bytes(m.pduData).hex()}
    return None


def check_refusal(octets, why):
    """a forbidden or truncated header must be refused with DecodingError"""
    from bacpypes.npdu import NPDU
    from bacpypes.pdu import PDU
    from bacpypes.errors import DecodingError
    try:
        m = NPDU()
        m.decode(PDU(bytes(octets)))
    except DecodingError:
        return None
    except Exception as e:
        return {'kind': 'refused-with-other-error', 'why': why, 'octets': bytes(octets).hex(), 'exc': type(e).__name__}
    return {'kind': 'not-refused', 'why': why, 'octets': bytes(octets).hex(), 'decoded': canon_npci(m)[:40]}


def check_octets(octets):
    """arbitrary octets against the reference reading"""
    r = ref_parse(octets)
    if r[0] == 'refuse':
        return check_refusal(octets, r[1])
    if r[0] == 'free':
        return None
    from bacpypes.npdu import NPDU
    from bacpypes.pdu import PDU
    try:
        m = NPDU()
        m.decode(PDU(bytes(octets)))
    except Exception as e:
        return {'kind': 'valid-header-refused', 'octets': bytes(octets).hex(), 'exc': type(e).__name__}
    if canon_npci(m) != canon_Hspec(r[1]) or bytes(m.pduData) != r[2] or m.npduControl != octets[1]:
        return {'kind': 'misread', 'octets': bytes(octets).hex(), 'decoded': canon_npci(m)[:40], 'want': canon_Hspec(r[1])[:40]}
    return None


def check_msg_roundtrip(H, M):
    """message.encode + NPDU.encode, then NPDU.decode + npdu_types dispatch: same header fields, same parameters"""
    from bacpypes.npdu import NPDU, npdu_types
    from bacpypes.pdu import PDU
    d = {'header': descH(H), 'msg': descM(M)}
    try:
        o = fill_npci(mk_msg(M), H[:6] + ('keep',) + H[7:])
        n = NPDU()
        o.encode(n)
        p = PDU()
        n.encode(p)
        octets = bytes(p.pduData)
    except Exception as e:
        return dict(d, kind='msg-encode-exception', exc=type(e).__name__)
    Hm = H[:6] + (CODE_OF_KIND[M[0]],) + H[7:]
    if not octets.startswith(ref_layout(Hm)):
        return dict(d, kind='msg-header-layout', got=octets.hex(), want_prefix=ref_layout(Hm).hex())
    try:
        n2 = NPDU()
        n2.decode(PDU(octets))
        cls = npdu_types[n2.npduNetMessage]
        o2 = cls()
        o2.decode(n2)
    except Exception as e:
        return dict(d, kind='msg-decode-exception', octets=octets.hex(), exc=type(e).__name__)
    if canon_msgobj(o2) != canon_msgspec(M) or canon_npci(o2) != canon_Hspec(Hm) or len(n2.pduData) != 0:
        return dict(d, kind='msg-roundtrip', octets=octets.hex(), decoded=canon_msgobj(o2)[:40], left=bytes(n2.pduData).hex())
    return None


def check_history(pairs, kind):
    """decode the bodies one after the other through the registry (default-constructed objects); afterwards
    EVERY decoded object must still carry exactly the parameters of its own message, and a default-constructed
    object of the class must still be empty"""
    from bacpypes import npdu as N
    d = {'kind': 'history-dependent', 'class': NAME_OF_KIND[kind], 'history': [descM(M) for M, _ in pairs],
         'bodies': [bytes(b).hex() for _, b in pairs]}
    objs = []
    try:
        for M, body in pairs:
            n = N.NPDU(bytes(body))
            n.npduNetMessage = CODE_OF_KIND[kind]
            o = N.npdu_types[CODE_OF_KIND[kind]]()
            o.decode(n)
            objs.append(o)
        fresh = None
        if kind in DEFAULTS:
            n = N.NPDU()
            getattr(N, NAME_OF_KIND[kind])().encode(n)
            fresh = bytes(n.pduData)
    except Exception as e:
        return dict(d, kind='history-exception', exc=type(e).__name__)
    for i, ((M, _), o) in enumerate(zip(pairs, objs)):
        if canon_msgobj(o) != canon_msgspec(M):
            return dict(d, index=i, decoded=canon_msgobj(o)[:40], want=canon_msgspec(M)[:40])
    want_fresh = {'irt': b'\x00', 'irta': b'\x00'}.get(kind, b'')
    if fresh is not None and fresh != want_fresh:
        return dict(d, index=-1, default_constructed_encodes_to=fresh.hex())
    return None


def check_reencode(r, add_sadr, strip):
    """a frame decoded and encoded again from the same object (plain; forwarded like a router; as a message object)
    must be the canonical clause 6.2 frame of its fields: in particular reserved control bits 6 and 4 are clear"""
    from bacpypes.npdu import NPDU, npdu_types
    from bacpypes.pdu import PDU
    H, payload, frame = r['H'], r['payload'], r['frame']
    d = {'kind': 'reencode-not-canonical', 'octets': frame.hex()}
    try:
        n = NPDU()
        n.decode(PDU(frame))
        p = PDU()
        n.encode(p)
        got = bytes(p.pduData)
        want = ref_layout(H) + payload
        if got != want:
            return dict(d, how='plain', got=got.hex(), want=want.hex())
        if H[3] is not None and H[5] >= 1:
            n = NPDU()
            n.decode(PDU(frame))
            new = forward_like_router(n, add_sadr, strip)
            p = PDU()
            new.encode(p)
            got = bytes(p.pduData)
            Hf = (H[0], H[1], H[2], None if strip else H[3], H[4] if H[4] is not None else add_sadr,
                  None if strip else H[5] - 1, H[6], H[7])
            want = ref_layout(Hf) + payload
            if got != want:
                return dict(d, how='forward', strip=strip, add_sadr=[add_sadr[0], add_sadr[1], bytes(add_sadr[2]).hex()],
                            got=got.hex(), want=want.hex())
        if r['msg']:
            m = r['msg']
            d = dict(d, octets=m['frame'].hex())
            n = NPDU()
            n.decode(PDU(m['frame']))
            o = npdu_types[n.npduNetMessage]()
            o.decode(n)
            n2 = NPDU()
            o.encode(n2)
            p = PDU()
            n2.encode(p)
            got = bytes(p.pduData)
            want = ref_layout(m['H']) + m['body']
            if got != want:
                return dict(d, how='message', got=got.hex(), want=want.hex())
    except Exception as e:
        return dict(d, kind='reencode-exception', exc=type(e).__name__)
    return None


FIXED_KINDS = ('icb', 'rej', 'irt', 'irta', 'est', 'disc', 'nni')


def check_body_prefix(M, body, k):
    """the first k < len(body) octets of an encoded body: fixed-layout messages must be refused with DecodingError;
    a network list cut at an odd offset (or a Who-Is-Router network cut after one octet) likewise; a list cut on
    an element boundary must decode to exactly the shorter list"""
    from bacpypes import npdu as N
    from bacpypes.errors import DecodingError
    kind = M[0]
    d = {'msg': descM(M), 'body': bytes(body).hex(), 'cut': k}
    must_refuse = kind in FIXED_KINDS or (k % 2 == 1)
    try:
        n = N.NPDU(bytes(body[:k]))
        n.npduNetMessage = CODE_OF_KIND[kind]
        o = N.npdu_types[CODE_OF_KIND[kind]]()
        o.decode(n)
    except DecodingError:
        return None if must_refuse else dict(d, kind='body-prefix-refused-on-element-boundary')
    except Exception as e:
        return dict(d, kind='truncated-body-other-error', exc=type(e).__name__)
    if must_refuse:
        return dict(d, kind='truncated-body-not-refused', decoded=canon_msgobj(o)[:40])
    want = (kind, list(M[1])[:k // 2]) if kind in ('iam', 'busy', 'avail') else ('whois', None)
    if canon_msgobj(o) != canon_msgspec(want):
        return dict(d, kind='truncated-body-misread', decoded=canon_msgobj(o)[:40], want=canon_msgspec(want)[:40])
    return None


def direct(rng, tier, focus=()):
    big = tier == 'thorough'
    failures, nontriv, samples = [], set(), []
    n = 0

    def add(f):
        if f:
            failures.append(f)

    # 1. the quantifier's grid, full product in both tiers (implementation only: cheap)
    for H in wf_headers(rng, True):
        payload = rmac(rng, rng.choice([0, 1, 2, 5]))
        n += 1
        add(check_header_roundtrip(H, payload))
        nontriv.add(('rt', repr(H)))
        hdr = ref_layout(H)
        # version other than 1
        v = rng.choice([0, 2, 3, 0x81, 255, rng.randrange(2, 256)])
        n += 1
        add(check_refusal(bytes([v]) + hdr[1:] + payload, 'version'))
        # truncated: every strict prefix (all of them for short headers, boundaries + sample for the 255-octet MACs)
        ks = range(len(hdr)) if len(hdr) < 40 else sorted(set([0, 1, 2, 3, 4, 5, 6, len(hdr) - 3, len(hdr) - 2, len(hdr) - 1]
                                                                + [rng.randrange(len(hdr)) for _ in range(6)]))
        for k in ks:
            n += 1
            add(check_refusal(hdr[:k], 'truncated'))
        # broadcast / zero-length source
        if H[4] is not None:
            for bad in (('rs', 0xFFFF, H[4][2]), ('rs', H[4][1], b''), ('rs', 0xFFFF, b'')):
                n += 1
                add(check_refusal(ref_layout(H[:4] + (bad,) + H[5:]) + payload, 'bad-sadr'))
    samples.append({'direct': 'header roundtrip + layout + refusals', 'example': descH((1, 1, 3, ('rs', 5, b'\x01\x02\x03'), ('rs', 7, b'\x09'), 255, None, None))})
    # every message type x hop count x shapes
    for t in range(256):
        for hop in HOPS:
            H = random_wf_header(rng, t)
            if H[3] is not None:
                H = H[:5] + (hop,) + H[6:]
            n += 1
            add(check_header_roundtrip(H, rmac(rng, 2)))
            nontriv.add(('rt', repr(H)))
    # 2. arbitrary octets against the reference reading: all strings of length <= 2, [1,c,x] for all c,x, random longer, mutated frames
    add(check_octets(b''))
    for a in range(256):
        add(check_octets(bytes([a])))
        for b in range(256):
            n += 1
            add(check_octets(bytes([a, b])))
            add(check_octets(bytes([1, a, b])))
            n += 1
    valid = [ref_layout(H) + rmac(rng, rng.randrange(3)) for H in itertools.islice(wf_headers(rng, False), 0, None, 3)]
    for _ in range(200000 if big else 30000):
        bs = mutate(rng, rng.choice(valid)) if rng.random() < 0.7 else bytes([1]) + rmac(rng, rng.randrange(1, 12))
        n += 1
        add(check_octets(bs))
        if len(bs) >= 3:
            nontriv.add(bs)
    for c in range(256):
        for bs in control_continuations(rng, c):
            n += 1
            add(check_octets(bs))
            nontriv.add(bs)
    for _ in range(100000 if big else 10000):           # 3-octet strings with any first octet
        n += 1
        add(check_octets(rmac(rng, 3)))
    # 3. the twelve messages through the whole stack
    for rep in range(6 if big else 2):
        for M in wf_messages(rng, big):
            if M[0] in ('irt', 'irta') and len(M[1]) > 6 and rep:
                continue
            n += 1
            add(check_msg_roundtrip(random_wf_header(rng, 0), M))
            nontriv.add(('msg', repr(M)))
    # 3b. histories: several messages of each class decoded in one process
    per = class_bodies(rng)
    for k in KINDS:
        for rep in range(40 if big else 10):
            pairs = [rng.choice(per[k][:max(1, len(per[k]) // 2)])] + [rng.choice(per[k]) for _ in range(rng.randrange(1, 5))]
            n += 1
            add(check_history(pairs, k))
            nontriv.add(('hist', k, repr([m for m, _ in pairs])))
    # 3d. decode then re-encode the same object: all control octets x shapes
    for c in range(256):
        for rep in range(12 if big else 4):
            n += 1
            r = reenc_inputs(rng, c, per)
            add(check_reencode(r, ('rs', rnet(rng), rmac(rng, rng.choice([1, 6]))), bool(rep & 1)))
            nontriv.add(('reenc', r['frame']))
    # 3c. message bodies cut short
    for k in KINDS:
        for M, body in per[k][:(40 if big else 12)]:
            cuts = range(len(body)) if len(body) <= 48 else sorted(set([0, 1, 2, 3, 4, 5, len(body) - 2, len(body) - 1]
                                                                        + [rng.randrange(len(body)) for _ in range(8)]))
            for c in cuts:
                n += 1
                add(check_body_prefix(M, body, c))
    samples.append({'direct': 'history of decodes per class', 'example': [descM(('avail', [1, 2])), descM(('avail', [3]))]})
    samples.append({'direct': 'message roundtrip through npdu_types', 'example': descM(('irt', [(5, 1, b'\x01\x02')]))})
    # 4. focus: whatever the correspondence disagreed on
    for d in focus:
        if not isinstance(d, dict):
            continue
        try:
            if d.get('op') in ('dec_npdu', 'dec_frame'):
                add(check_octets(bytes.fromhex(d['octets'])))
            n += 1
        except Exception:
            pass
    return failures, {'evaluations': n, 'distinct_nontrivial': len(nontriv), 'exhaustive': True,
                      'exhaustive_domain': 'all octet strings of length <= 2 and all [1,c,x] against the reference reading; '
                                           'all 2^8 control octets with well-formed continuations; full header grid of the quantifier',
                      'samples': samples}


def classify(failure):
    return None


def _undescH(d):
    def a(x):
        if x is None: return None
        if x[0] == 'rs': return ('rs', x[1], bytes.fromhex(x[2]))
        return tuple(x)
    return (d['ver'], d['er'], d['prio'], a(d['dadr']), a(d['sadr']), d['hop'], d['nmsg'], d['vendor'])


def _undescM(m):
    if m[0] in ('irt', 'irta'):
        return (m[0], [(d, p, bytes.fromhex(i)) for d, p, i in m[1]])
    return tuple(m)


def replay(payload):
    f = payload.get('failure')
    if not f:
        f = {}
        for b in payload.get('broken', []):
            if isinstance(b, dict) and b.get('minimal_case'):
                mc = b['minimal_case']
                f = mc.get('desc') or {}
                print('correspondence case:', mc.get('coq', '')[:300])
                print('  implementation:', mc.get('implementation'), ' model:', mc.get('model'))
                break
            if isinstance(b, dict):
                print('broken:', b.get('what'))
    print('replay', f)
    if 'octets' in f and 'header' not in f and not (f.get('kind', '').startswith('reencode') or f.get('op', '').startswith('reenc')):
        bs = bytes.fromhex(f['octets'])
        print('reference reading :', ref_parse(bs)[:2])
        print('implementation    : NPDU.decode ->', impl_dec_npdu(bs))
        print('direct predicate  :', check_octets(bs))
    elif f.get('kind', '').startswith('reencode') or f.get('op', '').startswith('reenc'):
        bs = bytes.fromhex(f['octets'])
        print('implementation    : decode + re-encode ->', impl_reenc(bs))
        if len(bs) >= 2:
            print('canonical control : %02x (received %02x)' % (bs[1] & 0xAF, bs[1]))
        if f.get('how') == 'message' or f.get('op') == 'reenc_frame':
            print('implementation    : message decode + encode ->', impl_reenc_frame(bs))
    elif 'cut' in f and 'body' in f:
        print('direct predicate  :', check_body_prefix(_undescM(f['msg']), bytes.fromhex(f['body']), f['cut']))
    elif 'history' in f and 'bodies' in f:
        kind = KINDS[NAMES.index(f['class'])]
        pairs = [(_undescM(m), bytes.fromhex(b)) for m, b in zip(f['history'], f['bodies'])]
        print('direct predicate  :', check_history(pairs, kind))
    elif 'msg' in f and 'header' in f:
        H, M = _undescH(f['header']), _undescM(f['msg'])
        print('implementation    : frame ->', impl_enc_frame(H, M))
        print('direct predicate  :', check_msg_roundtrip(H, M))
    elif 'header' in f:
        H = _undescH(f['header'])
        pl = bytes.fromhex(f.get('payload', ''))
        print('reference layout  :', ref_layout(H).hex() if all(x is not None for x in (H[0],)) else None)
        print('implementation    : NPDU.encode ->', impl_enc_npdu(H, pl))
        print('direct predicate  :', check_header_roundtrip(H, pl))
    elif 'msg' in f:
        print('implementation    : enc_msg ->', impl_enc_msg(_undescM(f['msg'])))
    elif 'body' in f:
        print('implementation    : dec_msg ->', impl_dec_msg(f['type'], bytes.fromhex(f['body'])))
