"""C02 — tag streams are self-delimiting.  Correspondence (model Tag.v vs primitivedata.Tag/TagList,
constructeddata.Any) and the direct, implementation-only predicate."""
import itertools, signal
from core import Case, nlist
from pyerr import canon_call, exc_code

PROP = 'C02'
COQ_TARGETS = ['theories/TagFacts.vo', 'theories/TagGenFacts.vo']
TABLE_OBLIGATIONS = ['gen_Tag_encode_eq', 'gen_Tag_decode_eq', 'gen_TagList_encode_eq', 'gen_TagList_decode_eq']   # about coq/gen/TagFns.v
COQ_IMPORTS = 'From Bac Require Import Base Tag.'
RULE = ('cases: every octet string of length <= 2 (quick) / <= 3 sampled+exhaustive-2 (thorough) decoded by TagList.decode; '
        'tag lists over class x number {0,1,14,15,16,254,255} x length {0,1,4,5,6,253,254,255,65535,65536,70000} encoded by '
        'TagList.encode; all Dyck nestings of <= 4 groups with leaves, and every single-deletion unbalancing, through get_context and '
        'Any.decode; seeded random/mutated streams.  non-trivial = decodes to >= 1 tag, or is refused after >= 1 octet, '
        'or encodes >= 1 tag; distinct by (operation, input).')
TRUSTED = ['translator/gen_tagfns.py: Tag.encode/decode and TagList.encode/decode of primitivedata.py are re-translated statement by statement '
           'into coq/gen/TagFns.v on every run and proved equal to the hand model for all inputs (coq/theories/TagGenFacts.v); trusted: the '
           'Python-ast -> Gallina rules (ints as N, bytearray buffer as list N, evaluation order), the class/record vocabulary map, and that '
           'only docstrings, `pass` and `if _debug:` lines are skipped',
           'comm.PDUData (put/get/put_short/get_short/put_long/get_long/get_data = Base.v), TagList.get_context and Any.decode remain hand-modelled '
           '(coq/theories/Tag.v after primitivedata.py:388-435 and constructeddata.py Any.decode); their tie = correspondence']
ASSUMPTIONS = ['bytes/bytearray hold octets < 256 (CPython)', 'tag data lengths >= 2^32 are not generated (memory)']


def _tags():
    from bacpypes.primitivedata import Tag
    return Tag


def mk(cls, num, lvt, data):
    Tag = _tags()
    t = Tag()
    t.tagClass, t.tagNumber, t.tagLVT, t.tagData = cls, num, lvt, bytes(data)
    return t


def canon_tag(t):
    return [t.tagClass, t.tagNumber, t.tagLVT, len(t.tagData)] + list(t.tagData)


def canon_tags(ts):
    out = [len(ts)]
    for t in ts:
        out += canon_tag(t)
    return out


def coq_tag(t):
    cls, num, lvt, data = t
    return '(mkTag %d %d %d %s)' % (cls, num, lvt, nlist(data))


def coq_tags(ts):
    return '[' + ';'.join(coq_tag(t) for t in ts) + ']'


# ---- implementation drivers
def impl_decode(octets):
    from bacpypes.primitivedata import TagList
    from bacpypes.comm import PDUData

    def f():
        tl = TagList()
        tl.decode(PDUData(bytes(octets)))
        return tl.tagList
    return canon_call(f, canon_tags)


def impl_encode(ts):
    from bacpypes.primitivedata import TagList
    from bacpypes.comm import PDUData

    def f():
        pdu = PDUData()
        TagList([mk(*t) for t in ts]).encode(pdu)
        return pdu.pduData
    return canon_call(f, list)


def impl_get_context(ctx, ts):
    from bacpypes.primitivedata import TagList, Tag

    def f():
        return TagList([mk(*t) for t in ts]).get_context(ctx)

    def ok(r):
        if r is None:
            return [0]
        if isinstance(r, Tag):
            return [1] + canon_tag(r)
        return [2] + canon_tags(r.tagList)
    return canon_call(f, ok)


def impl_any(ts):
    from bacpypes.primitivedata import TagList
    from bacpypes.constructeddata import Any

    def f():
        tl = TagList([mk(*t) for t in ts])
        a = Any()
        a.decode(tl)
        return a.tagList.tagList, tl.tagList
    return canon_call(f, lambda r: canon_tags(r[0]) + canon_tags(r[1]))


def case_dec(octets, kind='dec'):
    exp = impl_decode(octets)
    nontriv = (exp[0] == 0 and exp[1] >= 1) or (exp[0] == 1 and len(octets) >= 1)
    return Case(kind, 'canon_res canon_tags (dec_tags %s)' % nlist(octets), exp, key=('dec', bytes(octets)),
                nontrivial=nontriv, desc={'op': 'decode', 'octets': bytes(octets).hex()})


def case_enc(ts, kind='enc'):
    exp = impl_encode(ts)
    return Case(kind, 'canon_res zs (enc_tags %s)' % coq_tags(ts), exp, key=('enc', repr(ts)),
                nontrivial=len(ts) >= 1, desc={'op': 'encode', 'tags': [list(t[:3]) + [bytes(t[3]).hex()] for t in ts]})


def case_ctx(ctx, ts):
    exp = impl_get_context(ctx, ts)
    return Case('get_context', 'canon_res canon_ctx (get_context %d %s)' % (ctx, coq_tags(ts)), exp,
                key=('ctx', ctx, repr(ts)), nontrivial=len(ts) >= 1,
                desc={'op': 'get_context', 'ctx': ctx, 'tags': [list(t[:3]) + [bytes(t[3]).hex()] for t in ts]})


def case_any(ts):
    exp = impl_any(ts)
    return Case('any_decode', 'canon_res (fun p => canon_tags (fst p) ++ canon_tags (snd p)) (any_decode %s)' % coq_tags(ts),
                exp, key=('any', repr(ts)), nontrivial=len(ts) >= 1,
                desc={'op': 'any_decode', 'tags': [list(t[:3]) + [bytes(t[3]).hex()] for t in ts]})


NUMS = [0, 1, 14, 15, 16, 254, 255]
LENS = [0, 1, 4, 5, 6, 253, 254, 255, 65535, 65536, 70000]


def wf_tag_pool(rng, lens=LENS):
    """well-formed tags over the boundary cross product"""
    out = []
    for cls in (0, 1):
        for num in NUMS:
            for l in lens:
                if cls == 0 and num == 1:
                    out.append((0, 1, l, b''))
                else:
                    out.append((cls, num, l, bytes(rng.randrange(256) for _ in range(l))))
    for cls in (2, 3):
        for num in NUMS:
            out.append((cls, num, 0, b''))
    return out


def dyck(n):
    """all balanced bracket words with n pairs as lists of +1/-1"""
    if n == 0:
        yield []
        return
    for k in range(n):
        for a in dyck(k):
            for b in dyck(n - 1 - k):
                yield [1] + a + [-1] + b


def nesting_shapes(rng, maxpairs=4):
    """tag lists made of groups (random context numbers 0..3) with leaves sprinkled in"""
    shapes = []
    for n in range(0, maxpairs + 1):
        for w in dyck(n):
            ts, stack = [], []
            for s in w:
                if rng.random() < 0.4:
                    ts.append(rng.choice([(0, 2, 1, bytes([rng.randrange(256)])), (1, rng.randrange(4), 1, b'\x01'), (0, 1, 1, b'')]))
                if s == 1:
                    c = rng.randrange(4)
                    stack.append(c)
                    ts.append((2, c, 0, b''))
                else:
                    c = stack.pop()
                    # closing tags need not carry the same number for the code's level counting
                    ts.append((3, c if rng.random() < 0.8 else rng.randrange(4), 0, b''))
            if rng.random() < 0.5:
                ts.append((0, 4, 4, b'\x00\x00\x80\x3f'))
            shapes.append(ts)
    return shapes


def hostile_lengths(rng, n):
    out = []
    fixed = [bytes.fromhex(x) for x in ('05ff80000000', '05ff7fffffff', '05ffffffffff', '05ff00000000', '05ff00000001aa',
                                         '0dff80000001', 'fdc8ff8000000000', '05fe8000', '05feffff', '05fe0001aa', '05fe0002aa',
                                         '15ff80000000', '6dff00000002abcd', '6dff00000003abcd')]
    out += fixed
    for _ in range(n):
        first = rng.choice([0x05, 0x0D, 0x15, 0x25, 0x65, 0xF5, 0xFD])
        hdr = bytes([first]) + (bytes([rng.randrange(256)]) if first >> 4 == 15 else b'')
        if rng.random() < 0.5:
            ln = rng.choice([0, 1, 2, 253, 254, 255, 256, 0x7FFF, 0x8000, 0xFFFF])
            body = b'\xfe' + ln.to_bytes(2, 'big')
        else:
            ln = rng.choice([0, 1, 2, 255, 65535, 65536, 0x7FFFFFFF, 0x80000000, 0x80000001, 0xFFFFFFFF, rng.randrange(2 ** 32)])
            body = b'\xff' + ln.to_bytes(4, 'big')
        data = bytes(rng.randrange(256) for _ in range(rng.choice([0, 1, 2, 3, 5])))
        out.append(hdr + body + data)
    return out


def cases(rng, tier):
    out = []
    # exhaustive small octet strings
    out.append(case_dec(b'', 'dec-exh'))
    for a in range(256):
        out.append(case_dec(bytes([a]), 'dec-exh'))
    if tier == 'thorough':
        for a in range(256):
            for b in range(256):
                out.append(case_dec(bytes([a, b]), 'dec-exh'))
        for _ in range(20000):
            out.append(case_dec(bytes(rng.randrange(256) for _ in range(3)), 'dec-len3'))
    else:
        # every first octet x 24 second octets (boundaries + random): the header logic depends on
        # the second octet only through {<254, 254, 255} and the tag-number value
        seconds = [0, 1, 4, 5, 6, 7, 15, 16, 127, 128, 253, 254, 255]
        for a in range(256):
            for b in seconds + [rng.randrange(256) for _ in range(5)]:
                out.append(case_dec(bytes([a, b]), 'dec-exh'))
        for _ in range(1500):
            out.append(case_dec(bytes(rng.randrange(256) for _ in range(3)), 'dec-len3'))
    # structured encode / decode
    big = tier == 'thorough'
    pool = wf_tag_pool(rng, LENS if big else [0, 1, 4, 5, 6, 253, 254, 255, 300])
    for t in pool:
        out.append(case_enc([t]))
    if not big:   # a few genuinely large ones in quick as well
        for t in [(1, 3, 65535, bytes(65535)), (0, 6, 65536, bytes(65536)), (1, 200, 70000, bytes(70000))]:
            out.append(case_enc([t]))
    small = [t for t in pool if t[2] <= 6]
    for _ in range(600 if big else 200):
        ts = [rng.choice(small) for _ in range(rng.randrange(0, 6))]
        out.append(case_enc(ts))
        enc = impl_encode(ts)
        if enc[0] == 0:
            bs = bytes(enc[1:])
            out.append(case_dec(bs, 'dec-valid'))
            if bs:
                m = bytearray(bs)
                k = rng.randrange(len(m))
                how = rng.randrange(3)
                if how == 0:
                    m[k] = rng.randrange(256)
                elif how == 1:
                    del m[k]
                else:
                    m.insert(k, rng.randrange(256))
                out.append(case_dec(bytes(m), 'dec-mutated'))
    # hostile extended lengths: every class/number shape x {FE hi lo, FF b3 b2 b1 b0} with boundary and random
    # length fields (top bit set, 0, 1, exact, one more than available) x short data
    for hb in hostile_lengths(rng, 60 if not big else 400):
        out.append(case_dec(hb, 'dec-hostile-length'))
    # malformed tag objects through the encoder (refusals)
    for t in [(0, 256, 0, b''), (1, 300, 2, b'ab'), (0, 2, 3, b'a'), (2, 3, 2, b''), (3, 15, 0, b''), (5, 2, 1, b'x'), (1, 15, 5, b'abcde')]:
        out.append(case_enc([t], 'enc-malformed'))
    # nesting
    for ts in nesting_shapes(rng, 4):
        for ctx in (0, 1, 2, 3):
            out.append(case_ctx(ctx, ts))
        out.append(case_any(ts))
        for k in range(len(ts)):      # every single-deletion unbalancing
            cut = ts[:k] + ts[k + 1:]
            out.append(case_ctx(rng.randrange(4), cut))
            out.append(case_any(cut))
    return out


class _Watchdog(Exception):
    pass


def _alarm(sig, frm):
    raise _Watchdog()


def direct(rng, tier, focus=()):
    """Implementation-only predicate of C02 (weakest reading of the statement)."""
    from bacpypes.primitivedata import TagList, Tag
    from bacpypes.comm import PDUData
    from bacpypes.errors import InvalidTag
    failures, n, nontriv = [], 0, set()
    samples = []

    def spec_header(cls, num, lvt):
        # independent transcription of clause 20.2.1
        b0 = (num if num < 15 else 15) << 4
        if cls == 1: b0 |= 8
        if cls == 2: b0 |= 0x0E
        elif cls == 3: b0 |= 0x0F
        elif lvt < 5: b0 |= lvt
        else: b0 |= 5
        h = [b0] + ([num] if num >= 15 else [])
        if cls in (0, 1) and lvt >= 5:
            if lvt <= 253: h += [lvt]
            elif lvt <= 65535: h += [254, lvt >> 8, lvt & 255]
            else: h += [255, (lvt >> 24) & 255, (lvt >> 16) & 255, (lvt >> 8) & 255, lvt & 255]
        return h

    def roundtrip(ts):
        nonlocal n
        n += 1
        try:
            pdu = PDUData()
            TagList([mk(*t) for t in ts]).encode(pdu)
            octets = bytes(pdu.pduData)
            want = b''.join(bytes(spec_header(*t[:3])) + bytes(t[3]) for t in ts)
            if octets != want:
                return {'kind': 'not-canonical', 'tags': repr(ts)[:400], 'got': octets[:64].hex(), 'want': want[:64].hex()}
            tl = TagList(); p2 = PDUData(octets); tl.decode(p2)
            if len(p2.pduData) != 0 or canon_tags(tl.tagList) != canon_tags([mk(*t) for t in ts]):
                return {'kind': 'roundtrip', 'tags': repr(ts)[:400], 'octets': octets[:64].hex(), 'decoded': canon_tags(tl.tagList)[:40]}
        except Exception as e:
            return {'kind': 'roundtrip-exception', 'tags': repr(ts)[:400], 'exc': repr(e)[:200]}
        return None

    def arbitrary(bs):
        nonlocal n
        n += 1
        signal.signal(signal.SIGALRM, _alarm)
        signal.alarm(5)
        try:
            tl = TagList()
            try:
                tl.decode(PDUData(bs))
            except InvalidTag:
                return None
            except _Watchdog:
                return {'kind': 'decode-hang', 'octets': bs.hex()}
            except Exception as e:
                return {'kind': 'decode-other-error', 'octets': bs.hex(), 'exc': repr(e)[:200]}
            # consumed everything it returned: total data+header length cannot exceed the input
            if sum(len(t.tagData) for t in tl.tagList) > len(bs):
                return {'kind': 'over-read', 'octets': bs.hex()}
            try:
                p = PDUData(); tl.encode(p)
                t2 = TagList(); t2.decode(PDUData(p.pduData))
            except Exception as e:
                return {'kind': 'reencode-fails', 'octets': bs.hex(), 'exc': repr(e)[:200]}
            if canon_tags(t2.tagList) != canon_tags(tl.tagList):
                return {'kind': 'reencode-unstable', 'octets': bs.hex()}
            if tl.tagList:
                nontriv.add(bs)
        finally:
            signal.alarm(0)
        return None

    pool = wf_tag_pool(rng)
    for t in pool:
        f = roundtrip([t])
        nontriv.add(('rt', t[:3]))
        if f: failures.append(f)
    small = [t for t in pool if t[2] <= 6]
    for _ in range(3000 if tier == 'thorough' else 600):
        ts = [rng.choice(small) for _ in range(rng.randrange(1, 8))]
        f = roundtrip(ts)
        nontriv.add(('rt', repr(ts)))
        if f: failures.append(f)
    samples.append({'direct': 'roundtrip+canonical', 'tags': repr(small[:3])})
    for a in range(256):
        for b in range(256):
            f = arbitrary(bytes([a, b]))
            if f: failures.append(f)
    for _ in range(200000 if tier == 'thorough' else 20000):
        f = arbitrary(bytes(rng.randrange(256) for _ in range(rng.choice([3, 3, 3, 4, 5, 8]))))
        if f: failures.append(f)
    for hb in hostile_lengths(rng, 2000 if tier == 'thorough' else 300):
        f = arbitrary(hb)
        if f: failures.append(f)
    for d in focus:
        if isinstance(d, dict) and d.get('op') == 'decode':
            f = arbitrary(bytes.fromhex(d['octets']))
            if f: failures.append(f)
    # balanced groups are extracted, unbalanced refused
    for ts in nesting_shapes(rng, 4):
        n += 1
        body = ts
        for ctx in (0, 7):
            lst = [(2, ctx, 0, b'')] + body + [(3, ctx, 0, b'')] + [(0, 2, 1, b'\x09')]
            try:
                r = TagList([mk(*t) for t in lst]).get_context(ctx)
                ok = isinstance(r, TagList) and canon_tags(r.tagList) == canon_tags([mk(*t) for t in body])
                # a group with a smaller context number earlier in `body` cannot shadow: we ask for the head group
            except Exception as e:
                ok = False
            if not ok:
                failures.append({'kind': 'balanced-group-not-extracted', 'ctx': ctx, 'tags': repr(lst)[:400]})
            try:
                TagList([mk(*t) for t in lst[:-2]]).get_context(ctx)
                failures.append({'kind': 'unbalanced-group-accepted', 'ctx': ctx, 'tags': repr(lst[:-2])[:400]})
            except InvalidTag:
                pass
            except Exception as e:
                failures.append({'kind': 'unbalanced-group-other-error', 'ctx': ctx, 'exc': repr(e)[:100]})
            nontriv.add(('grp', repr(lst)))
    # several top-level items: get_context must find the first item carrying the context number,
    # judged by an independent structural reference (items are built, not parsed)
    def build_item(depth):
        r = rng.random()
        if r < 0.25:
            return [(0, 2, 1, bytes([rng.randrange(256)]))]
        if r < 0.5:
            return [(1, rng.randrange(4), 1, b'\x05')]
        c = rng.randrange(4)
        body = []
        if depth < 3:
            for _ in range(rng.randrange(0, 3)):
                body += build_item(depth + 1)
        return [(2, c, 0, b'')] + body + [(3, c, 0, b'')]
    for _ in range(4000 if tier == 'thorough' else 1200):
        n += 1
        items = [build_item(0) for _ in range(rng.randrange(1, 5))]
        flat = [t for it in items for t in it]
        for ctx in range(4):
            want = None
            for it in items:
                if it[0][0] == 1 and it[0][1] == ctx:
                    want = ('tag', canon_tag(mk(*it[0]))); break
                if it[0][0] == 2 and it[0][1] == ctx:
                    want = ('group', canon_tags([mk(*t) for t in it[1:-1]])); break
            try:
                r = TagList([mk(*t) for t in flat]).get_context(ctx)
                got = None if r is None else (('tag', canon_tag(r)) if isinstance(r, Tag) else ('group', canon_tags(r.tagList)))
            except Exception as e:
                got = ('exception', repr(e)[:100])
            if got != want:
                failures.append({'kind': 'get-context-wrong-group', 'ctx': ctx, 'tags': repr(flat)[:600],
                                 'got': repr(got)[:200], 'want': repr(want)[:200]})
        nontriv.add(('multi', repr(flat)))
    # Any.decode takes exactly the built (balanced) items and stops in front of the first closing tag that is
    # not theirs; the terminator's number is drawn from the numbers used inside so that an inner group can
    # carry the same number as the enclosing element (items are built, not parsed)
    from bacpypes.constructeddata import Any
    for _ in range(4000 if tier == 'thorough' else 1200):
        n += 1
        items = [build_item(0) for _ in range(rng.randrange(0, 4))]
        flat = [t for it in items for t in it]
        k = rng.random()
        if k < 0.2:
            rest = []
        else:
            c = rng.randrange(4)
            rest = [(3, c, 0, b'')] + ([(0, 2, 1, b'\x07')] if k < 0.6 else []) + ([(3, c, 0, b'')] if k > 0.8 else [])
        try:
            tl = TagList([mk(*t) for t in flat + rest])
            a = Any(); a.decode(tl)
            got = (canon_tags(a.tagList.tagList), canon_tags(tl.tagList))
        except Exception as e:
            got = ('exception', repr(e)[:100])
        want = (canon_tags([mk(*t) for t in flat]), canon_tags([mk(*t) for t in rest]))
        if got != want:
            failures.append({'kind': 'any-decode-wrong-extent', 'tags': repr(flat + rest)[:600],
                             'got': repr(got)[:300], 'want': repr(want)[:300]})
        else:
            # and the extracted value re-encodes to the same tags
            try:
                tl2 = TagList(); a.encode(tl2)
                if canon_tags(tl2.tagList) != want[0]:
                    failures.append({'kind': 'any-encode-differs', 'tags': repr(flat)[:600]})
            except Exception as e:
                failures.append({'kind': 'any-encode-exception', 'tags': repr(flat)[:600], 'exc': repr(e)[:100]})
        nontriv.add(('any', repr(flat + rest)))
    return failures, {'evaluations': n, 'distinct_nontrivial': len(nontriv), 'exhaustive': True,
                      'exhaustive_domain': 'all octet strings of length 2 (decode totality, re-encode stability)',
                      'samples': samples}


def classify(failure):
    return None


def replay(payload):
    f = payload.get('failure') or payload.get('broken', [{}])[0].get('minimal_case', {})
    print('replay', f)
    if 'octets' in f:
        print('implementation:', impl_decode(bytes.fromhex(f['octets'])))
