"""C03 — every service PDU and constructed type round-trips.

Correspondence: model coq/theories/Codec.v (generic schema-driven codec) + coq/gen/Schemas.v (tables translated
from apdu.py / basetypes.py) against constructeddata.Sequence/Choice/SequenceOf/Any/AnyAtomic, basetypes.NameValue and
apdu.APCISequence.  Direct: implementation-only round trip (value -> octets -> value -> octets).

Atomic leaves are abstract (property C01 owns them): a leaf is the application tag the atomic class's own encoder
produces for the Python value; the model moves that tag through the constructed codec.
"""
import itertools, os, signal, sys
from core import Case, nlist
from pyerr import canon_call, exc_code

sys.path.insert(0, os.path.join(os.path.dirname(os.path.dirname(os.path.dirname(os.path.abspath(__file__)))), 'translator'))
import schemawalk

PROP = 'C03'
COQ_TARGETS = ['theories/CodecFacts.vo', 'theories/CodecWf.vo', 'theories/CodecTotal.vo', 'gen/Schemas.vo', 'theories/SchemaTables.vo',
               'theories/ArrayObjFacts.vo']
COQ_IMPORTS = ('From Bac Require Import Base.\nFrom Bac Require Import Tag.\nFrom Bac Require Import Schema.\n'
               'From Bac Require Import Codec.\nFrom Bac Require Import ArrayObj.\nFrom BacGen Require Import Schemas.')   # one library per line: much faster to load
TABLE_OBLIGATIONS = ['C03_all_wf', 'C03_supported_or_listed', 'C03_all_supported', 'C03_registries_shape']
RULE = ('cases: for each of the 58 registered PDUs and every Sequence/Choice class of apdu.py/basetypes.py (all, every run): presence '
        'patterns of its optional elements (all if <= 8 (quick) / 64 (thorough), else all-absent, all-present, each single one, '
        'random), every choice alternative, list lengths 0..3, every list element also with repeated entries (adjacent, non-adjacent, all equal; 0.0/-0.0 and True/False mixes), lists of every primitive element kind x ListOf/SequenceOf/ArrayOf x repetition pattern carried in an Any (cast_in / cast_out) and through ReadRangeACK.itemData, ReadPropertyACK.propertyValue, ... , nested values random to the depth of the type, leaves from boundary pools; '
        'each value is encoded (tag list / PDU octets compared) and its encoding decoded (shape + remaining tags compared); malformed '
        'stream = one structural mutation (delete, duplicate, renumber, reclass, swap, truncate, append) of a valid encoding, compared '
        'on value shape or error class; typed Any contents (every constructed type with context-tagged primitive members, alone and in lists, plus the ones met inside generated PDUs) through Any.cast_out TWICE followed by a look at the tag list the Any holds (model: the unchanged input); ArrayOf OBJECTS of every primitive element kind and every list-safe constructed subtype, free and fixed length, under histories of append / a[0]=n / a[i]=v / del a[i] (i in and just out of range) / decode-into-the-same-object, observed through every cell, len(), a[i], encode_item(i), encode() and Any.cast_in/cast_out, and decode_item on valid / foreign / malformed / no tags; a Sequence/PDU object encoded, one element changed, encoded again.  non-trivial = value with >= 1 optional present, >= 1 list element or a non-first alternative, '
        'or any malformed input; distinct by (type, operation, input).')
TRUSTED = ['model coq/theories/Schema.v + Codec.v written by hand after constructeddata.py:78-312,386-524,1022-1191,1245-1275, '
           'basetypes.py:2124-2203 (NameValue), apdu.py:678-717 (APCISequence); coq/theories/ArrayObj.v after constructeddata.py:698-1003 (the ArrayOf object); tie = in-kernel correspondence on every run',
           'coq/gen/Schemas.v produced by translator/schemawalk.py (import + introspection of sequenceElements/choiceElements/subtype and the '
           'four registries), fail-closed on unknown element kinds and on classes overriding the generic codec',
           'atomic leaves abstract: the application tag of a leaf is obtained from the atomic class\'s own encoder (property C01); '
           'acceptance of a tag by an atomic decoder is modelled by Codec.atom_check (length / class / number / UTF-16/32 validity)']
ASSUMPTIONS = ['one alternative set per Choice value; every Sequence attribute is either None or of the element\'s type',
               'Integer leaves within 32 bits (C01 finding), Real leaves are binary32 values (so == survives)',
               'Annex F octets are not available offline: only vectors found in the repository tests/samples and cross-checked by an '
               'independent hand encoder are used (C03_annexF_partial)']

_S = {}


def S():
    """schema description, class objects, atomic classes (cached)"""
    if not _S:
        desc, classes, atoms = schemawalk.walk()
        _S.update(desc=desc, classes=classes, atoms=atoms)
    return _S


def cdesc(name):
    return S()['desc']['classes'][name]


# ------------------------------------------------------------------------------------------------
# tags
def mk(cls, num, lvt, data):
    from bacpypes.primitivedata import Tag
    t = Tag()
    t.tagClass, t.tagNumber, t.tagLVT, t.tagData = cls, num, lvt, bytes(data)
    return t


def tt(t):
    return (t.tagClass, t.tagNumber, t.tagLVT, bytes(t.tagData))


def canon_tag(t):
    return [t[0], t[1], t[2], len(t[3])] + list(t[3])


def canon_tags(ts):
    out = [len(ts)]
    for t in ts:
        out += canon_tag(t)
    return out


def coq_tag(t):
    return '(mkTag %d %d %d %s)' % (t[0], t[1], t[2], nlist(t[3]))


def coq_tags(ts):
    return '[' + ';'.join(coq_tag(t) for t in ts) + ']'


# ------------------------------------------------------------------------------------------------
# leaves
F32 = [0.0, 1.0, -1.5, 72.5, 3.4028234663852886e+38, 1.401298464324817e-45, -0.0, 1e10]
F64 = [0.0, 1.0, -2.5, 1e300, 5e-324, 3.141592653589793]
UNS = [0, 1, 127, 128, 255, 256, 65535, 65536, 16777215, 16777216, 4294967295]
INT = [0, 1, -1, 127, 128, -128, -129, 32767, 32768, -32768, -32769, 2147483647, -2147483648]
STR = ['', 'a', 'x y', 'héllo', '日本', 'name-%d']


def atom_base(klass):
    from bacpypes import primitivedata as pd
    for b in klass.__mro__:
        if b.__module__ == pd.__name__ and b.__name__ in ('Null', 'Boolean', 'Unsigned', 'Integer', 'Real', 'Double', 'OctetString',
                                                          'CharacterString', 'BitString', 'Enumerated', 'Date', 'Time', 'ObjectIdentifier'):
            return b.__name__
    raise ValueError(klass)


def leaf_value(klass, rng):
    """a Python value v such that klass(v) is valid and decoding its encoding gives v back (==)"""
    b = atom_base(klass)
    if b == 'Null': return ()
    if b == 'Boolean': return rng.random() < 0.5
    if b == 'Unsigned':
        hi = klass._high_limit
        pool = [u for u in UNS if hi is None or u <= hi]
        return rng.choice(pool) if rng.random() < 0.7 else rng.randrange(0, (hi or 4294967295) + 1)
    if b == 'Integer': return rng.choice(INT) if rng.random() < 0.7 else rng.randrange(-2 ** 31, 2 ** 31)
    if b == 'Real': return rng.choice(F32)
    if b == 'Double': return rng.choice(F64) if rng.random() < 0.8 else rng.random() * 1e6
    if b == 'OctetString':
        n = rng.choice([0, 1, 2, 4, 5, 6]) if rng.random() < 0.95 else 260
        return bytes(rng.randrange(256) for _ in range(n))
    if b == 'CharacterString':
        s = rng.choice(STR)
        if '%d' in s: s = s % rng.randrange(1000)
        return s if rng.random() < 0.97 else 'L' * 254
    if b == 'BitString':
        n = klass.bitLen if klass.bitLen else rng.choice([0, 1, 7, 8, 9, 16, 17])
        return [rng.randrange(2) for _ in range(n)]
    if b == 'Enumerated':
        en = klass.enumerations
        if en and rng.random() < 0.85:
            # names whose number maps back to the same name (a table with two names for one number is C01's finding)
            good = [n for n in sorted(en) if klass._xlate_table.get(en[n]) == n]
            if good:
                return rng.choice(good)
        used = set(en.values())
        while True:
            v = rng.choice([0, 1, 255, 256, 65535, 65536, 4194303]) if rng.random() < 0.5 else rng.randrange(0, 70000)
            if v not in used:
                return v
    if b in ('Date', 'Time'):
        return tuple(rng.choice([0, 1, 12, 31, 59, 99, 127, 128, 254, 255]) for _ in range(4))
    if b == 'ObjectIdentifier':
        table = klass.objectTypeClass.enumerations
        if rng.random() < 0.8:
            ty = rng.choice(sorted(table))
        else:
            ty = rng.choice([v for v in (63, 127, 128, 700, 1023) if v not in table.values()])
        return (ty, rng.choice([0, 1, 4194303, rng.randrange(4194304)]))
    raise ValueError(b)


def leaf_tag(klass, value):
    """application tag the atomic class itself produces (C01's encoder)"""
    from bacpypes.primitivedata import Tag
    t = Tag()
    klass(value).encode(t)
    return tt(t)


def norm_leaf(v):
    if isinstance(v, (bytes, bytearray)): return ('b', bytes(v))
    if isinstance(v, list): return ('l', tuple(v))
    if isinstance(v, tuple): return ('t', tuple(v))
    if isinstance(v, float): return ('f', float(v).hex())
    if isinstance(v, bool): return ('B', v)
    return ('v', v)


ANY_ATOMS = ['Null', 'Boolean', 'Unsigned', 'Integer', 'Real', 'Double', 'OctetString', 'CharacterString', 'BitString',
             'Enumerated', 'Date', 'Time', 'ObjectIdentifier']


def prim(name):
    from bacpypes import primitivedata as pd
    return getattr(pd, name)


# ------------------------------------------------------------------------------------------------
# neutral value trees.  ('atom', clsname, normleaf, tagtuple, rawvalue) | ('aatom', primname, normleaf, tagtuple, raw)
#  | ('tags', [tagtuples]) | ('seq', name, [tree|None...]) | ('choice', name, i, tree) | ('list', [trees])
#  | ('nv', nametree, None | aatom-tree | seq-tree(DateTime))
def gen_any_tags(rng, depth=0):
    ts = []
    for _ in range(rng.choice([0, 1, 1, 1, 2, 3])):
        r = rng.random()
        if r < 0.5:
            k = prim(rng.choice(ANY_ATOMS))
            ts.append(leaf_tag(k, leaf_value(k, rng)))
        elif r < 0.75 or depth >= 2:
            d = bytes(rng.randrange(256) for _ in range(rng.choice([0, 1, 2, 4])))
            ts.append((1, rng.choice([0, 1, 2, 14, 15, 30]), len(d), d))
        else:
            c = rng.choice([0, 1, 2, 3, 15])
            ts += [(2, c, 0, b'')] + gen_any_tags(rng, depth + 1) + [(3, c, 0, b'')]
    return ts


_CARRY = {}


def carry_pool():
    """constructed types an Any may carry: every non-PDU Sequence/Choice class, the ones with context-tagged
    primitive members first in line (they are what a tag relabelled in place shows up in)"""
    if not _CARRY:
        names = [n for n in all_names() if not is_pdu(n) and cdesc(n)['kind'] in ('seq', 'choice')]
        ctxprim = [n for n in names if any(e['ctx'] is not None and e['type']['k'] == 'atom' for e in cdesc(n)['elements'])]
        _CARRY.update(all=names, ctxprim=ctxprim)
    return _CARRY


def list_safe(name):
    """may several values of this class follow each other in a SequenceOf without delimiters?  (conservative:
    a Choice, or a Sequence whose elements are all context tagged or required un-contexted primitives; a Sequence
    ending in an un-contexted list, e.g. AtomicReadFileACKAccessMethodRecordAccess, swallows its successors —
    `wf_ty (TSeqOf t)` is false for it and no table makes a list of it)"""
    d = cdesc(name)
    if d['kind'] == 'choice':
        return True
    # ... and at least one required element: an all-optional Sequence (SetpointReference) can encode to nothing and
    # would vanish from a list (`nullable`; again wf_ty (TSeqOf t) is false)
    return d['kind'] == 'seq' and all(e['ctx'] is not None or (e['type']['k'] == 'atom' and not e['opt']) for e in d['elements']) \
        and any(not e['opt'] for e in d['elements'])


def atom_class(name):
    """an atomic class by name: one of primitivedata's, else an Enumerated / BitString / Unsigned subclass the tables use"""
    from bacpypes import primitivedata as pd
    return getattr(pd, name, None) or S()['atoms'][name]


def is_atom_list(c):
    return c[0].endswith('-atom')


def dup_pattern(items, rng, fresh):
    """impose a repetition pattern on a list of generated entries (trees are immutable, sharing them is fine): a BACnet
    SEQUENCE OF / list may hold equal entries any number of times, and the codec must keep every one of them.
    fresh() makes one more distinct entry."""
    if not items:
        return items
    how = rng.choice(['adjacent', 'nonadjacent', 'allequal', 'adjacent-then-other', 'asis'])
    a = items[0]
    if how == 'adjacent':
        return [a, a] + items[1:]
    if how == 'nonadjacent':
        return [a] + (items[1:] or [fresh()]) + [a]
    if how == 'allequal':
        return [a] * rng.choice([2, 3, 4])
    if how == 'adjacent-then-other':
        return items[1:] + [a, a, a]
    return items


def carried_coq_type(c):
    form, name = c[0], c[1]
    if form == 'atom':
        return '(TAtom %d)' % prim(name)._app_tag
    if is_atom_list(c):
        inner = '(TAtom %d)' % atom_class(name)._app_tag
        return {'seqof': '(TSeqOf %s)', 'listof': '(TSeqOf %s)', 'arrayof': '(TArrayOf %s None)'}[form.split('-')[0]] % inner
    return {'class': '%s', 'seqof': '(TSeqOf %s)', 'listof': '(TSeqOf %s)', 'arrayof': '(TArrayOf %s None)'}[form] % tname(name)


def carried_py_type(c):
    from bacpypes import constructeddata as cd
    form, name = c[0], c[1]
    if form == 'atom':
        return prim(name)
    if is_atom_list(c):
        return {'seqof': cd.SequenceOf, 'listof': cd.ListOf, 'arrayof': cd.ArrayOf}[form.split('-')[0]](atom_class(name))
    cls = S()['classes'][name]
    return {'class': lambda k: k, 'seqof': cd.SequenceOf, 'listof': cd.ListOf, 'arrayof': cd.ArrayOf}[form](cls)


LIST_ATOMS = ['Boolean', 'Unsigned', 'Integer', 'Real', 'Double', 'OctetString', 'CharacterString', 'BitString', 'Enumerated',
              'Date', 'Time', 'ObjectIdentifier', 'Null', 'Unsigned8', 'Unsigned16', 'PropertyIdentifier', 'ObjectType',
              'StatusFlags', 'EventState']
# entries that Python's == merges although they are different values on the wire
MIXES = {'Real': [0.0, -0.0, 0.0, -0.0], 'Double': [-0.0, 0.0, 0.0], 'Boolean': [True, True, False, True, False],
         'Unsigned': [1, 0, 1, 0, 1], 'Integer': [0, -1, 0, -1], 'Enumerated': [1, 0, 1, 1]}


def atom_tree(klass, name, v):
    return ('atom', name, norm_leaf(klass(v).value if atom_base(klass) != 'Null' else ()), leaf_tag(klass, v), v)


def atom_list_content(form, name, raws):
    klass = atom_class(name)
    trees = [atom_tree(klass, name, v) for v in raws]
    return ('tags', [t[3] for t in trees], (form.split('-')[0] + '-atom', name, trees))


def gen_atom_list(rng, form, name=None, pattern=None):
    """an Any holding a SequenceOf / ListOf / ArrayOf of a PRIMITIVE type, with repeated entries more often than not"""
    name = name or rng.choice(LIST_ATOMS)
    klass = atom_class(name)
    if pattern == 'mix' or (pattern is None and name in MIXES and rng.random() < 0.25):
        raws = list(MIXES.get(name, [])) or [leaf_value(klass, rng)] * 2
    else:
        raws = [leaf_value(klass, rng) for _ in range(rng.choice([0, 1, 2, 3]) if pattern is None else 2)]
        if pattern == 'adjacent':
            raws = [raws[0], raws[0]] + raws[1:]
        elif pattern == 'nonadjacent':
            raws = [raws[0], raws[1], raws[0]]
        elif pattern == 'allequal':
            raws = [raws[0]] * 3
        elif raws and rng.random() < 0.7:
            raws = dup_pattern(raws, rng, lambda: leaf_value(klass, rng))
    return atom_list_content(form, name, raws)


def gen_carried(rng, only_lists=False):
    """an Any holding the encoding of a typed value: ('tags', tags, (form, type name, value tree(s)))"""
    pool = carry_pool()
    form = rng.choice(['class', 'class', 'class', 'seqof', 'listof', 'arrayof', 'atom'])
    if only_lists:          # SequenceOfAny.cast_in / cast_out only take ListOf classes
        form = 'listof'
    try:
        if form == 'atom':
            nm = rng.choice(ANY_ATOMS)
            klass = prim(nm)
            v = leaf_value(klass, rng)
            return ('tags', [leaf_tag(klass, v)], ('atom', nm, norm_leaf(klass(v).value if nm != 'Null' else ())))
        if form != 'class' and rng.random() < 0.5:
            return gen_atom_list(rng, form)
        name = rng.choice(pool['ctxprim'] if rng.random() < 0.7 else pool['all'])
        n = 1 if form == 'class' else rng.choice([0, 1, 2, 3] if list_safe(name) else [0])
        trees = []

        def one():
            tr = gen_class(name, rng, 3)
            if tree_size(tr) > 30 or features(tr):
                raise ValueError
            return tr
        for _ in range(n):
            trees.append(one())
        if form != 'class' and trees and rng.random() < 0.5:
            trees = dup_pattern(trees, rng, one)
        tags = []
        for tr in trees:
            tags += impl_encode_tags(name, tr)
        return ('tags', tags, (form, name, trees))
    except Exception:
        return None


def gen_type(t, rng, depth, force=None):
    k = t['k']
    if k == 'atom':
        klass = S()['atoms'][t['cls']]
        v = leaf_value(klass, rng)
        return ('atom', t['cls'], norm_leaf(klass(v).value if atom_base(klass) != 'Null' else ()), leaf_tag(klass, v), v)
    if k == 'anyatomic':
        nm = rng.choice(ANY_ATOMS)
        klass = prim(nm)
        v = leaf_value(klass, rng)
        return ('aatom', nm, norm_leaf(klass(v).value if nm != 'Null' else ()), leaf_tag(klass, v), v)
    if k in ('any', 'seqofany') and force and 'carry' in force:
        # deliberately: a ListOf of a primitive type with repeated entries carried by this Any / SequenceOfAny
        return gen_atom_list(rng, 'listof' if k == 'seqofany' else rng.choice(['listof', 'seqof', 'arrayof']), None, force['carry'])
    if k == 'any' and rng.random() < 0.6:
        c = gen_carried(rng)
        if c is not None:
            return c
    if k == 'seqofany' and rng.random() < 0.7:
        c = gen_carried(rng, only_lists=True)
        if c is not None:
            return c
    if k in ('any', 'seqofany'):
        return ('tags', gen_any_tags(rng))
    if k == 'seqof':
        if force and 'listlen' in force:
            n = force['listlen']
        elif depth >= 4:
            n = rng.choice([0, 1])
        elif depth >= 2:
            n = rng.choice([0, 1, 1, 2])
        else:
            n = rng.choice([0, 1, 2, 3])
        if force and 'dup' in force:
            a, b = gen_type(t['of'], rng, depth + 2), gen_type(t['of'], rng, depth + 2)
            return ('list', {'adjacent': [a, a, b], 'nonadjacent': [a, b, a], 'allequal': [a, a, a]}[force['dup']])
        items = [gen_type(t['of'], rng, depth + 1) for _ in range(n)]
        if len(items) >= 1 and not (force and 'listlen' in force) and depth < 3 and rng.random() < 0.4:
            items = dup_pattern(items, rng, lambda: gen_type(t['of'], rng, depth + 1))
        return ('list', items)
    if k == 'ref':
        return gen_class(t['name'], rng, depth, force)
    raise ValueError(k)


def gen_class(name, rng, depth=0, force=None):
    d = cdesc(name)
    els = d['elements']
    if d['kind'] == 'namevalue':
        nm = gen_type(els[0]['type'], rng, depth + 1)
        r = rng.random() if not force or 'nv' not in force else force['nv']
        if r < 0.3:
            val = None
        elif r < 0.8:
            val = gen_type({'k': 'anyatomic'}, rng, depth + 1)
        else:
            val = gen_class('DateTime', rng, depth + 1)
        return ('nv', nm, val)
    if d['kind'] == 'seq':
        fs = []
        p = 0.6 if depth < 3 else 0.3
        for i, e in enumerate(els):
            if e['opt']:
                pres = force['presence'][i] if force and 'presence' in force and i in force['presence'] else (rng.random() < p)
            else:
                pres = True
            sub = {k: force[k] for k in ('listlen', 'carry', 'dup') if k in force} if force else None
            fs.append(gen_type(e['type'], rng, depth + 1, sub) if pres else None)
        return ('seq', name, fs)
    if d['kind'] == 'choice':
        i = force['alt'] if force and 'alt' in force else rng.randrange(len(els))
        sub = {k: force[k] for k in ('listlen', 'carry', 'dup') if k in force} if force else None
        return ('choice', name, i, gen_type(els[i]['type'], rng, depth + 1, sub))
    raise ValueError(d['kind'])


def tree_size(tr):
    if tr is None: return 0
    k = tr[0]
    if k in ('atom', 'aatom'): return 1
    if k == 'tags': return 1 + len(tr[1])
    if k == 'seq': return 1 + sum(tree_size(x) for x in tr[2])
    if k == 'choice': return 1 + tree_size(tr[3])
    if k == 'list': return 1 + sum(tree_size(x) for x in tr[1])
    if k == 'nv': return 1 + tree_size(tr[1]) + tree_size(tr[2])
    raise ValueError(k)


def gen_bounded(name, rng, force=None, limit=120):
    for _ in range(30):
        tr = gen_class(name, rng, 0, force)
        if tree_size(tr) <= limit:
            return tr
    return tr


def strip(tr):
    """comparison form of a tree: drops raw values (keeps normalised leaves)"""
    if tr is None: return None
    k = tr[0]
    if k in ('atom', 'aatom'): return (k, tr[1] if k == 'aatom' else None, tr[2])
    if k == 'tags': return ('tags', tuple(tr[1]))
    if k == 'seq': return ('seq', tr[1], tuple(strip(x) for x in tr[2]))
    if k == 'choice': return ('choice', tr[1], tr[2], strip(tr[3]))
    if k == 'list': return ('list', tuple(strip(x) for x in tr[1]))
    if k == 'nv': return ('nv', strip(tr[1]), strip(tr[2]))
    raise ValueError(k)


def nontrivial_tree(tr):
    if tr is None: return False
    k = tr[0]
    if k == 'seq':
        d = cdesc(tr[1])
        for e, f in zip(d['elements'], tr[2]):
            if f is not None and (e['opt'] or nontrivial_tree(f)):
                return True
        return False
    if k == 'choice': return tr[2] > 0 or nontrivial_tree(tr[3])
    if k == 'list': return len(tr[1]) > 0
    if k == 'nv': return tr[2] is not None
    if k == 'tags': return len(tr[1]) > 0
    return False


# ------------------------------------------------------------------------------------------------
# trees -> Python objects, Python objects -> trees / canonical shapes
def build_type(t, tr, in_choice=False):
    from bacpypes import constructeddata as cd
    from bacpypes.primitivedata import TagList
    k = t['k']
    if k == 'atom':
        return tr[4]
    if k == 'anyatomic':
        return prim(tr[1])(tr[4])
    if k in ('any', 'seqofany'):
        a = cd.Any() if k == 'any' else cd.SequenceOfAny()
        a.tagList = TagList([mk(*x) for x in tr[1]])
        return a
    if k == 'seqof':
        items = [build_type(t['of'], x) for x in tr[1]]
        if in_choice:      # Choice.encode wants an instance of the SequenceOf class
            return cd.SequenceOf(elem_class(t['of']))(items)
        return items
    if k == 'ref':
        return build_class(t['name'], tr)
    raise ValueError(k)


def elem_class(t):
    from bacpypes import constructeddata as cd
    if t['k'] == 'atom': return S()['atoms'][t['cls']]
    if t['k'] == 'ref': return S()['classes'][t['name']]
    if t['k'] == 'anyatomic': return cd.AnyAtomic
    if t['k'] == 'any': return cd.Any
    raise ValueError(t)


def build_class(name, tr):
    d = cdesc(name)
    cls = S()['classes'][name]
    if d['kind'] == 'namevalue':
        val = None
        if tr[2] is not None:
            val = prim(tr[2][1])(tr[2][4]) if tr[2][0] == 'aatom' else build_class('DateTime', tr[2])
        return cls(name=tr[1][4], value=val)
    if d['kind'] == 'seq':
        kw = {}
        for e, f in zip(d['elements'], tr[2]):
            if f is not None:
                kw[e['name']] = build_type(e['type'], f)
        return cls(**kw)
    e = d['elements'][tr[2]]
    return cls(**{e['name']: build_type(e['type'], tr[3], in_choice=True)})


def extract_type(t, v):
    """decoded Python value -> comparison tree (same form as strip())"""
    from bacpypes import constructeddata as cd
    k = t['k']
    if k == 'atom':
        return ('atom', None, norm_leaf(v))
    if k == 'anyatomic':
        nm = atom_base(type(v))
        return ('aatom', nm, norm_leaf(v.value))
    if k in ('any', 'seqofany'):
        return ('tags', tuple(tt(x) for x in v.tagList.tagList))
    if k == 'seqof':
        if isinstance(v, (cd.Array, cd.List)) or hasattr(v, 'subtype'):
            v = v.value
        return ('list', tuple(extract_type(t['of'], x) for x in v))
    if k == 'ref':
        return extract_class(t['name'], v)
    raise ValueError(k)


def extract_class(name, obj):
    d = cdesc(name)
    if d['kind'] == 'namevalue':
        from bacpypes.primitivedata import Atomic
        val = None
        if obj.value is not None:
            val = ('aatom', atom_base(type(obj.value)), norm_leaf(obj.value.value)) if isinstance(obj.value, Atomic) \
                else extract_class('DateTime', obj.value)
        return ('nv', ('atom', None, norm_leaf(obj.name)), val)
    if d['kind'] == 'seq':
        fs = []
        for e in d['elements']:
            v = getattr(obj, e['name'], None)
            fs.append(None if v is None else extract_type(e['type'], v))
        return ('seq', name, tuple(fs))
    found = [(i, e) for i, e in enumerate(d['elements']) if getattr(obj, e['name'], None) is not None]
    if len(found) != 1:
        return ('choice', name, -len(found), None)
    i, e = found[0]
    return ('choice', name, i, extract_type(e['type'], getattr(obj, e['name'])))


def shape_type(t, v):
    """canonical integer shape of a decoded Python value == Codec.canon_val of the model's value"""
    k = t['k']
    if k == 'atom':
        return [1, t['app']]
    if k == 'anyatomic':
        return [1, type(v)._app_tag]
    if k in ('any', 'seqofany'):
        return [2] + canon_tags([tt(x) for x in v.tagList.tagList])
    if k == 'seqof':
        if hasattr(v, 'subtype'):
            v = v.value
        out = [5, len(v)]
        for x in v:
            out += shape_type(t['of'], x)
        return out
    if k == 'ref':
        return shape_class(t['name'], v)
    raise ValueError(k)


def shape_class(name, obj):
    d = cdesc(name)
    if d['kind'] == 'namevalue':
        from bacpypes.primitivedata import Atomic
        out = [3, 2] + ([0] if obj.name is None else [1, 1, 7])
        if obj.value is None:
            return out + [0]
        if isinstance(obj.value, Atomic):
            return out + [1, 1, type(obj.value)._app_tag]
        return out + [1] + shape_class('DateTime', obj.value)
    if d['kind'] == 'seq':
        out = [3, len(d['elements'])]
        for e in d['elements']:
            v = getattr(obj, e['name'], None)
            out += [0] if v is None else [1] + shape_type(e['type'], v)
        return out
    found = [(i, e) for i, e in enumerate(d['elements']) if getattr(obj, e['name'], None) is not None]
    if len(found) != 1:
        return [4, 1000 + len(found)]
    i, e = found[0]
    return [4, i] + shape_type(e['type'], getattr(obj, e['name']))


# trees -> Coq terms of type val
def coq_val(tr):
    k = tr[0]
    if k in ('atom', 'aatom'):
        return '(VAtom %s)' % coq_tag(tr[3])
    if k == 'tags':
        return '(VTags %s)' % coq_tags(tr[1])
    if k == 'seq':
        return '(VSeq [%s])' % ';'.join('None' if f is None else '(Some %s)' % coq_val(f) for f in tr[2])
    if k == 'choice':
        return '(VChoice %d %s)' % (tr[2], coq_val(tr[3]))
    if k == 'list':
        return '(VList [%s])' % ';'.join(coq_val(x) for x in tr[1])
    if k == 'nv':
        return '(VSeq [Some %s; %s])' % (coq_val(tr[1]), 'None' if tr[2] is None else '(Some %s)' % coq_val(tr[2]))
    raise ValueError(k)


# ------------------------------------------------------------------------------------------------
# implementation drivers
class _Watchdog(Exception):
    pass


def _alarm(sig, frm):
    raise _Watchdog()


def guarded(fn, seconds=10):
    signal.signal(signal.SIGALRM, _alarm)
    signal.alarm(seconds)
    try:
        return fn()
    finally:
        signal.alarm(0)


def is_pdu(name):
    return cdesc(name)['pdu']


def impl_encode_tags(name, tr):
    """-> list of tag tuples (Sequence.encode / Choice.encode on a TagList)"""
    from bacpypes.primitivedata import TagList
    from bacpypes.constructeddata import Sequence
    obj = build_class(name, tr)
    tl = TagList()
    if is_pdu(name):
        Sequence.encode(obj, tl)
    else:
        obj.encode(tl)
    return [tt(x) for x in tl.tagList]


def impl_encode_pdu(name, tr):
    """-> payload octets produced by APCISequence.encode"""
    from bacpypes.apdu import APDU
    obj = build_class(name, tr)
    a = APDU()
    obj.encode(a)
    return bytes(a.pduData)


def impl_decode_tags(name, tags):
    """-> (object, remaining tag tuples)"""
    from bacpypes.primitivedata import TagList
    from bacpypes.constructeddata import Sequence
    cls = S()['classes'][name]
    tl = TagList([mk(*x) for x in tags])
    obj = cls()
    if is_pdu(name):
        guarded(lambda: Sequence.decode(obj, tl))
    else:
        guarded(lambda: obj.decode(tl))
    return obj, [tt(x) for x in tl.tagList]


def impl_decode_pdu(name, octets):
    from bacpypes.apdu import APDU
    cls = S()['classes'][name]
    a = APDU()
    a.pduData = bytearray(octets)
    obj = cls()
    guarded(lambda: obj.decode(a))
    return obj


def tname(name):
    return 'T_' + name


def case_encode(name, tr, kind='enc'):
    if is_pdu(name):
        exp = canon_call(lambda: impl_encode_pdu(name, tr), list)
        coq = 'canon_res zs (encode_pdu %s %s)' % (tname(name), coq_val(tr))
    else:
        exp = canon_call(lambda: impl_encode_tags(name, tr), canon_tags)
        coq = 'canon_res canon_tags (encode %s %s)' % (tname(name), coq_val(tr))
    return Case(kind, coq, exp, key=(name, 'enc', repr(strip(tr))), nontrivial=nontrivial_tree(tr),
                desc={'op': 'encode', 'type': name, 'value': repr(strip(tr))[:1500]})


def case_decode_tags(name, tags, kind='dec', nontrivial=True):
    def ok(r):
        obj, rest = r
        return shape_class(name, obj) + canon_tags(rest)
    exp = canon_call(lambda: impl_decode_tags(name, tags), ok)
    coq = 'canon_res canon_dec (decode %s %s)' % (tname(name), coq_tags(tags))
    return Case(kind, coq, exp, key=(name, 'dec', repr(tags)), nontrivial=nontrivial,
                desc={'op': 'decode', 'type': name, 'tags': [list(t[:3]) + [t[3].hex()] for t in tags]})


def shape_cast(c, r):
    form, name = c[0], c[1]
    if form == 'atom':
        return [1, prim(name)._app_tag]
    if form == 'class':
        return shape_class(name, r)
    if is_atom_list(c):
        return [5, len(r)] + [1, atom_class(name)._app_tag] * len(r)
    out = [5, len(r)]
    for x in r:
        out += shape_class(name, x)
    return out


def impl_cast_history(c, tags):
    """Any holding `tags`: cast_out twice, then look at the Any's own tag list"""
    from bacpypes.constructeddata import Any
    from bacpypes.primitivedata import TagList
    a = Any()
    a.tagList = TagList([mk(*t) for t in tags])
    klass = carried_py_type(c)
    out = []
    for _ in range(2):
        try:
            r = guarded(lambda: a.cast_out(klass), 3)
        except _Watchdog:
            out += [1, 17]      # the loop does not terminate: the model's OutOfFuel (only for lists of a nullable
            continue            # item type, e.g. ArrayOf(SetpointReference) on a foreign tag; no table has one)
        except RecursionError:
            raise
        except Exception as e:
            out += [1, exc_code(e)]
            continue
        out += [0] + shape_cast(c, r)
    return out + canon_tags([tt(x) for x in a.tagList.tagList])


def case_cast(c, tags, kind='cast'):
    exp = impl_cast_history(c, tags)
    coq = 'canon_cast %s %s' % (carried_coq_type(c), coq_tags(tags))
    return Case(kind, coq, exp, key=('cast', c[0], c[1], repr(tags)), nontrivial=True,
                desc={'op': 'cast_out x2 + Any.tagList', 'type': '%s of %s' % (c[0], c[1]),
                      'tags': [list(t[:3]) + [t[3].hex()] for t in tags]})


def iter_anys(tr):
    """the Any values of a tree that carry a typed value, in schema order"""
    if tr is None:
        return
    k = tr[0]
    if k == 'tags':
        if len(tr) > 2:
            yield tr
    elif k == 'seq':
        for f in tr[2]:
            yield from iter_anys(f)
    elif k == 'choice':
        yield from iter_anys(tr[3])
    elif k == 'list':
        for x in tr[1]:
            yield from iter_anys(x)


def find_anys_type(t, tr, v):
    """(Any object, carried descriptor) pairs of a decoded value, walking tree and object together"""
    k = t['k']
    if k in ('any', 'seqofany'):
        if tr is not None and len(tr) > 2:
            yield v, tr[2]
    elif k == 'seqof':
        if hasattr(v, 'subtype'):
            v = v.value
        for x, y in zip(tr[1], v):
            yield from find_anys_type(t['of'], x, y)
    elif k == 'ref':
        yield from find_anys_class(t['name'], tr, v)


def find_anys_class(name, tr, obj):
    d = cdesc(name)
    if d['kind'] == 'seq':
        for e, f in zip(d['elements'], tr[2]):
            if f is not None:
                yield from find_anys_type(e['type'], f, getattr(obj, e['name']))
    elif d['kind'] == 'choice':
        e = d['elements'][tr[2]]
        yield from find_anys_type(e['type'], tr[3], getattr(obj, e['name']))


def carried_expected(c):
    form, name = c[0], c[1]
    if form == 'atom':
        return ('leaf', c[2])
    if form == 'class':
        return strip(c[2][0])
    return ('list', tuple(strip(x) for x in c[2]))


def carried_extract(c, r):
    form, name = c[0], c[1]
    if form == 'atom':
        return ('leaf', norm_leaf(r))
    if form == 'class':
        return extract_class(name, r)
    if is_atom_list(c):
        return ('list', tuple(('atom', None, norm_leaf(x)) for x in r))
    return ('list', tuple(extract_class(name, x) for x in r))


def changed_variant(name, tr, rng):
    """one element of a Sequence value changed to ANOTHER valid value (an atomic element re-drawn, or an optional
    element that is present taken away): (element index, new sub-tree or None, the changed tree), or None"""
    d = cdesc(name)
    if d['kind'] != 'seq':
        return None
    idx = [i for i, e in enumerate(d['elements']) if (e['type']['k'] == 'atom' and tr[2][i] is not None) or (e['opt'] and tr[2][i] is not None)
           or (e['opt'] and e['type']['k'] == 'atom')]
    if not idx:
        return None
    i = rng.choice(idx)
    e = d['elements'][i]
    if e['opt'] and tr[2][i] is not None and (e['type']['k'] != 'atom' or rng.random() < 0.4):
        new = None
    else:
        new = gen_type(e['type'], rng, 3)
    tr2 = ('seq', name, [new if j == i else f for j, f in enumerate(tr[2])])
    return i, new, tr2


def apply_change(name, obj, i, new):
    e = cdesc(name)['elements'][i]
    setattr(obj, e['name'], None if new is None else build_type(e['type'], new))


def case_encode_after_change(name, tr, rng):
    """correspondence: the SAME object is encoded, one element is assigned another value, and it is encoded again:
    the second encoding is the model's encoding of the value the object has now"""
    cv = changed_variant(name, tr, rng)
    if cv is None:
        return None
    i, new, tr2 = cv

    def run():
        obj = build_class(name, tr)
        if is_pdu(name):
            from bacpypes.apdu import APDU
            obj.encode(APDU())
            apply_change(name, obj, i, new)
            a = APDU(); obj.encode(a)
            return list(bytes(a.pduData))
        from bacpypes.primitivedata import TagList
        obj.encode(TagList())
        apply_change(name, obj, i, new)
        tl = TagList(); obj.encode(tl)
        return canon_tags([tt(x) for x in tl.tagList])
    try:
        exp = canon_call(run, list)
    except Exception:
        return None
    if is_pdu(name):
        coq = 'canon_res zs (encode_pdu %s %s)' % (tname(name), coq_val(tr2))
    else:
        coq = 'canon_res canon_tags (encode %s %s)' % (tname(name), coq_val(tr2))
    return Case('enc-after-change', coq, exp, key=(name, 'enc2', repr(strip(tr)), repr(strip(tr2))), nontrivial=True,
                desc={'op': 'encode, assign element %s, encode again' % cdesc(name)['elements'][i]['name'], 'type': name,
                      'value': repr(strip(tr))[:1200], 'changed_to': repr(strip(tr2))[:1200]})


def history_failure(name, tr, rng=None):
    """'observation does not disturb': encode twice; decode twice (fresh objects, then the SAME object); on the
    decoded value look at every Any with cast_out (twice) and dict_contents, then re-encode: same octets"""
    from bacpypes.constructeddata import Sequence
    base = {'type': name, 'value': repr(strip(tr))[:3000], 'tree': repr(tr), 'features': sorted(features(tr))}
    pdu = is_pdu(name)

    def enc(obj):
        from bacpypes.primitivedata import TagList
        from bacpypes.comm import PDUData
        if pdu:
            from bacpypes.apdu import APDU
            a = APDU(); obj.encode(a); return bytes(a.pduData)
        tl = TagList(); obj.encode(tl); p = PDUData(); tl.encode(p); return bytes(p.pduData)

    def dec(octets, into=None):
        from bacpypes.primitivedata import TagList
        from bacpypes.comm import PDUData
        if pdu:
            from bacpypes.apdu import APDU
            a = APDU(); a.pduData = bytearray(octets)
            obj = into if into is not None else S()['classes'][name]()
            guarded(lambda: obj.decode(a))
            return obj
        tl = TagList(); tl.decode(PDUData(octets))
        obj = into if into is not None else S()['classes'][name]()
        guarded(lambda: obj.decode(tl))
        return obj
    try:
        src = build_class(name, tr)
        o1 = enc(src)
        o2 = enc(src)
    except Exception:
        return None          # refusals are the round-trip predicate's business
    base['octets'] = o1.hex()
    if o1 != o2:
        return dict(base, kind='encode-twice-differs', again=o2.hex())
    try:
        a = dec(o1); b = dec(o1)
        ea, eb = extract_class(name, a), extract_class(name, b)
    except Exception:
        return None
    if ea != eb:
        return dict(base, kind='decode-twice-differs', first=repr(ea)[:1500], second=repr(eb)[:1500])
    try:
        dec(o1, into=b)
        eb2 = extract_class(name, b)
    except Exception as e:
        return dict(base, kind='decode-into-same-object-refused', exc=type(e).__name__, msg=str(e)[:200])
    if eb2 != ea:
        return dict(base, kind='decode-into-same-object-differs', first=repr(ea)[:1500], second=repr(eb2)[:1500])
    try:
        if enc(b) != o1:
            return dict(base, kind='reencode-after-second-decode-differs', again=enc(b).hex())
    except Exception as e:
        return dict(base, kind='reencode-after-second-decode-refused', exc=type(e).__name__, msg=str(e)[:200])
    # second use after a failure: (1) the same object refuses to encode while one required element is missing, then
    # encodes to the same octets once it is put back; (2) a decode of damaged octets into an object (refused or
    # not), then a decode of the good octets into that SAME object
    if rng is not None and cdesc(name)['kind'] == 'seq':
        d = cdesc(name)
        req = [e['name'] for e in d['elements'] if not e['opt'] and getattr(src, e['name'], None) is not None]
        if req:
            nm = rng.choice(req)
            keep = getattr(src, nm)
            setattr(src, nm, None)
            try:
                enc(src)
                refused = False
            except Exception:
                refused = True
            setattr(src, nm, keep)
            try:
                o3 = enc(src)
            except Exception as e:
                return dict(base, kind='encode-after-failure-refused', history='%s := None, encode, restore' % nm,
                            exc=type(e).__name__, msg=str(e)[:200])
            if o3 != o1:
                return dict(base, kind='encode-after-failure-differs', history='%s := None, encode (refused=%s), restore' % (nm, refused),
                            again=o3.hex())
    # an object that has been encoded is CHANGED and encoded again: the octets are those of a fresh object holding the
    # new value (nothing of the first encoding is kept); changed back, it encodes to the first octets again
    cv = changed_variant(name, tr, rng) if rng is not None else None
    if cv is not None:
        i, newv, tr2 = cv
        enm = cdesc(name)['elements'][i]['name']
        try:
            want2 = enc(build_class(name, tr2))
        except Exception:
            want2 = None
        if want2 is not None:
            keep = getattr(src, enm, None)
            try:
                apply_change(name, src, i, newv)
                got2 = enc(src)
            except Exception as e:
                return dict(base, kind='encode-after-change-refused', history='encode, %s := other value, encode' % enm,
                            changed_to=repr(strip(tr2))[:1500], exc=type(e).__name__, msg=str(e)[:200])
            finally:
                setattr(src, enm, keep)
            if got2 != want2:
                return dict(base, kind='encode-after-change-differs', history='encode, %s := other value, encode' % enm,
                            changed_to=repr(strip(tr2))[:1500], got=got2.hex(), want=want2.hex())
            try:
                o5 = enc(src)
            except Exception as e:
                return dict(base, kind='encode-after-change-refused', history='encode, %s changed, encode, changed back, encode' % enm,
                            exc=type(e).__name__, msg=str(e)[:200])
            if o5 != o1:
                return dict(base, kind='encode-after-change-differs', history='encode, %s changed, encode, changed back, encode' % enm,
                            got=o5.hex(), want=o1.hex())
    if rng is not None and len(o1) >= 2:
        damaged = bytearray(o1)
        how = rng.randrange(3)
        if how == 0:
            damaged = damaged[:rng.randrange(1, len(damaged))]
        elif how == 1:
            damaged[rng.randrange(len(damaged))] ^= 1 << rng.randrange(8)
        else:
            del damaged[rng.randrange(len(damaged))]
        victim = S()['classes'][name]()
        try:
            dec(bytes(damaged), into=victim)
        except _Watchdog:
            return dict(base, kind='decode-hang', damaged=bytes(damaged).hex())
        except Exception:
            pass
        try:
            dec(o1, into=victim)
            ev = extract_class(name, victim)
            ov = enc(victim)
        except Exception as e:
            return dict(base, kind='decode-after-failure-refused', damaged=bytes(damaged).hex(), exc=type(e).__name__, msg=str(e)[:200])
        if ev != ea:
            return dict(base, kind='decode-after-failure-differs', damaged=bytes(damaged).hex(), got=repr(ev)[:1500])
        if ov != o1:
            return dict(base, kind='reencode-after-failed-decode-differs', damaged=bytes(damaged).hex(), again=ov.hex())
    # look at the decoded value `a`
    for anyobj, c in find_anys_class(name, tr, a):
        klass = carried_py_type(c)
        before = [tt(x) for x in anyobj.tagList.tagList]
        want = carried_expected(c)
        what = '%s of %s' % (c[0], c[1])
        if rng is not None and rng.random() < 0.5:      # a look with the wrong type first (usually refused)
            wrong = S()['classes'][rng.choice(carry_pool()['ctxprim'])]
            try:
                guarded(lambda: anyobj.cast_out(wrong), 3)
            except Exception:
                pass
        for attempt in (1, 2):
            try:
                r = guarded(lambda: anyobj.cast_out(klass))
                got = carried_extract(c, r)
            except Exception as e:
                return dict(base, kind='cast-out-refused', carried=what, attempt=attempt, exc=type(e).__name__, msg=str(e)[:200])
            if got != want:
                return dict(base, kind='cast-out-value-differs', carried=what, attempt=attempt, got=repr(got)[:1500], want=repr(want)[:1500])
        after = [tt(x) for x in anyobj.tagList.tagList]
        if after != before:
            return dict(base, kind='cast-out-disturbs-any', carried=what, before=repr(before)[:800], after=repr(after)[:800])
    try:
        (Sequence.dict_contents(a) if pdu else a.dict_contents())
        again = enc(a)
    except Exception as e:
        return dict(base, kind='reencode-after-observation-refused', exc=type(e).__name__, msg=str(e)[:200])
    if again != o1:
        return dict(base, kind='reencode-after-observation-differs', again=again.hex())
    return None


def case_decode_pdu(name, octets, kind='dec-pdu', nontrivial=True):
    exp = canon_call(lambda: impl_decode_pdu(name, octets), lambda obj: shape_class(name, obj))
    coq = 'canon_res canon_val (decode_pdu %s %s)' % (tname(name), nlist(octets))
    return Case(kind, coq, exp, key=(name, 'decpdu', bytes(octets)), nontrivial=nontrivial,
                desc={'op': 'decode_pdu', 'type': name, 'octets': bytes(octets).hex()})


# ------------------------------------------------------------------------------------------------
# generators
def presence_patterns(name, rng, cap):
    d = cdesc(name)
    opt = [i for i, e in enumerate(d['elements']) if e['opt']]
    if d['kind'] != 'seq' or not opt:
        return [None]
    if 2 ** len(opt) <= cap:
        pats = [dict(zip(opt, bits)) for bits in itertools.product([False, True], repeat=len(opt))]
    else:
        pats = [dict.fromkeys(opt, False), dict.fromkeys(opt, True)]
        for i in opt:
            p = dict.fromkeys(opt, False); p[i] = True; pats.append(p)
            p = dict.fromkeys(opt, True); p[i] = False; pats.append(p)
        while len(pats) < cap:
            pats.append({i: rng.random() < 0.5 for i in opt})
    return pats


def has_list(name):
    return any(e['type']['k'] == 'seqof' for e in cdesc(name)['elements'])


def values_for(name, rng, tier):
    """the systematic family of values of one class"""
    d = cdesc(name)
    out = []
    cap = 8 if tier == 'quick' else 64
    if d['kind'] == 'seq':
        for p in presence_patterns(name, rng, cap):
            out.append(gen_bounded(name, rng, {'presence': p} if p else None))
        if has_list(name):
            for n in (0, 1, 2, 3):
                out.append(gen_bounded(name, rng, {'listlen': n}))
            for pat in ('adjacent', 'nonadjacent', 'allequal'):       # equal entries in every list element
                out.append(gen_bounded(name, rng, {'dup': pat}))
        if any(e['type']['k'] in ('any', 'seqofany') for e in d['elements']):
            allp = dict.fromkeys([i for i, e in enumerate(d['elements']) if e['opt']], True)
            for pat in ('adjacent', 'nonadjacent', 'allequal', 'mix'):  # ... and in lists carried by an Any
                out.append(gen_bounded(name, rng, {'carry': pat, 'presence': allp}))
    elif d['kind'] == 'choice':
        for i in range(len(d['elements'])):
            out.append(gen_bounded(name, rng, {'alt': i}))
            if d['elements'][i]['type']['k'] == 'seqof':
                for n in (0, 1, 3):
                    out.append(gen_bounded(name, rng, {'alt': i, 'listlen': n}))
                out.append(gen_bounded(name, rng, {'alt': i, 'dup': rng.choice(['adjacent', 'nonadjacent', 'allequal'])}))
            if d['elements'][i]['type']['k'] in ('any', 'seqofany'):
                out.append(gen_bounded(name, rng, {'alt': i, 'carry': rng.choice(['adjacent', 'nonadjacent', 'allequal', 'mix'])}))
    else:
        for r in (0.1, 0.5, 0.9):
            out.append(gen_bounded(name, rng, {'nv': r}))
    extra = 1 if tier == 'quick' else 6
    for _ in range(extra):
        out.append(gen_bounded(name, rng))
    return out


def mutate_tags(tags, rng):
    """one structural mutation of a tag list"""
    ts = list(tags)
    how = rng.randrange(8)
    if not ts:
        how = 6
    k = rng.randrange(len(ts)) if ts else 0
    if how == 0:
        del ts[k]
    elif how == 1:
        ts.insert(k, ts[k])
    elif how == 2:
        c, n, l, dta = ts[k]
        ts[k] = (c, rng.choice([0, 1, 2, 3, 4, 5, 9, 15, n + 1]), l, dta)
    elif how == 3:
        c, n, l, dta = ts[k]
        if c in (2, 3):
            ts[k] = (5 - c, n, l, dta)
        elif c == 1:
            ts[k] = (0, rng.choice([0, 2, 4, 6, 7, 9, 10, 12]), l, dta) if not (l != len(dta)) else ts[k]
        else:
            ts[k] = (1, rng.randrange(4), len(dta), dta) if n != 1 else (1, rng.randrange(4), 1, bytes([l & 255]))
    elif how == 4 and len(ts) >= 2:
        j = rng.randrange(len(ts) - 1)
        ts[j], ts[j + 1] = ts[j + 1], ts[j]
    elif how == 5:
        ts = ts[:k]
    elif how == 6:
        extra = rng.choice([(0, 2, 1, b'\x07'), (1, 0, 1, b'\x01'), (3, 0, 0, b''), (2, 1, 0, b''), (0, 0, 0, b''), (1, 7, 2, b'ab')])
        ts.append(extra)
    else:
        extra = rng.choice([(0, 2, 1, b'\x07'), (1, 0, 1, b'\x01'), (3, 0, 0, b''), (2, 1, 0, b''), (0, 9, 1, b'\x03'), (0, 7, 2, b'\x04a'),
                            (0, 7, 5, b'\x03\x00\x11\x00\x00'), (0, 14, 1, b'x'), (0, 20, 1, b'x')])
        ts.insert(k, extra)
    return ts


def tags_to_octets(tags):
    from bacpypes.primitivedata import TagList
    from bacpypes.comm import PDUData
    p = PDUData()
    TagList([mk(*t) for t in tags]).encode(p)
    return bytes(p.pduData)


def all_names():
    return list(S()['desc']['order'])


def cases(rng, tier):
    out = []
    names = all_names()
    nmut = 2 if tier == 'quick' else 4
    for name in names:
        for tr in values_for(name, rng, tier):
            out.append(case_encode(name, tr))
            try:
                tags = impl_encode_tags(name, tr)
            except Exception:
                continue
            nt = nontrivial_tree(tr)
            if rng.random() < 0.25:
                k = case_encode_after_change(name, tr, rng)
                if k is not None:
                    out.append(k)
            for atr in iter_anys(tr):
                out.append(case_cast(atr[2], atr[1]))
                if rng.random() < 0.5:
                    out.append(case_cast(atr[2], mutate_tags(atr[1], rng), 'cast-malformed'))
            # decode the valid encoding, alone and in front of other tags
            out.append(case_decode_tags(name, tags, 'dec', nt))
            if rng.random() < 0.3:
                follow = rng.choice([[(3, 2, 0, b'')], [(0, 2, 1, b'\x05')], [(1, 9, 1, b'\x00')], [(2, 7, 0, b''), (3, 7, 0, b'')]])
                out.append(case_decode_tags(name, tags + follow, 'dec-follow', True))
            if is_pdu(name):
                try:
                    octets = tags_to_octets(tags)
                    out.append(case_decode_pdu(name, octets, 'dec-pdu', nt))
                    if rng.random() < 0.2:
                        m = bytearray(octets) + bytes([rng.randrange(256)])
                        out.append(case_decode_pdu(name, bytes(m), 'dec-pdu-malformed'))
                except Exception:
                    pass
            for _ in range(nmut):
                if rng.random() < 0.5:
                    continue
                mt = mutate_tags(tags, rng)
                if is_pdu(name) and rng.random() < 0.5:
                    try:
                        out.append(case_decode_pdu(name, tags_to_octets(mt), 'dec-pdu-malformed'))
                    except Exception:
                        pass
                else:
                    out.append(case_decode_tags(name, mt, 'dec-malformed'))
    out.extend(extra_cases(rng, tier))
    out.extend(array_cases(rng, tier))
    return out


def systematic_carried(rng):
    """for EVERY constructed type with context-tagged primitive members: one value alone and one list of values,
    as the typed content of an Any (every run)"""
    out = []
    for name in carry_pool()['ctxprim']:
        for form in ('class', rng.choice(['seqof', 'listof', 'arrayof'])):
            trees, tags = [], []
            try:
                if form != 'class' and not list_safe(name):
                    raise ValueError
                for _ in range(1 if form == 'class' else rng.choice([1, 2, 3])):
                    tr = gen_bounded(name, rng, limit=40)
                    if features(tr):
                        raise ValueError
                    trees.append(tr)
                    tags += impl_encode_tags(name, tr)
            except Exception:
                continue
            out.append(('tags', tags, (form, name, trees)))
    # lists of every primitive element kind, each list kind, each repetition pattern (every run)
    for name in LIST_ATOMS:
        for form in ('listof', 'seqof', 'arrayof'):
            for pattern in (['adjacent', 'nonadjacent', 'allequal'] + (['mix'] if name in MIXES else [])):
                if name == 'Null' and pattern == 'mix':
                    continue
                try:
                    out.append(gen_atom_list(rng, form, name, pattern))
                except Exception:
                    continue
    # lists of constructed entries with repetitions
    for name in rng.sample(carry_pool()['ctxprim'], 25):
        if not list_safe(name):
            continue
        try:
            a, b = gen_bounded(name, rng, limit=30), gen_bounded(name, rng, limit=30)
            if features(a) or features(b):
                continue
            for form, trees in (('listof', [a, a, b]), ('seqof', [a, b, a]), ('arrayof', [a, a, a])):
                tags = []
                for tr in trees:
                    tags += impl_encode_tags(name, tr)
                out.append(('tags', tags, (form, name, trees)))
        except Exception:
            continue
    return out


def standalone_cast_failure(atr):
    """an Any holding a typed value, outside any PDU: cast_out twice gives the value twice and leaves the Any alone"""
    from bacpypes.constructeddata import Any
    from bacpypes.primitivedata import TagList
    c, tags = atr[2], atr[1]
    base = {'type': '%s of %s' % (c[0], c[1]), 'value': repr(carried_expected(c))[:2000], 'features': [],
            'tags': [list(t[:3]) + [t[3].hex()] for t in tags]}
    a = Any()
    a.tagList = TagList([mk(*t) for t in tags])
    klass = carried_py_type(c)
    want = carried_expected(c)
    for attempt in (1, 2):
        try:
            got = carried_extract(c, guarded(lambda: a.cast_out(klass)))
        except Exception as e:
            return dict(base, kind='cast-out-refused', attempt=attempt, exc=type(e).__name__, msg=str(e)[:200])
        if got != want:
            return dict(base, kind='cast-out-value-differs', attempt=attempt, got=repr(got)[:1500])
    after = [tt(x) for x in a.tagList.tagList]
    if after != list(tags):
        return dict(base, kind='cast-out-disturbs-any', after=repr(after)[:800])
    return None


def carried_py_value(c):
    """the Python value an application would hand to Any.cast_in for this carried content"""
    form, name = c[0], c[1]
    if form == 'class':
        return build_class(name, c[2][0])
    if is_atom_list(c):
        return carried_py_type(c)([x[4] for x in c[2]])
    return carried_py_type(c)([build_class(name, x) for x in c[2]])


def spoil(name, obj, rng, first=False):
    """make a Sequence object un-encodable AFTER some of its elements (required element at position >= 1 set to None,
    or, failing that, at position 0); returns a description or None.  Mutates obj."""
    d = cdesc(name)
    if d['kind'] != 'seq':
        return None
    req = [i for i, e in enumerate(d['elements']) if not e['opt'] and getattr(obj, e['name'], None) is not None]
    late = [i for i in req if any(getattr(obj, e['name'], None) is not None for e in d['elements'][:i])]
    if not (late or req):
        return None
    i = rng.choice(late) if late and not first else rng.choice(req)
    setattr(obj, d['elements'][i]['name'], None)
    return '%s.%s := None' % (name, d['elements'][i]['name'])


def carried_bad_value(c, rng):
    """like carried_py_value with ONE invalid member (at a random position): its encode() raises part-way"""
    form, name = c[0], c[1]
    if form == 'class':
        obj = build_class(name, c[2][0])
        what = spoil(name, obj, rng)
        return (obj, what) if what else (None, None)
    if is_atom_list(c):            # one entry the primitive class refuses, after j good ones
        raws = [x[4] for x in c[2]]
        if not raws:
            return None, None
        j = rng.randrange(len(raws))
        raws[j] = object()
        return carried_py_type(c)(raws), 'entry %d := object()' % j
    items = [build_class(name, x) for x in c[2]]
    if not items:
        return None, None
    j = rng.randrange(len(items))
    what = spoil(name, items[j], rng, first=(j > 0 and rng.random() < 0.5))
    if not what:
        return None, None
    return carried_py_type(c)(items), 'item %d: %s' % (j, what)


def cast_in_recovery(atr, rng):
    """Any.cast_in(value with one invalid member) is refused; the corrected value is then cast into the SAME Any.
    Returns (tag tuples now in the Any, description) or None when no refused cast_in could be provoked."""
    from bacpypes.constructeddata import Any
    c = atr[2]
    if c[0] == 'atom':
        return None
    bad, what = carried_bad_value(c, rng)
    if bad is None:
        return None
    a = Any()
    try:
        a.cast_in(bad)
        return None                      # not refused: nothing to recover from
    except Exception as e:
        what += ' -> ' + type(e).__name__
    a.cast_in(carried_py_value(c))
    return a, what


def cast_in_recovery_failure(atr, rng):
    """direct: after a refused cast_in the Any must behave like a fresh one"""
    from bacpypes.constructeddata import Any
    from bacpypes.apdu import WritePropertyRequest, APDU
    c = atr[2]
    base = {'type': '%s of %s' % (c[0], c[1]), 'value': repr(carried_expected(c))[:2000], 'features': []}
    try:
        r = cast_in_recovery(atr, rng)
    except Exception as e:
        return dict(base, kind='cast-in-after-failure-refused', exc=type(e).__name__, msg=str(e)[:200])
    if r is None:
        return None
    a, what = r
    base['history'] = what
    fresh = Any()
    fresh.cast_in(carried_py_value(c))
    got, want = [tt(x) for x in a.tagList.tagList], [tt(x) for x in fresh.tagList.tagList]
    if got != want:
        return dict(base, kind='cast-in-after-failure-differs', got=tags_to_octets(got).hex(), want=tags_to_octets(want).hex())
    # the same inside a PDU: octets equal to a fresh object's, and the value comes back
    def wp(anyobj):
        x = APDU()
        WritePropertyRequest(objectIdentifier=('analogValue', 1), propertyIdentifier='presentValue', propertyValue=anyobj).encode(x)
        return bytes(x.pduData)
    try:
        o1, o2 = wp(a), wp(fresh)
        back = impl_decode_pdu('WritePropertyRequest', o1)
        val = carried_extract(c, back.propertyValue.cast_out(carried_py_type(c)))
    except Exception as e:
        return dict(base, kind='pdu-after-failed-cast-in-refused', exc=type(e).__name__, msg=str(e)[:200])
    if o1 != o2:
        return dict(base, kind='pdu-after-failed-cast-in-differs', got=o1.hex(), want=o2.hex())
    if val != carried_expected(c):
        return dict(base, kind='pdu-after-failed-cast-in-value-differs', got=repr(val)[:1500])
    return None


def case_cast_in_recovery(atr, rng):
    """correspondence: the model's Any after a refused cast_in is what it was (empty), so after the corrected cast_in
    it holds exactly the encoding of the value"""
    c = atr[2]
    try:
        r = cast_in_recovery(atr, rng)
    except Exception:
        return None
    if r is None:
        return None
    a, what = r
    exp = [0] + canon_tags([tt(x) for x in a.tagList.tagList])
    if c[0] == 'class':
        val = coq_val(c[2][0])
    else:
        val = '(VList [%s])' % ';'.join(coq_val(x) for x in c[2])
    coq = 'canon_res canon_tags (encode %s %s)' % (carried_coq_type(c), val)
    return Case('cast-in-recovery', coq, exp, key=('castin', c[0], c[1], repr(exp)), nontrivial=True,
                desc={'op': 'Any.cast_in refused, then corrected cast_in on the same Any; Any.tagList',
                      'type': '%s of %s' % (c[0], c[1]), 'history': what})


def extra_cases(rng, tier):
    """witnesses of the recorded findings and hand-picked boundary inputs"""
    out = []
    for atr in systematic_carried(rng):
        k = case_cast_in_recovery(atr, rng)
        if k is not None:
            out.append(k)
    for atr in systematic_carried(rng):
        out.append(case_cast(atr[2], atr[1], 'cast-systematic'))
    # required un-contexted empty list followed by a closing tag (AtomicReadFile-ACK, record access, no records)
    out.append(case_decode_pdu('AtomicReadFileACK', bytes.fromhex('11 1E 31 00 21 00 1F'.replace(' ', '')), 'witness'))
    out.append(case_decode_pdu('AtomicReadFileACK', bytes.fromhex('111E310021016101AA1F'), 'witness'))
    # character strings in the UTF-16/UTF-32 encodings through a constructed type
    for dta in (b'\x04\x00a', b'\x04\x00', b'\x04\xd8\x00', b'\x04\xd8\x00\xdc\x00', b'\x04\xdc\x00\x00a', b'\x03\x00\x00\x00a', b'\x03\x00\x11\x00\x00',
                b'\x03\x00\x00\xd8\x00', b'\x03\x00\x00', b'\x05\xff', b'\x09zz', b'\x00\xff\xfe', b''):
        out.append(case_decode_tags('NameValue', [(1, 0, len(dta), dta)], 'charstring'))
        out.append(case_decode_tags('DeviceObjectPropertyValue', [(0, 7, len(dta), dta)], 'charstring'))
    return out


# ------------------------------------------------------------------------------------------------
# the ArrayOf OBJECT (model coq/theories/ArrayObj.v): self.value = [count, e1, ..., en] under histories of method calls
def array_subtypes():
    """(descriptor, element maker) for the subtypes arrays are made of: every primitive element kind and the
    list-safe constructed types with context-tagged primitive members"""
    out = [('arrayof-atom', n) for n in LIST_ATOMS]
    out += [('arrayof', n) for n in carry_pool()['ctxprim'] if list_safe(n)]
    return out


def arr_elem(c, rng):
    """one element: (python value handed to the array, neutral tree)"""
    if is_atom_list(c):
        klass = atom_class(c[1])
        v = leaf_value(klass, rng)
        return v, atom_tree(klass, c[1], v)
    for _ in range(20):
        tr = gen_bounded(c[1], rng, limit=25)
        if not features(tr):
            return build_class(c[1], tr), tr
    raise ValueError(c)


def arr_default(c):
    """subtype().value as a neutral tree (what fix_length pads with); None for constructed subtypes: a bare
    subtype() has no required element set and cannot be encoded — histories never grow those"""
    if not is_atom_list(c):
        return None
    klass = atom_class(c[1])
    try:
        v = klass().value
        return atom_tree(klass, c[1], v)
    except Exception:
        return None


def arr_item_tags(c, item):
    """the tags one element cell of the implementation's self.value encodes to (subtype's own encoder)"""
    from bacpypes.primitivedata import TagList
    if is_atom_list(c):
        return [leaf_tag(atom_class(c[1]), item)]
    tl = TagList()
    item.encode(tl)
    return [tt(x) for x in tl.tagList]


def arr_canon_cell(c, pos, cell):
    if pos == 0:
        return [0, int(cell)]
    return [1] + canon_call(lambda: arr_item_tags(c, cell), canon_tags)


def arr_class(c, fixed):
    from bacpypes import constructeddata as cd
    sub = atom_class(c[1]) if is_atom_list(c) else S()['classes'][c[1]]
    return cd.ArrayOf(sub) if fixed is None else cd.ArrayOf(sub, fixed_length=fixed)


def arr_apply(a, op):
    from bacpypes.primitivedata import TagList
    k = op[0]
    if k == 'append':
        a.append(op[1])
    elif k == 'setlen':
        a[0] = op[1]
    elif k == 'set':
        a[op[1]] = op[2]
    elif k == 'del':
        del a[op[1]]
    elif k == 'decode':
        guarded(lambda: a.decode(TagList([mk(*t) for t in op[1]])), 3)
    else:
        raise ValueError(k)


def gen_array_history(rng, c=None):
    """a constructor call and a history of method calls on ONE ArrayOf object: append, __setitem__(0, n) (shrink,
    grow with defaults, same), __setitem__(i, v) and __delitem__(i) for i = 0 .. len + 1 (in and just out of range),
    decode of another array's encoding into the same object; free and fixed length; the generator follows a live
    object only to know the current length"""
    c = c or rng.choice(array_subtypes())
    dflt = arr_default(c)
    n0 = rng.choice([0, 1, 2, 3])
    init = [arr_elem(c, rng) for _ in range(n0)]
    if init and rng.random() < 0.4:
        init = dup_pattern(init, rng, lambda: arr_elem(c, rng))
    r = rng.random()
    fixed = None if r < 0.7 else (len(init) if r < 0.95 else len(init) + 1)     # the last: the constructor refuses
    use_init = not (rng.random() < 0.15)
    if not use_init and (fixed is not None) and dflt is None:
        fixed = None
    h = {'c': c, 'fixed': fixed, 'init': init if use_init else None, 'ops': [], 'dflt': dflt}
    klass = arr_class(c, fixed)
    try:
        live = klass([x[0] for x in init]) if use_init else klass()
    except Exception:
        return h
    for _ in range(rng.choice([1, 2, 3, 4, 6])):
        n = len(live.value) - 1
        k = rng.choice(['append', 'setlen', 'set', 'set', 'del', 'del', 'decode'])
        if k == 'append':
            op = ('append',) + arr_elem(c, rng)
        elif k == 'setlen':
            grow = [n + 1, n + 2] if dflt is not None else []
            op = ('setlen', rng.choice([0, max(0, n - 1), n] + grow))
        elif k == 'set':
            op = ('set', rng.choice(list(range(1, n + 2)))) + arr_elem(c, rng)
        elif k == 'del':
            op = ('del', rng.choice(list(range(0, n + 2))))
        else:
            items = [arr_elem(c, rng) for _ in range(rng.choice([0, 1, 2, 3]) if fixed is None or rng.random() < 0.3 else fixed)]
            tags = []
            for it in items:
                tags += arr_item_tags(c, it[0])
            if rng.random() < 0.3:
                tags = tags + [(3, 1, 0, b'')]
            if rng.random() < 0.15:
                tags = mutate_tags(tags, rng)
            op = ('decode', tags)
        h['ops'].append(op)
        try:
            arr_apply(live, op if op[0] not in ('append', 'set') else op[:-1])
        except Exception:
            pass
    return h


def impl_array_hist(h):
    """the observable of the history (== ArrayObj.canon_hist)"""
    from bacpypes.primitivedata import TagList
    from bacpypes.constructeddata import Any
    c = h['c']
    klass = arr_class(c, h['fixed'])
    try:
        a = klass([x[0] for x in h['init']]) if h['init'] is not None else klass()
    except Exception as e:
        return [1, exc_code(e)]
    out = [0]
    for op in h['ops']:
        try:
            arr_apply(a, op if op[0] not in ('append', 'set') else op[:-1])
            out.append(0)
        except RecursionError:
            raise
        except Exception as e:
            out.append(exc_code(e))
    val = a.value
    out.append(len(val))
    for i, cell in enumerate(val):
        out += arr_canon_cell(c, i, cell)
    out += canon_call(lambda: len(a), lambda n: [n])
    for i in range(len(val) + 1):
        out += canon_call(lambda: a[i], lambda cell: arr_canon_cell(c, i, cell))

        def enc_item():
            tl = TagList()
            a.encode_item(i, tl)
            return [tt(x) for x in tl.tagList]
        out += canon_call(enc_item, canon_tags)

    def enc():
        tl = TagList()
        a.encode(tl)
        return [tt(x) for x in tl.tagList]
    out += canon_call(enc, canon_tags)

    def cast():
        x = Any()
        x.cast_in(a)
        return x.cast_out(klass)

    def canon_items(r):
        o = [len(r)]
        for it in r:
            o += canon_call(lambda: arr_item_tags(c, it), canon_tags)
        return o
    out += canon_call(cast, canon_items)
    return out


def arr_coq_subtype(c):
    return '(TAtom %d)' % atom_class(c[1])._app_tag if is_atom_list(c) else tname(c[1])


def arr_coq_op(op):
    k = op[0]
    if k == 'append': return '(OAppend %s)' % coq_val(op[2])
    if k == 'setlen': return '(OSetLen %d)' % op[1]
    if k == 'set': return '(OSet %d %s)' % (op[1], coq_val(op[3]))
    if k == 'del': return '(ODel %d)' % op[1]
    return '(ODecode %s)' % coq_tags(op[1])


def arr_hist_desc(h):
    def o(op):
        if op[0] == 'decode':
            return ['decode', [list(t[:3]) + [t[3].hex()] for t in op[1]]]
        if op[0] == 'append':
            return ['append', repr(strip(op[2]))[:200]]
        if op[0] == 'set':
            return ['set', op[1], repr(strip(op[3]))[:200]]
        return list(op)
    return {'op': 'ArrayOf object history', 'type': 'arrayof %s' % h['c'][1], 'fixed_length': h['fixed'],
            'init': None if h['init'] is None else [repr(strip(x[1]))[:200] for x in h['init']], 'calls': [o(op) for op in h['ops']]}


def case_array_hist(h, kind='array-history'):
    c = h['c']
    exp = impl_array_hist(h)
    dflt = coq_val(h['dflt']) if h['dflt'] is not None else '(VTags [])'
    init = 'None' if h['init'] is None else '(Some [%s])' % ';'.join(coq_val(x[1]) for x in h['init'])
    fixed = 'None' if h['fixed'] is None else '(Some %d%%N)' % h['fixed']
    coq = 'canon_hist %s %s %s %s [%s]' % (arr_coq_subtype(c), fixed, dflt, init, ';'.join(arr_coq_op(op) for op in h['ops']))
    return Case(kind, coq, exp, key=('arrhist', repr(exp), coq[:400]), nontrivial=True, desc=arr_hist_desc(h))


def case_array_decode_item(c, i, tags, kind='array-decode-item'):
    """decode_item(i, tags) on a fresh object: the item it holds afterwards (by shape) and the tags left"""
    from bacpypes.primitivedata import TagList
    klass = arr_class(c, None)
    dflt = arr_default(c)

    def run():
        a = klass()
        tl = TagList([mk(*t) for t in tags])
        guarded(lambda: a.decode_item(i, tl), 3)
        if i == 0:
            shape = [0, int(a.value)]
        elif is_atom_list(c):
            shape = [1, 1, atom_class(c[1])._app_tag]
        else:
            shape = [1] + shape_class(c[1], a.value)
        return shape + canon_tags([tt(x) for x in tl.tagList])
    exp = canon_call(run, lambda r: r)
    coq = 'canon_res canon_item_dec (arr_decode_item %s %s %d %s)' % (
        arr_coq_subtype(c), coq_val(dflt) if dflt is not None else '(VTags [])', i, coq_tags(tags))
    return Case(kind, coq, exp, key=('arrdecitem', c[1], i, repr(tags)), nontrivial=True,
                desc={'op': 'ArrayOf.decode_item', 'type': 'arrayof %s' % c[1], 'index': i,
                      'tags': [list(t[:3]) + [t[3].hex()] for t in tags]})


def count_tag(n):
    from bacpypes.primitivedata import Unsigned
    return leaf_tag(Unsigned, n)


def array_cases(rng, tier):
    out = []
    subs = array_subtypes()
    per = 1 if tier == 'quick' else 4
    for c in subs:                                   # every subtype every run
        for _ in range(per):
            try:
                out.append(case_array_hist(gen_array_history(rng, c)))
            except _Watchdog:
                continue
        # item access: the count, a valid element, and malformed / foreign / no tags
        try:
            it = arr_elem(c, rng)
            good = arr_item_tags(c, it[0])
        except Exception:
            continue
        follow = rng.choice([[], [(3, 3, 0, b'')], [(0, 2, 1, b'\x05')]])
        out.append(case_array_decode_item(c, rng.choice([1, 2, 7]), good + follow))
        out.append(case_array_decode_item(c, 0, [count_tag(rng.choice([0, 1, 3, 255, 256, 65536, 4294967295]))] + follow))
        r = rng.random()
        if r < 0.4:
            out.append(case_array_decode_item(c, rng.choice([0, 1]), mutate_tags(good, rng)))
        elif r < 0.6 and (is_atom_list(c) and arr_default(c) is not None):
            out.append(case_array_decode_item(c, rng.choice([0, 1]), []))
        elif r < 0.8:
            out.append(case_array_decode_item(c, 0, good))
    for _ in range(60 if tier == 'quick' else 400):   # and random subtypes / longer histories
        try:
            out.append(case_array_hist(gen_array_history(rng)))
        except _Watchdog:
            continue
    return out


def arr_freeze(h):
    """literal form of a history (trees only) for the replay file"""
    ops = []
    for op in h['ops']:
        if op[0] == 'append':
            ops.append(('append', op[2]))
        elif op[0] == 'set':
            ops.append(('set', op[1], op[3]))
        else:
            ops.append(tuple(op))
    return repr({'c': tuple(h['c']), 'fixed': h['fixed'], 'init': None if h['init'] is None else [x[1] for x in h['init']],
                 'ops': ops, 'dflt': h['dflt']})


def arr_thaw(text):
    import ast
    d = ast.literal_eval(text)
    c = tuple(d['c'])

    def py(tr):
        return tr[4] if is_atom_list(c) else build_class(c[1], tr)
    ops = []
    for op in d['ops']:
        if op[0] == 'append':
            ops.append(('append', py(op[1]), op[1]))
        elif op[0] == 'set':
            ops.append(('set', op[1], py(op[2]), op[2]))
        else:
            ops.append(tuple(op))
    return {'c': c, 'fixed': d['fixed'], 'init': None if d['init'] is None else [(py(t), t) for t in d['init']], 'ops': ops, 'dflt': d['dflt']}


def array_object_failure(h):
    f = _array_object_failure(h)
    if f is not None:
        f['array_history'] = arr_freeze(h)
    return f


def _array_object_failure(h):
    """direct, implementation only: after EVERY call of the history the object is a well-formed array (value[0] ==
    len(value) - 1 == len(a) == number of iterated elements), and at the end: encode -> decode into a fresh object
    gives the same cells and re-encodes identically; encode_item(0) reads back as the count and encode_item(i) as the
    i-th element, nothing left over; Any.cast_in(a) -> octets -> Any.decode -> cast_out(class) are the elements,
    and an array built from them has the same octets"""
    from bacpypes.primitivedata import TagList
    from bacpypes.constructeddata import Any
    from bacpypes.comm import PDUData
    c = h['c']
    d = arr_hist_desc(h)
    base = {'type': d['type'], 'value': repr(d['init'])[:1500], 'history': repr(d['calls'])[:2500], 'fixed_length': h['fixed'],
            'features': []}
    klass = arr_class(c, h['fixed'])
    try:
        a = klass([x[0] for x in h['init']]) if h['init'] is not None else klass()
    except Exception:
        return None

    def cells(val):
        return [arr_canon_cell(c, i, x) for i, x in enumerate(val)]

    def shape_bad(step):
        val = a.value
        if not isinstance(val, list) or not val or isinstance(val[0], bool) or not isinstance(val[0], int):
            return dict(base, kind='array-count-cell-lost', after=step)
        n = val[0]
        if not (n == len(val) - 1 == len(a) == len(list(a))):
            return dict(base, kind='array-count-differs-from-elements', after=step, count=n, cells=len(val) - 1,
                        len=len(a), iterated=len(list(a)))
        if h['fixed'] is not None and n != h['fixed']:
            return dict(base, kind='fixed-length-array-changed-length', after=step, count=n)
        return None
    f = shape_bad('constructor')
    if f:
        return f
    if h['init'] is not None and cells(a.value)[1:] != cells([0] + [x[0] for x in h['init']])[1:]:
        return dict(base, kind='array-constructor-changes-elements')
    for k, op in enumerate(h['ops']):
        before = cells(a.value)
        try:
            arr_apply(a, op if op[0] not in ('append', 'set') else op[:-1])
            ok = True
        except _Watchdog:
            return dict(base, kind='decode-hang', after='call %d' % k)
        except Exception:
            ok = False
        f = shape_bad('call %d (%s)' % (k, op[0]))
        if f:
            return f
        if not ok and cells(a.value) != before:
            return dict(base, kind='refused-call-changed-the-array', after='call %d (%s)' % (k, op[0]))
    want = cells(a.value)
    n = a.value[0]
    try:
        tl = TagList(); a.encode(tl)
        tags = [tt(x) for x in tl.tagList]
    except Exception:
        return None          # elements that cannot be encoded (padded constructed defaults): not a valid value
    octets = tags_to_octets(tags)
    base['octets'] = octets.hex()
    try:
        tl = TagList(); tl.decode(PDUData(octets))
        b = klass(); guarded(lambda: b.decode(tl), 3)
        rest = len(tl.tagList)
        got = cells(b.value)
        tl2 = TagList(); b.encode(tl2)
        again = tags_to_octets([tt(x) for x in tl2.tagList])
    except Exception as e:
        return dict(base, kind='decode-refused', exc=type(e).__name__, msg=str(e)[:200])
    if rest:
        return dict(base, kind='decode-leftover', rest=rest)
    if got != want:
        return dict(base, kind='value-changed', decoded=repr(got)[:1500], want=repr(want)[:1500])
    if again != octets:
        return dict(base, kind='reencode-differs', again=again.hex())
    # item access
    for i in range(0, n + 1):
        try:
            tl = TagList(); a.encode_item(i, tl)
            it_octets = tags_to_octets([tt(x) for x in tl.tagList])
            tl = TagList(); tl.decode(PDUData(it_octets))
            b = klass(); guarded(lambda: b.decode_item(i, tl), 3)
            left = len(tl.tagList)
            got_cell = arr_canon_cell(c, i, b.value)
        except Exception as e:
            return dict(base, kind='array-item-refused', index=i, exc=type(e).__name__, msg=str(e)[:200])
        if left:
            return dict(base, kind='array-item-leftover', index=i, rest=left)
        if got_cell != want[i]:
            return dict(base, kind='array-item-changed', index=i, got=repr(got_cell)[:600], want=repr(want[i])[:600])
    # through an Any
    try:
        x = Any(); x.cast_in(a)
        any_octets = tags_to_octets([tt(t) for t in x.tagList.tagList])
        y = Any(); tl = TagList(); tl.decode(PDUData(any_octets)); y.decode(tl)
        out1 = guarded(lambda: y.cast_out(klass), 3)
        out2 = guarded(lambda: y.cast_out(klass), 3)
        got1 = [arr_canon_cell(c, 1, v) for v in out1]
        got2 = [arr_canon_cell(c, 1, v) for v in out2]
        z = Any(); z.cast_in(klass(list(out1)))
        back = tags_to_octets([tt(t) for t in z.tagList.tagList])
    except Exception as e:
        return dict(base, kind='cast-out-refused', exc=type(e).__name__, msg=str(e)[:200])
    if any_octets != octets:
        return dict(base, kind='cast-in-octets-differ', got=any_octets.hex())
    if got1 != want[1:] or got2 != want[1:]:
        return dict(base, kind='cast-out-value-differs', got=repr(got1)[:1200], want=repr(want[1:])[:1200])
    if back != octets:
        return dict(base, kind='reencode-differs', via='ArrayOf(cast_out result) -> cast_in', again=back.hex())
    return None


def array_direct(rng, tier):
    fails, n = [], 0
    subs = array_subtypes()
    for c in subs:
        for _ in range(2 if tier == 'quick' else 8):
            n += 1
            f = array_object_failure(gen_array_history(rng, c))
            if f:
                fails.append(f)
    for _ in range(150 if tier == 'quick' else 1500):
        n += 1
        f = array_object_failure(gen_array_history(rng))
        if f:
            fails.append(f)
    return fails, n


# ------------------------------------------------------------------------------------------------
# direct, implementation-only predicate
def roundtrip_failure(name, tr):
    """None, or a failure dict: value -> octets -> value' (== value) -> octets' (== octets)"""
    from bacpypes.primitivedata import TagList
    from bacpypes.comm import PDUData
    base = {'type': name, 'value': repr(strip(tr))[:3000], 'tree': repr(tr), 'features': sorted(features(tr))}
    pdu = is_pdu(name)
    try:
        if pdu:
            octets = impl_encode_pdu(name, tr)
        else:
            octets = tags_to_octets(impl_encode_tags(name, tr))
    except Exception as e:
        return dict(base, kind='encode-refused', exc=type(e).__name__, msg=str(e)[:200])
    base['octets'] = octets.hex()
    try:
        if pdu:
            obj = impl_decode_pdu(name, octets)
            rest = []
        else:
            tl = TagList()
            tl.decode(PDUData(octets))
            obj, rest = impl_decode_tags(name, [tt(x) for x in tl.tagList])
    except _Watchdog:
        return dict(base, kind='decode-hang')
    except Exception as e:
        return dict(base, kind='decode-refused', exc=type(e).__name__, msg=str(e)[:200])
    if rest:
        return dict(base, kind='decode-leftover', rest=len(rest))
    try:
        back = extract_class(name, obj)
    except Exception as e:
        return dict(base, kind='decoded-value-malformed', exc=type(e).__name__, msg=str(e)[:200])
    if back != strip_cmp(tr):
        return dict(base, kind='value-changed', decoded=repr(back)[:3000])
    try:
        from bacpypes.constructeddata import Sequence
        if pdu:      # the elements only: the APCI header attributes legitimately differ (property C07)
            want, got = Sequence.dict_contents(build_class(name, tr)), Sequence.dict_contents(obj)
        else:
            want, got = build_class(name, tr).dict_contents(), obj.dict_contents()
        same = repr(normalise_dict(want)) == repr(normalise_dict(got))
    except Exception as e:
        return dict(base, kind='dict-contents-error', exc=type(e).__name__, msg=str(e)[:200])
    if not same:
        return dict(base, kind='dict-contents-differ', want=repr(want)[:1500], got=repr(got)[:1500])
    try:
        a2 = None
        if pdu:
            from bacpypes.apdu import APDU
            a = APDU(); obj.encode(a); again = bytes(a.pduData)
        else:
            tl2 = TagList(); obj.encode(tl2); p = PDUData(); tl2.encode(p); again = bytes(p.pduData)
    except Exception as e:
        return dict(base, kind='reencode-refused', exc=type(e).__name__, msg=str(e)[:200])
    if again != octets:
        return dict(base, kind='reencode-differs', again=again.hex())
    return None


def strip_cmp(tr):
    """strip(), with the class of a plain atom dropped (the decoder reports only the value)"""
    return strip(tr)


def normalise_dict(d):
    if isinstance(d, dict):
        return sorted((k, normalise_dict(v)) for k, v in d.items())
    if isinstance(d, (list, tuple)):
        return [normalise_dict(x) for x in d]
    if isinstance(d, float):
        return d.hex()
    if isinstance(d, (bytes, bytearray)):
        return bytes(d).hex()
    if hasattr(d, 'dict_contents'):
        return ('obj', type(d).__name__, normalise_dict(d.dict_contents()))
    if hasattr(d, 'value') and not isinstance(d, (int, str)):
        return ('obj', type(d).__name__, normalise_dict(d.value))
    return d


def direct(rng, tier, focus=()):
    failures, n, nontriv = [], 0, set()
    per_type = {}
    nhist = {'histories': 0, 'anys_observed': 0, 'cast_in_recoveries': 0}
    fresh_jobs = vector_jobs()           # the worked examples are what the fresh decoder sees FIRST
    fresh_cap = 400 if tier == 'quick' else 3000
    names = all_names()
    samples = []
    reps = 1 if tier == 'quick' else 4
    focus_types = set()
    for d in focus:
        if isinstance(d, dict) and d.get('type'):
            focus_types.add(d['type'])
    for name in names:
        k = reps * (6 if name in focus_types else 1)
        for _ in range(k):
            for tr in values_for(name, rng, 'thorough' if name in focus_types else tier):
                n += 1
                if nontrivial_tree(tr):
                    nontriv.add((name, repr(strip(tr))))
                f = roundtrip_failure(name, tr)
                per_type[name] = per_type.get(name, 0) + 1
                if f:
                    failures.append(f)
                else:
                    n += 1
                    h = history_failure(name, tr, rng)
                    if h:
                        failures.append(h)
                    elif len(fresh_jobs) < fresh_cap and not features(tr) and rng.random() < 0.5:
                        try:
                            oct_ = impl_encode_pdu(name, tr) if is_pdu(name) else tags_to_octets(impl_encode_tags(name, tr))
                            fresh_jobs.append((name, oct_, repr(strip(tr)), None, 'generated'))
                        except Exception:
                            pass
                    for atr in iter_anys(tr):
                        if rng.random() < 0.5:
                            n += 1
                            f2 = cast_in_recovery_failure(atr, rng)
                            nhist['cast_in_recoveries'] += 1
                            if f2:
                                failures.append(f2)
                    nhist['histories'] += 1
                    nhist['anys_observed'] += sum(1 for _ in iter_anys(tr))
        if len(samples) < 4 and name in ('ReadPropertyACK', 'WritePropertyRequest', 'IAmRequest', 'EventParameter'):
            tr = gen_bounded(name, rng)
            samples.append({'direct': 'roundtrip', 'type': name, 'value': repr(strip(tr))[:300]})
    for atr in systematic_carried(rng):
        n += 1
        nhist['anys_observed'] += 1
        f = standalone_cast_failure(atr)
        if f:
            failures.append(f)
        n += 1
        f = cast_in_recovery_failure(atr, rng)
        nhist['cast_in_recoveries'] += 1
        if f:
            failures.append(f)
    af, an = array_direct(rng, tier)
    failures.extend(af)
    n += an
    n += len(_vectors())
    failures.extend(annexf_failures())
    n += len(fresh_jobs)
    failures.extend(fresh_process_failures(fresh_jobs))
    # smallest first so that the replay written is the most readable one
    failures.sort(key=lambda f: len(f.get('octets', '')) + len(f.get('value', '')))
    # "matches the standard": the element tables of the service PDUs and the base types they use, and the
    # service choice numbers, against an independent transcription of clause 21 (harness/std_asn1.py)
    import std_asn1
    from bacpypes import apdu as _apdu, basetypes as _bt

    def _find(nm):
        return getattr(_apdu, nm, None) or getattr(_bt, nm, None)
    for d in std_asn1.compare(_find):
        n += 1
        failures.append(dict(d, kind='schema-differs-from-standard'))
    for table, reg in ((std_asn1.CONFIRMED_CHOICE, 'confirmed'), (std_asn1.UNCONFIRMED_CHOICE, 'unconfirmed')):
        for nm, num in table.items():
            n += 1
            k = _find(nm)
            if k is None or getattr(k, 'serviceChoice', None) != num:
                failures.append({'kind': 'service-choice-differs-from-standard', 'production': nm, 'registry': reg,
                                 'implementation': getattr(k, 'serviceChoice', None), 'standard': num})
    n += len(std_asn1.SEQUENCES) + len(std_asn1.CHOICES)
    return failures, {'evaluations': n, 'distinct_nontrivial': len(nontriv), 'types_exercised': len(per_type),
                      'min_values_per_type': min(per_type.values()) if per_type else 0, 'samples': samples,
                      'observation_histories': nhist['histories'], 'typed_anys_cast_out_twice': nhist['anys_observed'],
                      'cast_in_after_failure_histories': nhist['cast_in_recoveries'], 'array_object_histories': an,
                      'decoded_in_fresh_decode_only_process': len(fresh_jobs)}


# worked examples in the style of Annex F.  Each: class, constructor arguments, the octets of the service
# parameters (after the APCI header), and an independent description for the hand encoder below:
# ('c', ctx, data) primitive context tag, ('a', app, data) application tag, ('o', ctx) / ('x', ctx) opening / closing.
def _vectors():
    from bacpypes.constructeddata import Any
    from bacpypes.primitivedata import Real
    from bacpypes import apdu as A
    return [
        ('ReadPropertyRequest', dict(objectIdentifier=('analogInput', 5), propertyIdentifier='presentValue'),
         '0C00000005 1955', [('c', 0, '00000005'), ('c', 1, '55')]),
        ('ReadPropertyACK', dict(objectIdentifier=('analogInput', 5), propertyIdentifier='presentValue', propertyValue=Any(Real(72.30000305175781))),
         '0C00000005 1955 3E 4442909 99A 3F'.replace('4442909 99A', '444290999A'),
         [('c', 0, '00000005'), ('c', 1, '55'), ('o', 3), ('a', 4, '4290999A'), ('x', 3)]),
        ('WritePropertyRequest', dict(objectIdentifier=('analogValue', 1), propertyIdentifier='presentValue', propertyValue=Any(Real(180.0))),
         '0C00800001 1955 3E 4443340000 3F', [('c', 0, '00800001'), ('c', 1, '55'), ('o', 3), ('a', 4, '43340000'), ('x', 3)]),
        ('WhoIsRequest', dict(deviceInstanceRangeLowLimit=3, deviceInstanceRangeHighLimit=3), '0903 1903', [('c', 0, '03'), ('c', 1, '03')]),
        ('IAmRequest', dict(iAmDeviceIdentifier=('device', 3), maxAPDULengthAccepted=1024, segmentationSupported='noSegmentation', vendorID=99),
         'C402000003 220400 9103 2163', [('a', 12, '02000003'), ('a', 2, '0400'), ('a', 9, '03'), ('a', 2, '63')]),
        ('SubscribeCOVRequest', dict(subscriberProcessIdentifier=18, monitoredObjectIdentifier=('analogInput', 10), issueConfirmedNotifications=True, lifetime=0),
         '0912 1C0000000A 2901 3900', [('c', 0, '12'), ('c', 1, '0000000A'), ('c', 2, '01'), ('c', 3, '00')]),
        ('AtomicReadFileACK', dict(endOfFile=True, accessMethod=A.AtomicReadFileACKAccessMethodChoice(
            recordAccess=A.AtomicReadFileACKAccessMethodRecordAccess(fileStartRecord=0, returnedRecordCount=0, fileRecordData=[]))),
         '11 1E 3100 2100 1F', [('b', 1), ('o', 1), ('a', 3, '00'), ('a', 2, '00'), ('x', 1)]),
        ('TimeSynchronizationRequest', dict(time=__import__('bacpypes.basetypes', fromlist=['DateTime']).DateTime(date=(92, 11, 17, 2), time=(22, 45, 30, 70))),
         'A45C0B1102 B4162D1E46', [('a', 10, '5C0B1102'), ('a', 11, '162D1E46')]),
    ]


def hand_encode(items):
    """clause 20.2.1 by hand, independent of bacpypes: tag number < 15 and lengths < 5 or one extended length octet"""
    out = bytearray()
    for it in items:
        if it[0] == 'b':        # application boolean: value in the L/V/T field
            out.append((1 << 4) | it[1])
            continue
        if it[0] in ('o', 'x'):
            out.append((it[1] << 4) | 0x08 | (6 if it[0] == 'o' else 7))
            continue
        data = bytes.fromhex(it[2])
        first = (it[1] << 4) | (0x08 if it[0] == 'c' else 0)
        if len(data) < 5:
            out.append(first | len(data))
        else:
            out.append(first | 5)
            out.append(len(data))
        out += data
    return bytes(out)


def fresh_process_failures(jobs):
    """jobs: [(type name, octets, expected tree repr or None, expected dict repr or None, label)].  A fresh interpreter that
    only decodes (harness/c03_fresh.py) must report the values this (encoder) process had: order of first use of
    a class must not matter."""
    import json, subprocess
    import core
    if not jobs:
        return []
    script = os.path.join(os.path.dirname(os.path.dirname(os.path.abspath(__file__))), 'c03_fresh.py')
    env = dict(os.environ, PYTHONPATH=core.IMPL, VERIF_REPO=core.REPO, PYTHONHASHSEED='0', PYTHONDONTWRITEBYTECODE='1')
    inp = ''.join(json.dumps({'type': j[0], 'octets': j[1].hex()}) + '\n' for j in jobs)
    try:
        p = subprocess.run([sys.executable, script], input=inp, env=env, capture_output=True, text=True, timeout=600)
        lines = [l for l in p.stdout.split('\n') if l.strip()]
    except subprocess.TimeoutExpired:
        return [{'kind': 'fresh-process-decoder-hang', 'type': None, 'features': []}]
    if p.returncode != 0 or len(lines) != len(jobs):
        return [{'kind': 'fresh-process-decoder-crashed', 'type': None, 'features': [], 'log': (p.stderr or '')[-600:]}]
    fails = []
    for (name, octets, want_tree, want_dict, label), line in zip(jobs, lines):
        got = json.loads(line)
        base = {'type': name, 'octets': octets.hex(), 'features': [label], 'value': (want_tree or want_dict or '')[:2000]}
        if 'exc' in got:
            fails.append(dict(base, kind='fresh-process-decode-refused', exc=got['exc'], msg=got.get('msg')))
        elif want_tree is not None and got['tree'] != want_tree:
            fails.append(dict(base, kind='fresh-process-decode-differs', got=got['tree'][:2000]))
        elif want_dict is not None and got['dict'] != want_dict:
            fails.append(dict(base, kind='fresh-process-dict-contents-differ', got=got['dict'][:2000], want=want_dict[:2000]))
    return fails


def vector_jobs():
    from bacpypes.constructeddata import Sequence
    jobs = []
    for name, kw, hexs, items in _vectors():
        cls = S()['classes'][name]
        want = repr(normalise_dict(Sequence.dict_contents(cls(**kw))))
        jobs.append((name, bytes.fromhex(hexs.replace(' ', '')), None, want, 'annexF'))
    return jobs


def annexf_failures():
    from bacpypes.apdu import APDU
    from bacpypes.constructeddata import Sequence
    fails = []
    for name, kw, hexs, items in _vectors():
        want = bytes.fromhex(hexs.replace(' ', ''))
        base = {'type': name, 'octets': want.hex(), 'value': repr(sorted(kw))[:300], 'features': ['annexF']}
        if hand_encode(items) != want:
            fails.append(dict(base, kind='annexF-vector-inconsistent', hand=hand_encode(items).hex()))
            continue
        cls = S()['classes'][name]
        try:
            a = APDU(); cls(**kw).encode(a)
            got = bytes(a.pduData)
        except Exception as e:
            fails.append(dict(base, kind='annexF-encode-refused', exc=type(e).__name__))
            continue
        if got != want:
            fails.append(dict(base, kind='annexF-octets-differ', got=got.hex()))
            continue
        try:
            obj = impl_decode_pdu(name, want)
            same = repr(normalise_dict(Sequence.dict_contents(obj))) == repr(normalise_dict(Sequence.dict_contents(cls(**kw))))
        except Exception as e:
            fails.append(dict(base, kind='annexF-decode-refused', exc=type(e).__name__))
            continue
        if not same:
            fails.append(dict(base, kind='annexF-values-differ', got=repr(Sequence.dict_contents(obj))[:500]))
    return fails


# ------------------------------------------------------------------------------------------------
def features(tr, acc=None):
    """structural traits of a value that the recorded findings are predicates of"""
    acc = set() if acc is None else acc
    if tr is None:
        return acc
    k = tr[0]
    if k == 'seq':
        for f in tr[2]:
            features(f, acc)
    elif k == 'choice':
        e = cdesc(tr[1])['elements'][tr[2]]
        if e['ctx'] is None and e['type']['k'] not in ('atom',):
            acc.add('unctx-constructed-alternative:%s.%s' % (tr[1], e['name']))
        features(tr[3], acc)
    elif k == 'list':
        for x in tr[1]:
            features(x, acc)
    elif k == 'nv':
        features(tr[2], acc)
    return acc


def classify(failure):
    """id of the recorded finding that explains this failing input, else None (= new violation)"""
    feats = failure.get('features', [])
    # C03-K1: a Choice alternative that is constructed and not context tagged is encoded by Choice.encode
    # but Choice.decode raises NotImplementedError when it reaches it
    if failure.get('kind') == 'decode-refused' and failure.get('exc') == 'NotImplementedError' and \
            any(f.startswith('unctx-constructed-alternative:') for f in feats):
        return 'C03-K1'
    # recorded deviations of a table from the standard's production: exactly the recorded element differs,
    # in exactly the recorded way (anything else about the same production is a new violation)
    if failure.get('kind') == 'schema-differs-from-standard' and 'implementation' in failure:
        imp, std = failure['implementation'], failure['standard']
        if len(imp) == len(std):
            diff = [(i, g, w) for i, (g, w) in enumerate(zip(imp, std)) if list(g) != list(w)]
            prod = failure.get('production')
            if prod == 'NotificationParametersExtendedParametersType' and diff == [(8, [None, 'cons'], [0, 'cons'])]:
                return 'C03-K1'
            if prod == 'NotificationParametersExtended' and diff == [(2, [2, False, 'cons'], [2, False, 'seqof'])]:
                return 'C03-K3'
            if prod == 'NotificationParameters' and diff == [(6, [6, 'cons'], [6, 'seqof'])]:
                return 'C03-K4'
    return None


def replay(payload):
    import ast
    f = payload.get('failure') or {}
    print('replay of', {k: v for k, v in f.items() if k not in ('tree',)})
    if f.get('tree') and f.get('type'):
        tr = ast.literal_eval(f['tree'])
        name = f['type']
        print('implementation now:', {k: v for k, v in (roundtrip_failure(name, tr) or {'kind': 'round trip holds'}).items() if k != 'tree'})
        print('histories now     :', {k: v for k, v in (history_failure(name, tr) or {'kind': 'observation does not disturb: holds'}).items() if k != 'tree'})
        import core
        c = case_encode(name, tr)
        got, err = core.coq_eval(COQ_IMPORTS, c.coq)
        print('model encode     :', got if got is not None else err)
        print('implementation   :', c.expected)
        try:
            tags = impl_encode_tags(name, tr)
            d = case_decode_tags(name, tags)
            got, err = core.coq_eval(COQ_IMPORTS, d.coq)
            print('model decode     :', got if got is not None else err)
            print('implementation   :', d.expected)
        except Exception as e:
            print('implementation encode raises', type(e).__name__)
    if f.get('array_history'):
        h = arr_thaw(f['array_history'])
        print('implementation now:', {k: v for k, v in (array_object_failure(h) or {'kind': 'the array object behaves'}).items() if k != 'array_history'})
        import core
        c = case_array_hist(h)
        got, err = core.coq_eval(COQ_IMPORTS, c.coq)
        print('model observable :', got if got is not None else err)
        print('implementation   :', c.expected)
    if str(f.get('kind', '')).startswith('fresh-process') and f.get('octets') and f.get('type'):
        want_tree = f.get('value') if f.get('kind') == 'fresh-process-decode-differs' else None
        want_dict = f.get('want') if f.get('kind') == 'fresh-process-dict-contents-differ' else None
        now = fresh_process_failures([(f['type'], bytes.fromhex(f['octets']), want_tree, want_dict, 'replay')])
        print('fresh decode-only process now:', now or 'reports the encoder process\'s value')
    for b in payload.get('broken', []):
        if isinstance(b, dict) and b.get('minimal_case'):
            print('disagreeing case:', b['minimal_case'])
