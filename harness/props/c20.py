"""C20 — schedules.  Correspondence (AST-translated matchers in gen/ScheduleFns.v, hand model
ScheduleEval.v vs local/schedule.py on real LocalScheduleObject instances under a virtual clock)
and the direct, implementation-only predicate (independent interpreter of the BACnet rule)."""
import calendar, datetime, json, math, os, subprocess, sys, time
from core import Case
from pyerr import canon_call, exc_code

PROP = 'C20'
COQ_TARGETS = ['theories/CalendarFacts.vo', 'theories/ScheduleFacts.vo', 'theories/ScheduleTzFacts.vo']
COQ_IMPORTS = 'From Bac Require Import Base PyRt Calendar ScheduleEval ScheduleTz.\nFrom BacGen Require Import ScheduleFns.'
TABLE_OBLIGATIONS = ['CalendarFacts.match_date_denotes', 'CalendarFacts.match_weeknday_denotes',
                     'CalendarFacts.match_date_range_denotes']
RULE = ('cases: PyRt.last_day vs calendar.monthrange for every month of 1900..2154; the model successor-date walked through every '
        'year against datetime; every year x sampled pattern classes (date: year{any,this,other} x month{any,odd,even,2,7,12} x '
        'day{any,last,odd,even,1,29,30,31} x dow{any,1..7}; weekNDay: month x week{any,1..9,0,10} x dow; ranges: open/specific ends) '
        'as a 365/366-bit mask of the real matcher over the whole year; malformed dates/patterns (error paths); random schedules '
        '(0..4 exceptions x 0..4 time values, date/range/weekNDay/calendar-reference/dangling-reference periods, priorities incl. '
        'equal, 0 and 17, Null entries, 0..4 weekly entries per day, unsorted and wildcard times in a minority, open/closed effective periods) '
        'evaluated by LocalScheduleInterpreter.eval on real LocalScheduleObject instances at entry times, +-1 hundredth, and random '
        'instants, inside and outside the effective period; timer-driven multi-day runs of real objects under the virtual clock '
        '(TZ=UTC) including effective-period entry and exit; leap-rule boundary years (1900, 1904, 1996, 2000, 2004, 2096, 2100, 2104) x last-day / week-of-month 6..9 masks and '
        'exceptions in force by month-end patterns on their late-February days; schedules with 2..4 exceptions of different priority all in force on the same day; '
        'under POSIX DST zones (subprocesses): datetime_to_time on change days / summer / winter / year-end days incl. 24:00:00 and wildcards, Date.now/Time.now around the changes, '
        'timer-driven objects compared by present value and armed instant, against ScheduleTz fed the zone\'s offset-change table (no input inside the skipped/repeated hour).  direct only: 6..10 schedule objects in one application with 20..40 '
        'run-time weeklySchedule rewrites (re-installed timers) sampled every 15 minutes for 3 days; timer-driven histories that begin '
        'before / inside / after the effective period whose start and end dates carry day-of-week 255 or specific and are otherwise specific, '
        'open, any-year or any-month, run over the period boundaries and midnights with the object\'s own pure eval as oracle, no exception '
        'escaping process_task and the task armed at every probe; 3 objects run across both '
        'UTC-offset change days of random years in subprocesses with TZ=EST5EDT,M3.2.0,M11.1.0 and TZ=AEST-10AEDT,M10.1.0,M4.1.0/3, '
        'and in the middle of daylight time and of standard time of those years, judged every 15 local minutes by local wall-clock reading (entries before and after the change, none inside 01:00-02:59) '
        'and, after every firing, by the local reading of the armed instant = the transition the object\'s own eval reported.  non-trivial = a mask with a set and a clear bit, an evaluation that '
        'is inside the effective period with at least one entry in force, a run with >= 3 firings; distinct by (operation, input).')
TRUSTED = ['model coq/theories/ScheduleEval.v written by hand after local/schedule.py:216-247,448-603 (line numbers of the fixed worktree) (tie = correspondence); '
           'gen/ScheduleFns.v is the AST translation of match_date/match_date_range/match_weeknday (theorems are about that text)',
           'time.mktime/time.localtime (CPython/libc, POSIX TZ rules): modelled by ScheduleTz.v (localtime_z, mktime_z) for zones with two offsets, tie = correspondence under two DST rules with the zone given '
           'as the table of offset changes read off time.localtime; inside the skipped/repeated hour libc\'s choice is not modelled',
           'datetime.date (used as the calendar oracle for day-of-week and month lengths)',
           'the direct interpreter `spec_eval` in harness/props/c20.py (independent reading of clause 12.24.4)']
ASSUMPTIONS = ['dates are real calendar days of 1900..2154 with the matching day-of-week field (what Date.now() produces)',
               'time values in a list are in ascending order and specific (no 255); event priorities 1..16 (theorems: wf_sched)',
               'timer-driven runs: entry times have hundredths = 0 (datetime_to_time drops hundredths; with a non-zero hundredths '
               'entry the task re-arms at the current second until the clock passes it - busy under a real clock, no progress under a virtual one)',
               'on days when the local UTC offset changes no entry lies inside the wall-clock hours that do not exist or exist twice (01:00-02:59); inside a repeated hour either reading is accepted',
               'outside the effective period any present value is accepted (the standard leaves it open); the fixed code keeps the last value',
               'equal event priorities in force on the same day: the standard gives precedence to the lower array index; the code merges them (known finding)']

START = datetime.date(1900, 1, 1)
END = datetime.date(2154, 12, 31)


# ------------------------------------------------------------------ rendering to Gallina
def z(n):
    return '(%d)' % n if n < 0 else '%d' % n


def tup(t):
    return '(' + ', '.join(z(x) for x in t) + ')'


def coq_centry(c):
    k, v = c
    if k == 'date':
        return '(CDate %s)' % tup(v)
    if k == 'range':
        return '(CRange (%s, %s))' % (tup(v[0]), tup(v[1]))
    if k == 'wnd':
        return '(CWnd %s)' % tup(v)
    return 'CEmpty'


def coq_tvs(tvs):
    return '[' + '; '.join('(%s, %s)' % (tup(t), 'None' if v is None else 'Some %s' % z(v)) for t, v in tvs) + ']'


def coq_period(cfg, p):
    k, v = p
    if k == 'none':
        return 'PNone'
    if k == 'ref':
        if v is None or v >= len(cfg['cals']):
            return '(PRef None)'
        return '(PRef (Some [%s]))' % '; '.join(coq_centry(c) for c in cfg['cals'][v])
    return '(PEntry %s)' % coq_centry(p)


def coq_cfg(cfg):
    wk = 'None' if cfg['weekly'] is None else '(Some [%s])' % '; '.join(coq_tvs(d) for d in cfg['weekly'])
    ex = '[' + '; '.join('Build_sevent %s %s %s' % (coq_period(cfg, e['period']),
                                                      'None' if e['prio'] is None else '(Some %s)' % z(e['prio']),
                                                      coq_tvs(e['tvs'])) for e in cfg['exc']) + ']'
    return '(Build_sched (%s, %s) %s %s %s)' % (tup(cfg['eff'][0]), tup(cfg['eff'][1]), wk, ex, z(cfg['default']))


# ------------------------------------------------------------------ implementation drivers
class World:
    """one virtual clock, one task manager, one application for the whole check"""
    inst = None

    def __init__(self):
        import bacpypes.task, bacpypes.core
        self.now = [float(calendar.timegm((2000, 1, 1, 0, 0, 0)))]
        bacpypes.task._time = lambda: self.now[0]
        from bacpypes.task import TaskManager
        self.tm = TaskManager()
        assert time.tzname[0] == 'UTC' or os.environ.get('C20_DST'), time.tzname      # the DST scenarios run in a subprocess
        from bacpypes.app import Application
        from bacpypes.local.device import LocalDeviceObject
        self.dev = LocalDeviceObject(objectName='dev', objectIdentifier=('device', 1), maxApduLengthAccepted=1024,
                                     segmentationSupported='segmentedBoth', vendorIdentifier=999)
        self.app = Application(self.dev)
        self.serial = 0
        self.core = bacpypes.core
        self.reset()

    @classmethod
    def get(cls):
        if cls.inst is None:
            cls.inst = World()
        return cls.inst

    def reset(self):
        self.core.deferredFns[:] = []
        del self.tm.tasks[:]

    def drain(self):
        n = 0
        while self.core.deferredFns:
            fl = list(self.core.deferredFns)
            self.core.deferredFns[:] = []
            for fn, a, k in fl:
                fn(*a, **k)
            n += 1
            if n > 100:
                raise RuntimeError('deferred functions do not settle')


def _val(v):
    from bacpypes.primitivedata import Null, Unsigned
    return Null() if v is None else Unsigned(v)


def _centry(c):
    from bacpypes.basetypes import CalendarEntry, DateRange
    k, v = c
    if k == 'date':
        return CalendarEntry(date=tuple(v))
    if k == 'range':
        return CalendarEntry(dateRange=DateRange(startDate=tuple(v[0]), endDate=tuple(v[1])))
    if k == 'wnd':
        return CalendarEntry(weekNDay=bytes(v))
    return CalendarEntry()


def build(cfg, pv=99, attach=None):
    """a real LocalScheduleObject (and Calendar objects) for cfg.  Returns (schedule object, cleanup)"""
    from bacpypes.constructeddata import ArrayOf, ListOf
    from bacpypes.basetypes import DailySchedule, DateRange, TimeValue, SpecialEvent, SpecialEventPeriod, CalendarEntry
    from bacpypes.object import CalendarObject
    from bacpypes.primitivedata import Unsigned
    from bacpypes.local.schedule import LocalScheduleObject
    w = World.get()
    w.serial += 1
    base = w.serial * 10
    added = []
    needs_app = any(e['period'][0] == 'ref' for e in cfg['exc']) if attach is None else attach
    cal_ids = []
    for i, entries in enumerate(cfg['cals']):
        co = CalendarObject(objectIdentifier=('calendar', base + i), objectName='cal%d' % (base + i),
                            dateList=ListOf(CalendarEntry)([_centry(c) for c in entries]))
        if needs_app:
            w.app.add_object(co)
            added.append(co)
        cal_ids.append(('calendar', base + i))
    kw = {}
    if cfg['weekly'] is not None:
        kw['weeklySchedule'] = ArrayOf(DailySchedule, 7)(
            [DailySchedule(daySchedule=[TimeValue(time=tuple(t), value=_val(v)) for t, v in day]) for day in cfg['weekly']])
    evs = []
    for e in cfg['exc']:
        k, v = e['period']
        if k == 'none':
            per = None
        elif k == 'ref':
            per = SpecialEventPeriod(calendarReference=(cal_ids[v] if (v is not None and v < len(cal_ids)) else ('calendar', 4000000)))
        else:
            per = SpecialEventPeriod(calendarEntry=_centry(e['period']))
        ekw = {} if e['prio'] is None else {'eventPriority': e['prio']}
        evs.append(SpecialEvent(period=per, listOfTimeValues=[TimeValue(time=tuple(t), value=_val(x)) for t, x in e['tvs']], **ekw))
    if evs or cfg.get('exc_present', True):
        kw['exceptionSchedule'] = ArrayOf(SpecialEvent)(evs)
    so = LocalScheduleObject(objectIdentifier=('schedule', base), objectName='sched%d' % base, presentValue=Unsigned(pv),
                             effectivePeriod=DateRange(startDate=tuple(cfg['eff'][0]), endDate=tuple(cfg['eff'][1])),
                             scheduleDefault=Unsigned(cfg['default']), **kw)
    if needs_app:
        w.app.add_object(so)
        added.append(so)

    def cleanup():
        for o in added:
            try:
                w.app.delete_object(o)
            except Exception:
                pass
        w.reset()
    return so, cleanup


def canon_eval_result(r):
    if r is None:
        return [2]
    v, n = r
    return [3, v.value] + list(n)


def impl_eval(so, d, t):
    return canon_call(lambda: so._task.eval(tuple(d), tuple(t)), canon_eval_result)


def epoch(d, t):
    return float(calendar.timegm((d[0] + 1900, d[1], d[2], t[0], t[1], t[2]))) + t[3] / 100.0


def from_epoch(when):
    whole = math.floor(when)
    g = time.gmtime(whole)
    return (g[0] - 1900, g[1], g[2], g[6] + 1), (g[3], g[4], g[5], int(round((when - whole) * 100)))


def impl_run(cfg, d0, t0, pv0, maxfire, attach=None):
    """create a real object at (d0, t0) on the virtual clock and let its timer drive it.
    Returns (canonical trace, raw list of (fire_epoch, pv_after, next_epoch or None))"""
    w = World.get()
    w.reset()
    w.now[0] = epoch(d0, t0)
    so, cleanup = build(cfg, pv=pv0, attach=attach)
    out, raw = [], []
    try:
        if so.reliability != 'noFaultDetected':
            return None, None
        fired = 0
        try:
            fire_at = w.now[0]
            w.drain()                         # the deferred first process_task
            while True:
                fired += 1
                nxt = w.tm.tasks[0][0] if w.tm.tasks else None
                raw.append((fire_at, so.presentValue.value, nxt))
                if nxt is None:
                    out += [9]                # timer not re-armed (the model never produces this)
                    break
                nd, nt = from_epoch(nxt)
                out += [0, so.presentValue.value] + list(nd) + list(nt)
                if fired >= maxfire:
                    break
                w.now[0] = max(w.now[0], nxt)
                fire_at = w.now[0]
                task, _ = w.tm.get_next_task()
                if task is None:
                    out += [9]
                    break
                w.tm.process_task(task)
                w.drain()
        except Exception as e:
            out += [1, exc_code(e)]
            raw.append((w.now[0], None, None))
    finally:
        cleanup()
    return out, raw


# ------------------------------------------------------------------ independent reading of the standard
def dtuple(dt):
    return (dt.year - 1900, dt.month, dt.day, dt.isoweekday())


def month_len(y, m):
    nxt = datetime.date(y + (m == 12), m % 12 + 1, 1)
    return (nxt - datetime.date(y, m, 1)).days


def den_month(mp, m):
    return mp == 255 or (mp == 13 and m % 2 == 1) or (mp == 14 and m % 2 == 0) or m == mp


def den_date(p, d):
    y, m, dd, wd = d
    yp, mp, dp, wp = p
    ok_day = dp == 255 or (dp == 32 and dd == month_len(y + 1900, m)) or (dp == 33 and dd % 2 == 1) \
        or (dp == 34 and dd % 2 == 0) or dd == dp
    return (yp == 255 or y == yp) and den_month(mp, m) and ok_day and (wp == 255 or wd == wp)


def den_wnd(p, d):
    y, m, dd, wd = d
    mp, kp, wp = p
    if kp == 255:
        wk = True
    elif 1 <= kp <= 5:
        wk = 7 * (kp - 1) < dd <= 7 * kp
    elif 6 <= kp <= 9:
        wk = 7 * (kp - 6) <= month_len(y + 1900, m) - dd < 7 * (kp - 5)
    else:
        return None                    # reserved week-of-month: no opinion
    return den_month(mp, m) and wk and (wp == 255 or wd == wp)


def _specific(e):
    return 0 <= e[0] <= 254 and 1 <= e[1] <= 12 and 1 <= e[2] <= 31


def _unspec(e):
    return tuple(e[:3]) == (255, 255, 255)


def den_range(r, d):
    s, e = r
    if not ((_unspec(s) or _specific(s)) and (_unspec(e) or _specific(e))):
        return None                    # partially specified ends: no opinion
    key = lambda x: (x[0] * 16 + x[1]) * 32 + x[2]
    return (_unspec(s) or key(s) <= key(d)) and (_unspec(e) or key(d) <= key(e))


def den_centry(c, d):
    k, v = c
    return {'date': den_date, 'range': den_range, 'wnd': den_wnd}[k](v, d) if k in ('date', 'range', 'wnd') else None


def in_force(cfg, e, d):
    k, v = e['period']
    if k == 'ref':
        if v is None or v >= len(cfg['cals']):
            return None
        rs = [den_centry(c, d) for c in cfg['cals'][v]]
        if any(r is None for r in rs):
            return None
        return any(rs)
    if k == 'none':
        return None
    return den_centry(e['period'], d)


def cur_entry(tvs, t):
    """latest entry at or before t: (value or None for Null) / 'none' when there is none"""
    best = 'none'
    for tv, v in tvs:
        if tuple(tv) <= tuple(t):
            best = v
    return best


def spec_ok(cfg, d):
    """is the configuration within the domain the property speaks about on date d?"""
    def sorted_specific(tvs):
        ts = [tuple(t) for t, _ in tvs]
        return all(255 not in t for t in ts) and ts == sorted(ts)
    if den_range(cfg['eff'], d) is None:
        return False
    for e in cfg['exc']:
        if e['prio'] is None or not (1 <= e['prio'] <= 16) or not sorted_specific(e['tvs']) or in_force(cfg, e, d) is None:
            return False
    if cfg['weekly'] is not None and not all(sorted_specific(day) for day in cfg['weekly']):
        return False
    return True


def equal_priorities_in_force(cfg, d):
    ps = [e['prio'] for e in cfg['exc'] if in_force(cfg, e, d)]
    return len(ps) != len(set(ps))


def spec_eval(cfg, d, t):
    """the BACnet rule.  Returns None outside the effective period, else (value, set of accepted values).
    With equal priorities in force the lower array index takes precedence (clause 12.24.8)."""
    if not den_range(cfg['eff'], d):
        return None
    cands = []
    for idx, e in enumerate(cfg['exc']):
        if in_force(cfg, e, d):
            v = cur_entry(e['tvs'], t)
            if v != 'none' and v is not None:
                cands.append((e['prio'], idx, v))
    if cands:
        return min(cands)[2]
    if cfg['weekly'] is not None:
        v = cur_entry(cfg['weekly'][d[3] - 1], t)
        if v != 'none' and v is not None:
            return v
    return cfg['default']


# ------------------------------------------------------------------ generators
def rand_date(rng):
    return START + datetime.timedelta(days=rng.randrange((END - START).days + 1))


def rand_time(rng, whole=False):
    if rng.random() < 0.3:
        return (rng.choice([0, 6, 8, 12, 17, 23]), 0, 0, 0)
    return (rng.randrange(24), rng.randrange(60), rng.randrange(60), 0 if (whole or rng.random() < 0.6) else rng.randrange(100))


LEAP_EDGE_YEARS = [1900, 1904, 1996, 2000, 2004, 2096, 2100, 2104]
DATE_GRID = {'month': [255, 13, 14, 2, 7, 12], 'day': [255, 32, 33, 34, 1, 29, 30, 31], 'dow': [255, 1, 2, 3, 4, 5, 6, 7]}


def rand_date_pattern(rng, near):
    """near = a date tuple the pattern should have a chance to match"""
    y = rng.choice([255, 255, near[0], near[0], min(254, near[0] + 1)])
    m = rng.choice([255, 255, 13, 14, near[1], near[1], rng.randrange(1, 13)])
    dd = rng.choice([255, 255, 32, 33, 34, near[2], near[2], rng.randrange(1, 32)])
    wd = rng.choice([255, 255, 255, near[3], rng.randrange(1, 8)])
    return (y, m, dd, wd)


def rand_wnd(rng, near):
    m = rng.choice([255, 255, 13, 14, near[1], rng.randrange(1, 13)])
    k = rng.choice([255, 255] + list(range(1, 10)))
    wd = rng.choice([255, 255, near[3], rng.randrange(1, 8)])
    return (m, k, wd)


def rand_range(rng, near_dt, open_ok=True):
    a = near_dt + datetime.timedelta(days=rng.choice([-400, -40, -3, -1, 0, 0, 1, 2, 30]))
    b = a + datetime.timedelta(days=rng.choice([0, 0, 1, 2, 6, 30, 365, 5000]))
    a = min(max(a, START), END)
    b = min(max(b, START), END)
    s = dtuple(a)[:3] + (rng.choice([255, dtuple(a)[3]]),)
    e = dtuple(b)[:3] + (rng.choice([255, dtuple(b)[3]]),)
    if open_ok and rng.random() < 0.25:
        s = (255, 255, 255, 255)
    if open_ok and rng.random() < 0.25:
        e = (255, 255, 255, 255)
    return (s, e)


def rand_centry(rng, near_dt):
    r = rng.random()
    near = dtuple(near_dt)
    if r < 0.4:
        return ('date', rand_date_pattern(rng, near))
    if r < 0.7:
        return ('range', rand_range(rng, near_dt))
    return ('wnd', rand_wnd(rng, near))


def rand_tvs(rng, n, whole=False, wild=0.0, unsorted=0.0):
    ts = sorted(rand_time(rng, whole) for _ in range(n))
    if ts and rng.random() < 0.3:                       # an entry at exactly midnight / duplicates
        ts[0] = (0, 0, 0, 0)
    if len(ts) >= 2 and rng.random() < 0.15:
        ts[1] = ts[0]
    if len(ts) >= 2 and rng.random() < unsorted:
        rng.shuffle(ts)
    out = []
    for t in ts:
        if rng.random() < wild:
            t = tuple(255 if rng.random() < 0.4 else x for x in t)
        out.append((t, None if rng.random() < 0.25 else rng.randrange(1, 9)))
    return out


def rand_cfg(rng, near_dt, clean=False, whole=False):
    """clean: inside the domain of the property (sorted specific times, priorities 1..16, valid references)"""
    ncal = rng.randrange(0, 3)
    cals = [[rand_centry(rng, near_dt) for _ in range(rng.randrange(0, 4))] for _ in range(ncal)]
    exc = []
    distinct = rng.random() < 0.7
    used = set()
    for _ in range(rng.choice([0, 1, 1, 2, 2, 3, 4])):
        r = rng.random()
        if r < 0.2 and cals:
            per = ('ref', rng.randrange(len(cals)))
        elif r < 0.24 and not clean:
            per = ('ref', None)
        elif r < 0.26 and not clean:
            per = ('none', None)
        elif r < 0.28 and not clean:
            per = ('empty', None)
        else:
            per = rand_centry(rng, near_dt)
        prio = rng.choice([1, 1, 2, 3, 5, 8, 15, 16, 16])
        if not clean and rng.random() < 0.06:
            prio = rng.choice([0, 17, -3, 40, None])
        if distinct and prio in used:
            free = [p for p in range(1, 17) if p not in used]
            prio = rng.choice(free)
        used.add(prio)
        exc.append({'period': per, 'prio': prio,
                    'tvs': rand_tvs(rng, rng.randrange(0, 5), whole, 0.0 if clean else 0.05, 0.0 if clean else 0.1)})
    if rng.random() < 0.2:
        weekly = None
    else:
        weekly = [rand_tvs(rng, rng.randrange(0, 5), whole, 0.0, 0.0 if clean else 0.05) for _ in range(7)]
    r = rng.random()
    if r < 0.35:
        eff = ((255, 255, 255, 255), (255, 255, 255, 255))
    elif r < 0.5:
        eff = ((0, 1, 1, 255), (254, 12, 31, 255))
    else:
        eff = rand_range(rng, near_dt)
        if not clean and rng.random() < 0.1:
            eff = ((255, near_dt.month, 1, 255), eff[1])          # partially specified start (no opinion)
    return {'eff': eff, 'weekly': weekly, 'exc': exc, 'cals': cals, 'default': rng.randrange(0, 3), 'exc_present': rng.random() < 0.8}


def instants(cfg, rng, extra=3):
    """entry times, one hundredth before / after, and random instants"""
    ts = set([(0, 0, 0, 0), (23, 59, 59, 99)])
    lists = [e['tvs'] for e in cfg['exc']] + (cfg['weekly'] or [])
    for tvs in lists:
        for t, _ in tvs:
            if 255 in t or not (0 <= t[0] < 24):
                continue
            ts.add(tuple(t))
            c = t[0] * 360000 + t[1] * 6000 + t[2] * 100 + t[3]
            for c2 in (c - 1, c + 1):
                if 0 <= c2 < 8640000:
                    ts.add((c2 // 360000, c2 // 6000 % 60, c2 // 100 % 60, c2 % 100))
    for _ in range(extra):
        ts.add(rand_time(rng))
    return sorted(ts)


# ------------------------------------------------------------------ correspondence cases
def mask_of(fn, start_dt, n):
    def f():
        acc, dt = 0, start_dt
        for i in range(n):
            if fn(dtuple(dt)):
                acc |= 1 << i
            dt += datetime.timedelta(days=1)
        return acc
    return canon_call(f, lambda a: [a])


def case_mask(kind, coq_fn, fn, y, pattern_desc):
    start = datetime.date(y, 1, 1)
    n = (datetime.date(y + 1, 1, 1) - start).days
    exp = mask_of(fn, start, n)
    full = (1 << n) - 1
    return Case(kind, 'canon_mask (fun d => %s) %d%%nat %s' % (coq_fn, n, tup(dtuple(start))), exp,
                key=(kind, y, repr(pattern_desc)), nontrivial=(exp[0] == 0 and 0 < exp[1] < full),
                desc={'op': kind, 'year': y, 'pattern': pattern_desc})


class _DR:
    def __init__(self, s, e):
        self.startDate, self.endDate = tuple(s), tuple(e)


def matcher_cases(rng, tier):
    from bacpypes.local import schedule as S
    out = []
    # calendar.monthrange sweep + successor-date walk, every year
    for y in range(1900, 2155):
        exp = [calendar.monthrange(y, m)[1] for m in range(1, 13)]
        out.append(Case('monthrange', 'map (last_day %d) [1;2;3;4;5;6;7;8;9;10;11;12]' % y, exp, key=('mr', y),
                        desc={'op': 'monthrange', 'year': y}))
        start = datetime.date(y, 1, 1)
        n = (datetime.date(y + 1, 1, 1) - start).days
        firsts = [dtuple(datetime.date(y, m, 1)) for m in range(1, 13)]
        nxt = dtuple(datetime.date(y + 1, 1, 1))
        out.append(Case('walk', 'canon_walk %d%%nat %s' % (n, tup(dtuple(start))), [x for f in firsts + [nxt] for x in f],
                        key=('walk', y), desc={'op': 'walk', 'year': y}))
    for (yy, mm) in [(1, 0), (1, 13), (9999, 12), (1, 1), (2000, -1), (1900, 2), (2000, 2)]:
        def f(yy=yy, mm=mm):
            return [calendar.monthrange(yy, mm)[1]]
        out.append(Case('monthrange-edge', 'canon_res (fun x => [x]) (monthrange_last %s %s)' % (z(yy), z(mm)), canon_call(f, list),
                        key=('mre', yy, mm), desc={'op': 'monthrange_last', 'y': yy, 'm': mm}))
    # whole-year masks
    per_year = 24 if tier == 'thorough' else 4
    for y in range(1900, 2155):
        for _ in range(per_year):
            r = rng.random()
            if r < 0.45:
                p = (rng.choice([255, 255, y - 1900, (y - 1899) % 255]), rng.choice(DATE_GRID['month']),
                     rng.choice(DATE_GRID['day']), rng.choice(DATE_GRID['dow']))
                out.append(case_mask('mask-date', 'match_date d %s' % tup(p), lambda d, p=p: S.match_date(d, p), y, list(p)))
            elif r < 0.8:
                p = (rng.choice([255, 13, 14, 2, 9]), rng.choice([255, 1, 2, 3, 4, 5, 6, 7, 8, 9, 9, 6, 0, 10]),
                     rng.choice([255, 255, rng.randrange(1, 8)]))
                out.append(case_mask('mask-wnd', 'match_weeknday d %s' % tup(p), lambda d, p=p: S.match_weeknday(d, bytes(p)), y, list(p)))
            else:
                near = datetime.date(y, rng.randrange(1, 13), rng.randrange(1, 29))
                s, e = rand_range(rng, near)
                if rng.random() < 0.15:
                    s = (255, rng.randrange(1, 13), 255, 255)         # partial wildcards: raw comparison, still mirrored
                out.append(case_mask('mask-range', 'match_date_range d (%s, %s)' % (tup(s), tup(e)),
                                     lambda d, s=s, e=e: S.match_date_range(d, _DR(s, e)), y, [list(s), list(e)]))
    # leap-rule boundary years (century years 1900 / 2000 / 2100 and their leap neighbours): the patterns whose
    # meaning depends on the length of February - last day of month, week-of-month 6..9 counted from the month's end
    for y in LEAP_EDGE_YEARS:
        for p in [(255, 2, 32, 255), (255, 255, 32, 255), (y - 1900, 14, 32, 255)]:
            out.append(case_mask('mask-date', 'match_date d %s' % tup(p), lambda d, p=p: S.match_date(d, p), y, ['leap-edge'] + list(p)))
        for k in (6, 7, 8, 9):
            p = (rng.choice([2, 2, 255, 14]), k, rng.choice([255, 255, rng.randrange(1, 8)]))
            out.append(case_mask('mask-wnd', 'match_weeknday d %s' % tup(p), lambda d, p=p: S.match_weeknday(d, bytes(p)), y, ['leap-edge'] + list(p)))
    # malformed dates and patterns: error paths
    for _ in range(600 if tier == 'thorough' else 150):
        d = (rng.choice([0, 100, 254, 255, 300]), rng.choice([0, 1, 2, 12, 13, 255]), rng.choice([0, 1, 28, 29, 31, 32, 255]),
             rng.choice([0, 1, 7, 8, 255]))
        p = (rng.choice([255, d[0]]), rng.choice([255, 13, 14, d[1], 0]), rng.choice([255, 32, 33, 34, d[2]]), rng.choice([255, d[3]]))
        out.append(Case('match-odd', 'canon_bool (match_date %s %s)' % (tup(d), tup(p)),
                        canon_call(lambda: S.match_date(d, p), lambda b: [int(b)]), key=('mo', d, p), nontrivial=False,
                        desc={'op': 'match_date', 'date': list(d), 'pattern': list(p)}))
        wp = (rng.choice([255, 13, 14, d[1]]), rng.choice([255, 0, 1, 5, 6, 9, 10, 200]), rng.choice([255, d[3]]))
        out.append(Case('match-odd', 'canon_bool (match_weeknday %s %s)' % (tup(d), tup(wp)),
                        canon_call(lambda: S.match_weeknday(d, bytes(wp)), lambda b: [int(b)]), key=('mow', d, wp), nontrivial=False,
                        desc={'op': 'match_weeknday', 'date': list(d), 'pattern': list(wp)}))
    return out


def eval_cases(rng, tier, extra_cfgs=()):
    out = []
    n = 1200 if tier == 'thorough' else 260
    cfgs = list(extra_cfgs)
    for i in range(n):
        near = rand_date(rng)
        cfgs.append((overlap_cfg(rng, near) if i % 8 == 5 else rand_cfg(rng, near, clean=(i % 3 == 0)), near))
    for cfg, near in cfgs:
        so, cleanup = build(cfg)
        try:
            ccfg = coq_cfg(cfg)
            dates = [near, near + datetime.timedelta(days=rng.choice([1, 7, 29, -1]))]
            if rng.random() < 0.3:
                dates.append(rand_date(rng))
            for dt in dates:
                if not (START <= dt <= END):
                    continue
                d = dtuple(dt)
                if rng.random() < 0.03:
                    d = (d[0], d[1], d[2], rng.choice([0, 8, 255]))        # a day-of-week no clock produces
                if rng.random() < 0.02:
                    d = (d[0], rng.choice([0, 13]), d[2], d[3])
                ts = instants(cfg, rng)
                if len(ts) > 5:
                    ts = rng.sample(ts, 5)
                for t in ts:
                    exp = impl_eval(so, d, t)
                    nontriv = exp[:2] == [0, 3] and (any(e['tvs'] for e in cfg['exc']) or cfg['weekly'] is not None)
                    out.append(Case('eval', 'canon_res canon_eval (eval %s %s %s)' % (ccfg, tup(d), tup(t)), exp,
                                    key=('eval', ccfg, d, t), nontrivial=nontriv,
                                    desc={'op': 'eval', 'cfg': cfg, 'date': list(d), 'time': list(t)}))
        finally:
            cleanup()
    return out


def run_cases(rng, tier):
    out = []
    n = 200 if tier == 'thorough' else 40
    tries = 0
    while len(out) < n and tries < 10 * n:
        tries += 1
        near = rand_date(rng)
        if near > END - datetime.timedelta(days=40):
            continue
        cfg = rand_cfg(rng, near, clean=(rng.random() < 0.85), whole=True)
        r = rng.random()
        if r < 0.5:
            # start shortly before the effective period opens, or run over its end
            a = near + datetime.timedelta(days=rng.choice([1, 2]))
            b = a + datetime.timedelta(days=rng.choice([0, 1, 3]))
            cfg['eff'] = (dtuple(a)[:3] + (255,), dtuple(b)[:3] + (255,))
            if rng.random() < 0.3:
                cfg['eff'] = (cfg['eff'][0], (255, 255, 255, 255))
        t0 = rand_time(rng, whole=True)
        # Time.now() truncates towards zero: fractions of a second only after 1970
        t0 = t0[:3] + (rng.choice([0, 0, 25, 50, 75]) if near.year >= 1971 else 0,)
        attach = rng.random() < 0.3
        maxfire = rng.choice([12, 20, 30])
        pv0 = 99
        trace, raw = impl_run(cfg, dtuple(near), t0, pv0, maxfire, attach=attach or None)
        if trace is None:
            continue
        ccfg = coq_cfg(cfg)
        out.append(Case('run', 'canon_run (run %d%%nat %s %s %s %d)' % (maxfire, ccfg, tup(dtuple(near)), tup(t0), pv0), trace,
                        key=('run', ccfg, dtuple(near), t0), nontrivial=len(raw) >= 3,
                        desc={'op': 'run', 'cfg': cfg, 'date': list(dtuple(near)), 'time': list(t0), 'fires': maxfire}))
    return out


def overlap_cfg(rng, near_dt, whole=False):
    """2..4 exceptions of DIFFERENT priority that are all in force on near_dt (and mostly on the days around it),
    listed in random priority order, with relinquish entries and entries still ahead: the family in which the
    16 priority slots must stay independent of each other"""
    near = dtuple(near_dt)
    k = rng.choice([2, 2, 3, 4])
    prios = rng.sample(range(1, 17), k)
    exc = []
    for p in prios:
        per = rng.choice([('date', (255, 255, 255, 255)), ('date', (near[0], near[1], 255, 255)), ('wnd', (255, 255, 255)),
                          ('range', (dtuple(near_dt - datetime.timedelta(days=3))[:3] + (255,), dtuple(near_dt + datetime.timedelta(days=9))[:3] + (255,))),
                          ('date', near)])
        exc.append({'period': per, 'prio': p, 'tvs': rand_tvs(rng, rng.randrange(1, 5), whole)})
    return {'eff': ((255, 255, 255, 255), (255, 255, 255, 255)),
            'weekly': None if rng.random() < 0.3 else [rand_tvs(rng, rng.randrange(0, 4), whole) for _ in range(7)],
            'exc': exc, 'cals': [], 'default': rng.randrange(0, 3), 'exc_present': True}


def witness_cfgs():
    """the _refuted witness of props/C20.v (equal priorities) and the shapes of the two fixed defects"""
    anyd = ('date', (255, 255, 255, 255))
    eq = {'eff': ((255, 255, 255, 255), (255, 255, 255, 255)), 'weekly': None, 'cals': [], 'default': 0, 'exc_present': True,
          'exc': [{'period': anyd, 'prio': 5, 'tvs': [((9, 0, 0, 0), 4)]}, {'period': anyd, 'prio': 5, 'tvs': [((10, 0, 0, 0), 1)]}]}
    closed = {'eff': ((121, 1, 1, 255), (121, 12, 31, 255)), 'weekly': [[((8, 0, 0, 0), 5)]] * 7, 'cals': [], 'default': 0,
              'exc_present': False, 'exc': []}
    out = [(eq, datetime.date(2020, 1, 1)), (closed, datetime.date(2020, 12, 31)), (closed, datetime.date(2021, 1, 1))]
    # exceptions in force by month-end patterns, evaluated on the last days of February of the leap-rule boundary years
    for y in (1900, 2000, 2100, 2004):
        me = {'eff': ((255, 255, 255, 255), (255, 255, 255, 255)), 'weekly': [[((7, 0, 0, 0), 2)]] * 7, 'cals': [[('wnd', (255, 6, 255))]],
              'default': 0, 'exc_present': True,
              'exc': [{'period': ('date', (255, 255, 32, 255)), 'prio': 4, 'tvs': [((6, 0, 0, 0), 7), ((18, 0, 0, 0), None)]},
                      {'period': ('ref', 0), 'prio': 9, 'tvs': [((0, 0, 0, 0), 5)]},
                      {'period': ('wnd', (2, 7, 255)), 'prio': 12, 'tvs': [((9, 30, 0, 0), 6)]}]}
        out.append((me, datetime.date(y, 2, 28)))
        out.append((me, datetime.date(y, 2, 21)))
    return out

# ------------------------------------------------------------------ correspondence under daylight-saving zones (ScheduleTz.v)
def zone_table(year):
    """the zone of this process around `year` as the model wants it: (offset before, [(instant, offset from then on)...], o1, o2)
    read off time.localtime hour by hour (trusted libc)"""
    tbl = []
    for y in (year - 1, year, year + 1):
        for ch in offset_changes(y):
            tbl.append((ch, utc_offset(ch)))
    tbl = sorted(set(tbl))
    base = utc_offset(tbl[0][0] - 7200) if tbl else utc_offset(0)
    return base, tbl, -time.timezone, -time.altzone


def coq_off(zt):
    base, tbl, o1, o2 = zt
    return '(off_tbl %s [%s])' % (z(base), '; '.join('(%s, %s)' % (z(a), z(o)) for a, o in tbl))


def dst_cases_child(seed, tier):
    """subprocess under a POSIX DST zone: run the real Date.now / Time.now / datetime_to_time / timer-driven objects and
    return case records {kind, coq, exp, key, desc, nontrivial} for the in-kernel comparison with ScheduleTz"""
    import random
    from bacpypes.local import schedule as S
    from bacpypes.primitivedata import Date, Time
    os.environ['C20_DST'] = '1'
    time.tzset()
    World.get()
    rng = random.Random(seed)
    tz = os.environ.get('TZ', '')
    out = []
    years = [1900, 1969, 2000, 2154] + [rng.randrange(1901, 2154) for _ in range(20 if tier == 'thorough' else 5)]
    for year in years:
        zt = zone_table(year)
        base, tbl, o1, o2 = zt
        chs = offset_changes(year)
        days = []          # datetime.date of: the change days, the day before each, mid-season days of both regimes, year ends
        for ch in chs:
            dd = datetime.date(*time.localtime(ch)[:3])
            days += [dd, dd - datetime.timedelta(days=1)]
        days += [datetime.date(year, 1, rng.randrange(1, 29)), datetime.date(year, 7, rng.randrange(1, 29)),
                 datetime.date(year, rng.randrange(1, 13), rng.randrange(1, 29)), datetime.date(year, 12, 31), datetime.date(year, 2, 28)]
        times = [(0, 0, 0, 0), (1, 30, 0, 0), (2, 30, 0, 0), (3, 0, 0, 0), (8, 0, 0, 0), (17, 30, 15, 0), (23, 59, 59, 99), (24, 0, 0, 0),
                 rand_time(rng), rand_time(rng)]
        items, exp = [], []
        change_days = set(datetime.date(*time.localtime(ch)[:3]) for ch in chs)
        for dd in days:
            if not (START <= dd <= END):
                continue
            d = dtuple(dd)
            for t in times:
                if dd in change_days and t[0] in (1, 2):
                    # the skipped / repeated wall-clock hours: libc's choice between the two readings is implementation
                    # defined (glibc: 02:30:00 read as daylight, 02:35:58 as standard on 2068-04-01 AEST) - outside the domain
                    continue
                items.append('(%s, %s)' % (tup(d), tup(t)))
                exp += canon_call(lambda: S.datetime_to_time(d, t), lambda a: [int(a)] if a == int(a) else [int(a), 1])
        # error path: a wildcard anywhere
        for d, t in [((255, 1, 1, 255), (0, 0, 0, 0)), (dtuple(datetime.date(year, 3, 1)), (24, 0, 0, 255)), (dtuple(datetime.date(year, 3, 1))[:3] + (255,), (8, 0, 0, 0))]:
            items.append('(%s, %s)' % (tup(d), tup(t)))
            exp += canon_call(lambda: S.datetime_to_time(d, t), lambda a: [int(a)])
        out.append({'kind': 'dtt-z', 'exp': exp, 'key': ['dtt-z', tz, year], 'nontrivial': len(chs) == 2,
                    'coq': 'let off := %s in flat_map (fun x => canon_res (fun a => [a]) (datetime_to_time_z off %s %s (fst x) (snd x))) [%s]'
                           % (coq_off(zt), z(o1), z(o2), '; '.join(items)),
                    'desc': {'op': 'datetime_to_time', 'tz': tz, 'year': year, 'inputs': len(items)}})
        # Date().now(when) / Time().now(when) at whole-second instants around the changes and in both seasons
        inst = []
        for ch in chs:
            inst += [ch - 3601, ch - 1, ch, ch + 1, ch + 1799, ch + 3600, ch + 7200]
        e0 = calendar.timegm((year, 1, 1, 0, 0, 0))
        inst += [e0 + rng.randrange(0, 365 * 86400) for _ in range(12)] + [e0, e0 + 181 * 86400 + 12 * 3600]
        exp = []
        for e in inst:
            exp += list(Date().now(float(e)).value) + list(Time().now(float(e)).value)
        out.append({'kind': 'now-z', 'exp': exp, 'key': ['now-z', tz, year], 'nontrivial': len(chs) == 2,
                    'coq': 'let off := %s in flat_map (fun e => canon_dt (localtime_z off e)) [%s]' % (coq_off(zt), '; '.join(z(e) for e in inst)),
                    'desc': {'op': 'Date.now/Time.now', 'tz': tz, 'year': year, 'instants': len(inst)}})
    # timer-driven real objects: present value and ARMED INSTANT after every firing, mid-season and over the change days
    nrun = 40 if tier == 'thorough' else 10
    tries = 0
    nr = 0
    while nr < nrun and tries < 10 * nrun:
        tries += 1
        year = rng.randrange(1971, 2150)
        chs = offset_changes(year)
        if len(chs) != 2:
            continue
        zt = zone_table(year)
        base, tbl, o1, o2 = zt
        where = tries % 4
        anchor = [chs[0], chs[1], (chs[0] + chs[1]) // 2, chs[0] - 45 * 86400][where] - rng.randrange(6, 40) * 3600
        anchor -= anchor % 60
        near = datetime.date(*time.localtime(anchor)[:3])
        cfg = avoid_hours(rand_cfg(rng, near, clean=(rng.random() < 0.8), whole=True))
        if rng.random() < 0.6:
            cfg['eff'] = ((255, 255, 255, 255), (255, 255, 255, 255))
        if where < 2 and cfg['weekly'] is not None and rng.random() < 0.5:
            cfg['weekly'] = [[((0, 30, 0, 0), 1), ((3, 30, 0, 0), 2), ((8, 0, 0, 0), 3), ((17, 0, 0, 0), None), ((23, 45, 0, 0), 4)]] * 7
        maxfire = rng.choice([8, 12, 16])
        w = World.get()
        w.reset()
        w.now[0] = float(anchor)
        so, cleanup = build(cfg, pv=99, attach=True)
        trace, fired = [], 0
        try:
            if so.reliability != 'noFaultDetected':
                continue
            try:
                w.drain()
                while True:
                    fired += 1
                    nxt = w.tm.tasks[0][0] if w.tm.tasks else None
                    if nxt is None or nxt != int(nxt):
                        trace += [9]
                        break
                    trace += [0, so.presentValue.value, int(nxt)]
                    if fired >= maxfire:
                        break
                    w.now[0] = max(w.now[0], nxt)
                    task, _ = w.tm.get_next_task()
                    if task is None:
                        trace += [9]
                        break
                    w.tm.process_task(task)
                    w.drain()
            except Exception as e:
                trace += [1, exc_code(e)]
        finally:
            cleanup()
        nr += 1
        out.append({'kind': 'run-z', 'exp': trace, 'key': ['run-z', tz, anchor, coq_cfg(cfg)], 'nontrivial': fired >= 3,
                    'coq': 'canon_run_z (run_z %d%%nat %s %s %s %s %s 99)' % (maxfire, coq_off(zt), z(o1), z(o2), coq_cfg(cfg), z(anchor)),
                    'desc': {'op': 'run-z', 'tz': tz, 'cfg': cfg, 'start_epoch': anchor, 'fires': maxfire,
                             'start_local': list(local_reading(anchor)[0]) + list(local_reading(anchor)[1])}})
    return out


def dst_corr_cases(rng, tier):
    harness = os.path.dirname(os.path.dirname(os.path.abspath(__file__)))
    out = []
    for tz in DST_ZONES:
        seed = rng.randrange(1 << 30)
        code = ('import sys, json; sys.path.insert(0, %r); import core; core.impl_import_guard(); import props.c20 as m; '
                'print("C20DSTC" + json.dumps(m.dst_cases_child(%d, %r), default=str))' % (harness, seed, tier))
        p = subprocess.run([sys.executable, '-c', code], env=dict(os.environ, TZ=tz, C20_DST='1'), capture_output=True, text=True, timeout=1200)
        line = [l for l in p.stdout.splitlines() if l.startswith('C20DSTC')]
        if p.returncode != 0 or not line:
            # fail closed: a case whose expectation nothing can meet
            out.append(Case('dst-harness', '[0]', [1], key=('dst-harness', tz), desc={'op': 'dst-cases-subprocess', 'tz': tz, 'log': (p.stdout + p.stderr)[-1500:]}))
            continue
        for r in json.loads(line[-1][7:]):
            out.append(Case(r['kind'], r['coq'], r['exp'], key=tuple(str(x) for x in r['key']), nontrivial=r['nontrivial'], desc=r['desc']))
    return out


def civil_cases():
    """ties ScheduleTz.days_from_civil / date_of_days to CPython's calendar.timegm / datetime for every year"""
    out = []
    for y in range(1900, 2155):
        exp = [calendar.timegm((y, m, 1, 0, 0, 0)) // 86400 for m in range(1, 13)]
        mid = datetime.date(y, 2, 28) + datetime.timedelta(days=1)
        exp += list(dtuple(mid)) + list(dtuple(datetime.date(y, 12, 31)))
        out.append(Case('civil', 'map (fun m => days_from_civil %d m 1) [1;2;3;4;5;6;7;8;9;10;11;12] ++ canon_t4 (date_of_days (days_from_civil %d 2 28 + 1)) '
                                 '++ canon_t4 (date_of_days (days_from_civil %d 12 31))' % (y, y, y), exp, key=('civil', y), desc={'op': 'civil', 'year': y}))
    return out


def cases(rng, tier):
    World.get()
    out = matcher_cases(rng, tier)
    out += eval_cases(rng, tier, witness_cfgs())
    out += run_cases(rng, tier)
    out += civil_cases()
    out += dst_corr_cases(rng, tier)
    return out


# ------------------------------------------------------------------ direct predicate (implementation only)
def check_day(cfg, so, d, ts, failures, stats, label):
    """eval against the BACnet rule at the instants ts (ascending) of date d, and stability until the reported transition"""
    if not spec_ok(cfg, d):
        return
    prev = None                   # (t, value, next) of the last evaluation
    for t in ts:
        stats['evaluations'] += 1
        try:
            r = so._task.eval(tuple(d), tuple(t))
        except Exception as e:
            failures.append({'kind': 'eval-raises', 'cfg': cfg, 'date': list(d), 'time': list(t), 'exc': repr(e)[:200], 'label': label})
            return
        want = spec_eval(cfg, d, t)
        if want is None:
            # outside the effective period: any answer that is not a value is fine; a value is fine too
            continue
        if r is None:
            failures.append({'kind': 'no-value-inside-effective-period', 'cfg': cfg, 'date': list(d), 'time': list(t), 'label': label})
            return
        v, n = r[0].value, tuple(r[1])
        stats['nontrivial'].add((label, tuple(d), tuple(t)))
        if v != want:
            failures.append({'kind': 'wrong-value', 'cfg': cfg, 'date': list(d), 'time': list(t), 'got': v, 'want': want, 'label': label})
            return
        if not (tuple(t) < n <= (24, 0, 0, 0)):
            failures.append({'kind': 'next-transition-not-ahead', 'cfg': cfg, 'date': list(d), 'time': list(t), 'next': list(n), 'label': label})
            return
        if prev is not None and tuple(t) < prev[2] and v != prev[1]:
            failures.append({'kind': 'changes-before-reported-transition', 'cfg': cfg, 'date': list(d), 'time': list(prev[0]),
                             'reported_next': list(prev[2]), 'changed_at': list(t), 'label': label})
            return
        if prev is None or tuple(t) >= prev[2]:
            prev = (t, v, n)


def check_run(cfg, d0, t0, maxfire, failures, stats, attach=None):
    """a real object driven by its own timer: re-armed after every firing, strictly ahead, and showing the prescribed
    value at every interesting instant (entry times and midnights of every day up to the next firing) inside the
    effective period.  Sleeping past a midnight is not by itself an error (weakest reading) - a stale value is."""
    trace, raw = impl_run(cfg, d0, t0, 99, maxfire, attach=attach)
    if trace is None:
        return
    stats['runs'] += 1
    base = {'cfg': cfg, 'date': list(d0), 'time': list(t0), 'fires': maxfire}
    for i, (fire_at, pv, nxt) in enumerate(raw):
        stats['evaluations'] += 1
        if pv is None:
            failures.append(dict(base, kind='timer-raises', firing=i, trace=trace[-12:]))
            return
        if nxt is None:
            failures.append(dict(base, kind='timer-not-rearmed', firing=i, at=list(from_epoch(fire_at)[0]) + list(from_epoch(fire_at)[1])))
            return
        fd, ft = from_epoch(fire_at)
        if not (fire_at < nxt):
            failures.append(dict(base, kind='timer-not-ahead', firing=i, at=list(fd) + list(ft), next=list(from_epoch(nxt)[0]) + list(from_epoch(nxt)[1])))
            return
        # the value shown during [fire_at, nxt)
        probes = [fire_at]
        day0 = epoch(fd, (0, 0, 0, 0))
        for k in range(0, 15):
            if day0 + k * 86400 >= nxt:
                break
            for t in instants(cfg, None, extra=0):
                e = day0 + k * 86400 + t[0] * 3600 + t[1] * 60 + t[2] + t[3] / 100.0
                if fire_at <= e < nxt:
                    probes.append(e)
        for e in probes:
            pd, pt = from_epoch(e)
            if not spec_ok(cfg, pd):
                continue
            want = spec_eval(cfg, pd, pt)
            if want is None:
                continue
            stats['nontrivial'].add(('run', stats['runs'], e))
            if pv != want:
                failures.append(dict(base, kind='stale-value', firing=i, at=list(pd) + list(pt), shown=pv, want=want))
                return
    if len(raw) >= 3:
        stats['long_runs'] += 1



# ------------------------------------------------------------------ wall-clock scenarios (several objects, any time zone)
DST_ZONES = ['EST5EDT,M3.2.0,M11.1.0', 'AEST-10AEDT,M10.1.0,M4.1.0/3']


def local_reading(e):
    """the local wall-clock reading of the instant e (trusted: CPython time.localtime under the process's TZ)"""
    whole = math.floor(e)
    g = time.localtime(whole)
    return (g[0] - 1900, g[1], g[2], g[6] + 1), (g[3], g[4], g[5], int(round((e - whole) * 100)))


def _shift(t, minutes):
    c = max(0, min(86399, t[0] * 3600 + t[1] * 60 + t[2] + minutes * 60))
    return (c // 3600, c // 60 % 60, c % 60, t[3])


def make_distinct(cfg):
    """distinct priorities 1..16 (keeps the known equal-priority finding out of these scenarios)"""
    used = set()
    for e in cfg['exc']:
        if e['prio'] in used or e['prio'] is None:
            e['prio'] = [p for p in range(1, 17) if p not in used][0]
        used.add(e['prio'])
    return cfg


def avoid_hours(cfg, hours=(1, 2)):
    """no entry inside the wall-clock hours that do not exist / exist twice on a change day"""
    def fix(tvs):
        out = [((t[0] + 2, t[1], t[2], t[3]) if t[0] in hours else tuple(t), v) for t, v in tvs]
        return sorted(out, key=lambda x: x[0])
    for e in cfg['exc']:
        e['tvs'] = fix(e['tvs'])
    if cfg['weekly'] is not None:
        cfg['weekly'] = [fix(d) for d in cfg['weekly']]
    return cfg


def _weekly_value(weekly):
    from bacpypes.constructeddata import ArrayOf
    from bacpypes.basetypes import DailySchedule, TimeValue
    return ArrayOf(DailySchedule, 7)(
        [DailySchedule(daySchedule=[TimeValue(time=tuple(t), value=_val(v)) for t, v in day]) for day in weekly])


def wall_seconds(e):
    """the local wall clock at the instant e as one number (seconds; trusted: time.localtime)"""
    return calendar.timegm(time.localtime(math.floor(e))[:6])


def reading_exists(wallsec):
    """is there an instant whose local wall clock reads wallsec?  (candidates: every UTC offset seen within a day)"""
    for probe in (wallsec - 86400, wallsec, wallsec + 86400):
        c = wallsec - utc_offset(probe)
        if wall_seconds(c) == wallsec:
            return True
    return False


def armed_reading_failure(task, objs, fired_at):
    """dtt_requirement on the implementation: after a firing at the instant fired_at the timer of that object must be
    armed for an instant whose LOCAL wall-clock reading is (date of the firing, next transition reported by the
    object's own pure eval for the local date/time of the firing; 24:00 = 00:00 of the next day) - whenever some
    instant has that reading (in the skipped hour of a change day none has: anything is accepted)."""
    for k, o in enumerate(objs):
        so = o['so']
        if so._task is not task or not task.isScheduled or task.taskTime is None:
            continue
        d, t = local_reading(fired_at)
        r = so._task.eval(tuple(d), tuple(t))
        n = (24, 0, 0, 0) if r is None else tuple(r[1])
        if 255 in n:
            return None
        want = calendar.timegm((d[0] + 1900, d[1], d[2], n[0], n[1], n[2]))
        got = wall_seconds(task.taskTime)
        if got != want and reading_exists(want):
            ad, at = local_reading(task.taskTime)
            return {'kind': 'armed-wrong-wall-clock', 'object': k, 'cfg': o['cfg'], 'date': list(d), 'time': list(t), 'at': list(d) + list(t),
                    'reported_next': list(n), 'armed_reads': list(ad) + list(at), 'armed_epoch': task.taskTime, 'objects': len(objs)}
    return None


def run_scenario(scn, failures, stats):
    """scn = {'cfgs': [...], 'start': epoch, 'end': epoch, 'step': seconds, 'actions': [[epoch, index, weekly], ...], 'tz': ...}.
    All objects live in one application and are driven by the one task manager on the virtual clock.  At every
    sampled instant each object's presentValue must be the value prescribed for the local wall-clock reading of
    that instant (inside a repeated wall-clock hour either reading is accepted), and its timer must be armed."""
    w = World.get()
    w.reset()
    w.now[0] = float(scn['start'])
    objs, cleanups = [], []
    base = {'scenario': scn, 'tz': scn.get('tz', 'UTC'), 'label': scn.get('label', 'scenario')}
    try:
        for cfg in scn['cfgs']:
            so, cleanup = build(cfg, attach=True)
            cleanups.append(cleanup)
            if so.reliability != 'noFaultDetected':
                return
            objs.append({'cfg': cfg, 'so': so})
        actions = {}
        for when, j, weekly in scn.get('actions', []):
            actions.setdefault(float(when), []).append((j, weekly))
        stats['scenarios'] = stats.get('scenarios', 0) + 1
        try:
            w.drain()                                    # the deferred first process_task of every object
        except Exception as ex:
            d, t = local_reading(w.now[0])
            failures.append(dict(base, kind='timer-raises', at=list(d) + list(t), exc=repr(ex)[:200], cfg=objs[0]['cfg'], date=list(d), time=list(t),
                                 note='exception escaped the first process_task'))
            return
        e = float(scn['start'])
        while e <= scn['end']:
            guard = 0
            try:
                while w.tm.tasks and w.tm.tasks[0][0] <= e:
                    w.now[0] = max(w.now[0], w.tm.tasks[0][0])
                    task, _ = w.tm.get_next_task()
                    if task is None:
                        break
                    w.tm.process_task(task)
                    w.drain()
                    bad = armed_reading_failure(task, objs, w.now[0])
                    if bad is not None:
                        failures.append(dict(base, **bad))
                        return
                    guard += 1
                    if guard > 400:
                        d, t = local_reading(w.now[0])
                        failures.append(dict(base, kind='timer-not-ahead', at=list(d) + list(t), cfg=objs[0]['cfg'], date=list(d), time=list(t),
                                             note='more than 400 firings without the clock advancing past the next sample'))
                        return
                w.now[0] = max(w.now[0], e)
                for j, weekly in actions.get(e, []):
                    objs[j]['cfg'] = dict(objs[j]['cfg'], weekly=weekly)
                    objs[j]['so'].weeklySchedule = _weekly_value(weekly)       # schedule_changed -> process_task -> install_task
                    w.drain()
            except Exception as ex:
                d, t = local_reading(w.now[0])
                failures.append(dict(base, kind='timer-raises', at=list(d) + list(t), exc=repr(ex)[:200], cfg=objs[0]['cfg'], date=list(d), time=list(t)))
                return
            d, t = local_reading(e)
            twice = local_reading(e - 3600) == (d, t) or local_reading(e + 3600) == (d, t)
            for k, o in enumerate(objs):
                cfg, so = o['cfg'], o['so']
                stats['evaluations'] += 1
                if not so._task.isScheduled:
                    failures.append(dict(base, kind='timer-not-rearmed', object=k, cfg=cfg, date=list(d), time=list(t), at=list(d) + list(t)))
                    return
                if scn.get('oracle') == 'eval':
                    # the pure evaluation of the same object at this date/time (None = outside the effective period)
                    def pure(tt):
                        r = so._task.eval(tuple(d), tuple(tt))
                        return None if r is None else r[0].value
                else:
                    if not spec_ok(cfg, d):
                        continue

                    def pure(tt):
                        return spec_eval(cfg, d, tt)
                want = pure(t)
                if want is None:
                    continue
                ok = {want}
                if twice:
                    for mins in (-60, -45, -30, -15, 15, 30, 45, 60):
                        ok.add(pure(_shift(t, mins)))
                stats['nontrivial'].add((base['label'], base['tz'], stats.get('scenarios', 0), k, e))
                if so.presentValue.value not in ok:
                    failures.append(dict(base, kind='stale-value', object=k, cfg=cfg, date=list(d), time=list(t), at=list(d) + list(t),
                                         shown=so.presentValue.value, want=want, objects=len(objs)))
                    return
            e += scn['step']
    finally:
        for c in cleanups:
            c()


def multi_scenario(rng):
    """(UTC) 6..10 schedule objects in one application; the weeklySchedule of some is rewritten at run time, which
    re-installs an already scheduled task (TaskManager.suspend_task + install_task) among several pending timers"""
    near = rand_date(rng)
    while near > END - datetime.timedelta(days=40):
        near = rand_date(rng)
    n = rng.randrange(6, 11)
    cfgs = []
    for i in range(n):
        cfg = make_distinct(rand_cfg(rng, near, clean=True, whole=True))
        if cfg['weekly'] is None or i % 2 == 0:
            cfg['weekly'] = [rand_tvs(rng, rng.randrange(2, 5), True) for _ in range(7)]
        cfg['eff'] = ((255, 255, 255, 255), (255, 255, 255, 255)) if i % 3 else cfg['eff']
        cfgs.append(cfg)
    start = epoch(dtuple(near), (0, 0, 0, 0))
    step = 900
    nsteps = 3 * 96
    actions = []
    for _ in range(rng.randrange(20, 41)):
        k = rng.randrange(1, nsteps - 1)
        actions.append([start + k * step, rng.randrange(n), [rand_tvs(rng, rng.randrange(1, 5), True) for _ in range(7)]])
    return {'cfgs': cfgs, 'start': start, 'end': start + nsteps * step, 'step': step, 'actions': actions, 'tz': 'UTC', 'label': 'multi'}


def period_histories(rng, n):
    """timer-driven histories around the edges of the effective period: the interpreter starts before / inside /
    after the period; start and end dates carry a specific or an unspecified (255) day-of-week octet, the other
    octets are specific, unspecified, or partly wildcard (raw comparison, whatever eval makes of it); the clock
    runs over the period boundaries and over midnights.  Oracle: the pure eval of the same object."""
    out = []
    for i in range(n):
        near = rand_date(rng)
        while not (START + datetime.timedelta(days=40) < near < END - datetime.timedelta(days=40)):
            near = rand_date(rng)
        length = rng.choice([0, 1, 2, 3])
        a, b = near, near + datetime.timedelta(days=length)

        def edge(dt, kind):
            d = dtuple(dt)
            if kind == 'dow255':
                return d[:3] + (255,)
            if kind == 'dow':
                return d
            if kind == 'open':
                return (255, 255, 255, 255)
            if kind == 'anyyear':
                return (255, d[1], d[2], 255)
            return (d[0], 255, d[2], rng.choice([255, d[3]]))            # any month
        kinds = ['dow255', 'dow255', 'dow', 'open', 'anyyear', 'anymonth']
        ks, ke = (('dow255', 'dow255') if i == 0 else ('dow', 'dow') if i == 1 else (rng.choice(kinds), rng.choice(kinds)))
        eff = (edge(a, ks), edge(b, ke))
        cfgs = []
        for j in range(2):
            cfg = make_distinct(rand_cfg(rng, near, clean=True, whole=True))
            if j == 0 or cfg['weekly'] is None:
                cfg['weekly'] = [[((0, 0, 0, 0), 1), ((6, 30, 0, 0), 2), ((12, 0, 0, 0), None), ((18, 15, 0, 0), 3)]] * 7
            cfg['eff'] = eff
            cfgs.append(cfg)
        where = i % 3                                     # begin before / inside / after the period
        first = a + datetime.timedelta(days={0: -rng.choice([1, 2, 3]), 1: 0, 2: length + 1}[where])
        t0 = (rng.randrange(24), rng.choice([0, 15, 40]), 0, 0)
        start = epoch(dtuple(first), t0)
        out.append({'cfgs': cfgs, 'start': start, 'end': start + (length + 6) * 86400, 'step': 900, 'actions': [], 'tz': 'UTC',
                    'label': 'period-%s-%s-%s' % (('before', 'inside', 'after')[where], ks, ke), 'oracle': 'eval'})
    return out


def utc_offset(e):
    return calendar.timegm(time.localtime(e)[:6]) - e


def offset_changes(year):
    """the instants of `year` at which the local UTC offset changes (under the process's TZ)"""
    out = []
    e = calendar.timegm((year, 1, 1, 12, 0, 0))
    end = calendar.timegm((year + 1, 1, 1, 12, 0, 0))
    prev = utc_offset(e)
    while e < end:
        e += 3600
        cur = utc_offset(e)
        if cur != prev:
            out.append(e)
            prev = cur
    return out


def dst_scenarios(rng, n):
    """schedules run across the days on which the local UTC offset changes: entries before and after the change
    (none inside wall-clock hours 01:00-02:59, which do not exist or exist twice on those days)"""
    out = []
    while len(out) < n:
        year = rng.randrange(1975, 2100)
        chs = offset_changes(year)
        # besides the two change days: a stretch in the middle of each of the two regimes of that year (one of them is
        # daylight time: "summer"), so that a conversion that is right only under the standard offset is seen at
        # ordinary entry times (08:00, 17:00, midnight roll-over), far from any change day
        mids = [(chs[0] + chs[1]) // 2 + rng.randrange(-40, 41) * 86400, chs[0] - rng.randrange(20, 60) * 86400] if len(chs) == 2 else []
        for ch in chs + mids:
            g = time.localtime(ch - 30 * 3600)
            start = ch - 30 * 3600 - (g[3] * 3600 + g[4] * 60 + g[5])          # a local midnight before the change
            near = datetime.date(*time.localtime(ch)[:3])
            cfgs = []
            for i in range(3):
                cfg = avoid_hours(make_distinct(rand_cfg(rng, near, clean=True, whole=True)))
                if i == 0:
                    cfg['weekly'] = [[((0, 30, 0, 0), 1), ((3, 30, 0, 0), 2), ((8, 0, 0, 0), 3), ((17, 0, 0, 0), None), ((23, 45, 0, 0), 4)]] * 7
                    cfg['exc'] = []
                if i < 2:
                    cfg['eff'] = ((255, 255, 255, 255), (255, 255, 255, 255))
                cfgs.append(cfg)
            out.append({'cfgs': cfgs, 'start': start, 'end': start + 4 * 86400, 'step': 900, 'actions': [],
                        'tz': os.environ.get('TZ', ''), 'label': 'dst' if ch in chs else 'dst-mid-season'})
    return out[:n]


def dst_child(seed, tier):
    """entry point of the subprocess (TZ already set in its environment)"""
    import random
    os.environ['C20_DST'] = '1'
    time.tzset()
    World.get()
    rng = random.Random(seed)
    failures = []
    stats = {'evaluations': 0, 'nontrivial': set()}
    for scn in dst_scenarios(rng, 24 if tier == 'thorough' else 8):
        run_scenario(scn, failures, stats)
        if len(failures) > 3:
            break
    return {'failures': failures, 'evaluations': stats['evaluations'], 'nontrivial': len(stats['nontrivial']),
            'scenarios': stats.get('scenarios', 0), 'tzname': list(time.tzname)}


def run_dst(seed, tier, failures):
    """run the wall-clock scenarios in one subprocess per DST zone (POSIX TZ strings: no zone database needed)"""
    harness = os.path.dirname(os.path.dirname(os.path.abspath(__file__)))
    tot = {'evaluations': 0, 'nontrivial': 0, 'scenarios': 0, 'zones': []}
    for tz in DST_ZONES:
        env = dict(os.environ, TZ=tz, C20_DST='1')
        code = ('import sys, json; sys.path.insert(0, %r); import core; core.impl_import_guard(); import props.c20 as m; '
                'print("C20DST" + json.dumps(m.dst_child(%d, %r), default=str))' % (harness, seed, tier))
        try:
            p = subprocess.run([sys.executable, '-c', code], env=env, capture_output=True, text=True, timeout=1200)
            line = [l for l in p.stdout.splitlines() if l.startswith('C20DST')]
            if p.returncode != 0 or not line:
                failures.append({'kind': 'dst-harness-crashed', 'tz': tz, 'log': (p.stdout + p.stderr)[-1500:]})
                continue
            r = json.loads(line[-1][6:])
        except subprocess.TimeoutExpired:
            failures.append({'kind': 'dst-scenario-hangs', 'tz': tz})
            continue
        for f in r['failures']:
            f['tz'] = tz
            failures.append(f)
        for k in ('evaluations', 'nontrivial', 'scenarios'):
            tot[k] += r[k]
        tot['zones'].append({'tz': tz, 'tzname': r['tzname'], 'scenarios': r['scenarios']})
    return tot


def _guarded(stage, failures, fn, *a, **k):
    """an exception inside a stage of the direct check is itself reported as a failure (never a silent abort)"""
    try:
        return fn(*a, **k)
    except Exception as ex:
        import traceback
        failures.append({'kind': 'direct-stage-raised', 'stage': stage, 'exc': repr(ex)[:300], 'trace': traceback.format_exc()[-1200:]})
        try:
            World.get().reset()
        except Exception:
            pass
        return None


def direct(rng, tier, focus=()):
    from bacpypes.local import schedule as S
    World.get()
    failures = []
    stats = {'evaluations': 0, 'nontrivial': set(), 'runs': 0, 'long_runs': 0, 'matcher_evaluations': 0}
    samples = []
    # (a) matchers: every date of 1900..2154 against pattern classes anchored at the date and from the grid
    per_date = 40 if tier == 'thorough' else 8
    dt = START
    one = datetime.timedelta(days=1)
    nm = 0
    mism = {}
    while dt <= END:
        d = dtuple(dt)
        for _ in range(per_date):
            r = rng.random()
            if r < 0.4:
                p = rand_date_pattern(rng, d) if rng.random() < 0.5 else \
                    (rng.choice([255, d[0]]), rng.choice(DATE_GRID['month']), rng.choice(DATE_GRID['day']), rng.choice(DATE_GRID['dow']))
                got, want, what = S.match_date(d, p), den_date(p, d), ('match_date', p)
            elif r < 0.75:
                p = rand_wnd(rng, d)
                got, want, what = S.match_weeknday(d, bytes(p)), den_wnd(p, d), ('match_weeknday', p)
            else:
                s, e = rand_range(rng, dt)
                got, want, what = S.match_date_range(d, _DR(s, e)), den_range((s, e), d), ('match_date_range', (s, e))
            nm += 1
            if want is not None and bool(got) != bool(want):
                mism.setdefault(what[0], {'kind': 'pattern-mismatch', 'fn': what[0], 'date': list(d), 'pattern': what[1], 'got': bool(got), 'want': bool(want)})
        dt += one
    # the month-length dependent classes, deterministically: the last 9 days of every February of 1900..2154 and of
    # every month of the leap-rule boundary years, against last-day-of-month and week-of-month 6..9
    for y in range(1900, 2155):
        for m in (range(1, 13) if y in LEAP_EDGE_YEARS else (2,)):
            ml = month_len(y, m)
            for dd in range(ml - 8, ml + 1):
                d = dtuple(datetime.date(y, m, dd))
                pats = [('match_date', (255, 255, 32, 255)), ('match_date', (d[0], m, 32, d[3]))] + \
                       [('match_weeknday', (255, k, 255)) for k in (6, 7, 8, 9)]
                for fn, pt in pats:
                    got = S.match_date(d, pt) if fn == 'match_date' else S.match_weeknday(d, bytes(pt))
                    want = den_date(pt, d) if fn == 'match_date' else den_wnd(pt, d)
                    nm += 1
                    if bool(got) != bool(want):
                        mism.setdefault(fn + '-month-end', {'kind': 'pattern-mismatch', 'fn': fn, 'date': list(d), 'pattern': pt, 'got': bool(got), 'want': bool(want)})
    failures.extend(mism.values())
    stats['matcher_evaluations'] = nm
    samples.append({'direct': 'matchers', 'dates': 'every day 1900-01-01..2154-12-31', 'patterns_per_date': per_date})
    # (b) eval against the rule, every minute of sampled days + entry instants
    nsched = 120 if tier == 'thorough' else 24
    cfgs = [(c, n, 'witness') for c, n in witness_cfgs()]
    for i in range(nsched):
        near = rand_date(rng)
        cfgs.append((overlap_cfg(rng, near) if i % 4 == 1 else rand_cfg(rng, near, clean=True), near, 'overlap' if i % 4 == 1 else 'random'))
    for f in focus:
        if isinstance(f, dict) and f.get('op') in ('eval', 'run'):
            dd = f['date']
            try:
                cfgs.append((f['cfg'], datetime.date(dd[0] + 1900, dd[1], dd[2]), 'focus'))
            except Exception:
                pass
    minutes = [(h, m, 0, 0) for h in range(24) for m in range(60)]
    def eval_stage(cfg, near, label):
        so, cleanup = build(cfg)
        try:
            days = [near, near + one, near + datetime.timedelta(days=rng.choice([2, 7, 30]))]
            for dt in days:
                if START <= dt <= END:
                    ts = sorted(set(minutes) | set(instants(cfg, rng)))
                    check_day(cfg, so, dtuple(dt), ts, failures, stats, label)
        finally:
            cleanup()
    for cfg, near, label in cfgs:
        _guarded('eval-vs-rule', failures, eval_stage, cfg, near, label)
    samples.append({'direct': 'eval-vs-rule', 'schedules': len(cfgs), 'instants_per_day': '1440 minutes + entry times +-0.01 s'})
    # (c) timer-driven runs over effective-period entry and exit
    nruns = 150 if tier == 'thorough' else 30
    for i in range(nruns):
        near = rand_date(rng)
        if near > END - datetime.timedelta(days=40):
            continue
        cfg = overlap_cfg(rng, near, whole=True) if i % 5 == 2 else rand_cfg(rng, near, clean=True, whole=True)
        mode = i % 3
        if mode == 0:      # created before the period opens, period closes again
            a = near + datetime.timedelta(days=rng.choice([1, 2]))
            b = a + datetime.timedelta(days=rng.choice([0, 1, 2]))
            cfg['eff'] = (dtuple(a)[:3] + (255,), dtuple(b)[:3] + (255,))
        elif mode == 1:    # always effective
            cfg['eff'] = ((255, 255, 255, 255), (255, 255, 255, 255))
        t0 = rand_time(rng, whole=True)
        _guarded('timer-run', failures, check_run, cfg, dtuple(near), t0, 40, failures, stats, attach=(True if i % 4 == 0 else None))
    samples.append({'direct': 'timer-runs', 'runs': stats['runs'], 'runs_with_3+_firings': stats['long_runs']})
    # (d) several schedule objects in one application, schedules rewritten at run time (re-installed timers)
    for i in range(40 if tier == 'thorough' else 8):
        _guarded('multi-object', failures, run_scenario, multi_scenario(rng), failures, stats)
    # (d') timer-driven histories over the edges of the effective period, oracle = the object's own pure eval
    nh = 0
    for scn in period_histories(rng, 90 if tier == 'thorough' else 18):
        _guarded('period-history', failures, run_scenario, scn, failures, stats)
        nh += 1
    samples.append({'direct': 'period-histories', 'histories': nh, 'shapes': 'start before/inside/after the period; edges with dow 255 / specific / open / any-year / any-month',
                    'sampling': 'every 15 minutes over period length + 6 days'})
    samples.append({'direct': 'multi-object', 'scenarios': stats.get('scenarios', 0), 'objects': '6..10 per application',
                    'sampling': 'every 15 minutes for 3 days, 20..40 weeklySchedule rewrites'})
    # (e) the same judgement by local wall-clock reading in zones whose UTC offset changes, in subprocesses
    dst = run_dst(rng.randrange(1 << 30), tier, failures)
    stats['evaluations'] += dst['evaluations']
    samples.append({'direct': 'dst-wall-clock', 'zones': dst['zones'], 'evaluations': dst['evaluations'],
                    'sampling': 'every 15 local minutes over 4 days around each offset change'})
    return failures, {'evaluations': stats['evaluations'] + nm, 'distinct_nontrivial': len(stats['nontrivial']) + nm + dst['nontrivial'],
                      'exhaustive': True, 'exhaustive_domain': 'every calendar date 1900-01-01..2154-12-31 (x sampled pattern classes)',
                      'matcher_evaluations': nm, 'timer_runs': stats['runs'], 'dst_scenarios': dst['scenarios'], 'samples': samples}


def _failure_date(f):
    if f.get('kind') in ('stale-value',):
        return tuple(f['at'][:4])
    return tuple(f['date'])


def classify(f):
    """C20-equal-priority: the failing schedule has two exceptions of the same priority in force on the failing day"""
    if f.get('kind') in ('wrong-value', 'changes-before-reported-transition', 'stale-value') and 'cfg' in f:
        try:
            if equal_priorities_in_force(f['cfg'], _failure_date(f)):
                return 'C20-equal-priority'
        except Exception:
            return None
    return None


def _fix_cfg(cfg):
    def tvs(l):
        return [(tuple(t), v) for t, v in l]
    c = dict(cfg)
    c['eff'] = (tuple(cfg['eff'][0]), tuple(cfg['eff'][1]))
    c['weekly'] = None if cfg['weekly'] is None else [tvs(d) for d in cfg['weekly']]
    def per(p):
        k, v = p
        if k == 'range':
            return (k, (tuple(v[0]), tuple(v[1])))
        if k in ('date', 'wnd'):
            return (k, tuple(v))
        return (k, v)
    c['exc'] = [{'period': per(e['period']), 'prio': e['prio'], 'tvs': tvs(e['tvs'])} for e in cfg['exc']]
    c['cals'] = [[per(x) for x in cal] for cal in cfg['cals']]
    return c


def replay_scenario(scn):
    """re-run one stored wall-clock scenario under the current TZ and print what fails"""
    scn = dict(scn)
    scn['cfgs'] = [_fix_cfg(c) for c in scn['cfgs']]
    scn['actions'] = [[a[0], a[1], [[(tuple(t), v) for t, v in day] for day in a[2]]] for a in scn.get('actions', [])]
    World.get()
    failures, stats = [], {'evaluations': 0, 'nontrivial': set()}
    run_scenario(scn, failures, stats)
    print('TZ', os.environ.get('TZ'), time.tzname, 'evaluations', stats['evaluations'])
    for x in failures:
        print('implementation fails:', {k: v for k, v in x.items() if k not in ('cfg', 'scenario')})
    if not failures:
        print('no failure: every object showed the prescribed value at every sampled instant')


def replay(payload):
    import core
    f = payload.get('failure') or (payload.get('broken') or [{}])[0].get('minimal_case', {}).get('desc', {})
    print('replay', {k: v for k, v in f.items() if k not in ('cfg', 'scenario')})
    if 'scenario' in f:
        tz = f.get('tz', 'UTC')
        if tz in ('UTC', ''):
            replay_scenario(f['scenario'])
        else:
            harness = os.path.dirname(os.path.dirname(os.path.abspath(__file__)))
            code = ('import sys, json, os, time; sys.path.insert(0, %r); os.environ["C20_DST"] = "1"; time.tzset(); import core; core.impl_import_guard(); '
                    'import props.c20 as m; m.replay_scenario(json.loads(sys.stdin.read()))' % harness)
            p = subprocess.run([sys.executable, '-c', code], env=dict(os.environ, TZ=tz, C20_DST='1'), input=json.dumps(f['scenario']),
                               capture_output=True, text=True, timeout=1200)
            print(p.stdout[-3000:], p.stderr[-1500:])
        return
    World.get()
    if f.get('kind') == 'pattern-mismatch':
        from bacpypes.local import schedule as S
        d, p = tuple(f['date']), f['pattern']
        if f['fn'] == 'match_date':
            print('implementation:', S.match_date(d, tuple(p)), ' rule:', den_date(tuple(p), d))
        elif f['fn'] == 'match_weeknday':
            print('implementation:', S.match_weeknday(d, bytes(p)), ' rule:', den_wnd(tuple(p), d))
        else:
            print('implementation:', S.match_date_range(d, _DR(*p)), ' rule:', den_range((tuple(p[0]), tuple(p[1])), d))
        return
    if 'cfg' not in f:
        return
    cfg = _fix_cfg(f['cfg'])
    print('configuration:', cfg)
    d, t = tuple(f['date']), tuple(f['time'])
    if 'fires' in f:
        trace, raw = impl_run(cfg, d, t, 99, f['fires'])
        print('implementation trace:', trace)
        got, err = core.coq_eval(COQ_IMPORTS, 'canon_run (run %d%%nat %s %s %s 99)' % (f['fires'], coq_cfg(cfg), tup(d), tup(t)))
        print('model trace:         ', got if got is not None else err)
        return
    so, cleanup = build(cfg)
    try:
        print('implementation eval:', impl_eval(so, d, t), ' rule value:', spec_eval(cfg, d, t))
        if 'changed_at' in f:
            print('implementation eval at', f['changed_at'], ':', impl_eval(so, d, tuple(f['changed_at'])))
    finally:
        cleanup()
    got, err = core.coq_eval(COQ_IMPORTS, 'canon_res canon_eval (eval %s %s %s)' % (coq_cfg(cfg), tup(d), tup(t)))
    print('model eval:         ', got if got is not None else err)
