"""C06 — routers deliver each packet once to exactly the addressed stations.
Correspondence (model coq/theories/Net.v vs netservice.NetworkServiceAccessPoint / NetworkServiceElement on real
vlan.Network / vlan.Node objects) and the direct, implementation-only predicate."""
import collections
from core import Case, nlist
from pyerr import exc_code
import props.c06_impl as I

PROP = 'C06'
COQ_TARGETS = ['theories/NetFacts.vo', 'theories/NetTerm.vo', 'theories/NetTerm2.vo', 'theories/NetReply.vo', 'theories/NetOnce.vo', 'theories/NetRoute.vo', 'theories/NetArrive.vo', 'theories/NetLocal.vo', 'theories/NetBcast.vo', 'theories/NetTree.vo', 'theories/NetFlood.vo', 'theories/NetRound.vo', 'theories/NetCert.vo', 'theories/NetLbc.vo', 'theories/NetAnn.vo', 'theories/NetPark.vo', 'theories/NetNumFacts.vo', 'theories/NetNumInv.vo']
COQ_IMPORTS = 'From Bac Require Import Base Net NetCert NetNum.'
RULE = ('cases: (a) single-node scripts - a random node (station told nothing / its address / network+address, or router of 2..4 '
        'ports with or without an application) receives 1..6 events (cache learning, application sends of every address kind, '
        'arriving frames over DADR none/global/remote-broadcast/remote-station x SADR none/remote/spoofed x hop {0,1,2,254,255,random} x '
        'APDU well-formed/malformed, Who-Is-Router (all/specific/malformed), I-Am-Router lists, unknown message types); observed: every '
        'frame handed to each adapter (decoded by the harness decoder), every PDU handed up with source/destination, exception class, '
        'next-hop view of the cache on a grid, parked packets.  (b) whole internetworks on vlan.Network - random trees of 2..8 '
        'networks, 1..3 stations per network, routers of 2..4 ports, 3-/4-rings and a ring with a tail; scripts of sends of every '
        'destination kind from random stations (and, in 40 % of the trees, from an application on a router), cold, organically warmed and installed caches; observed: the complete ordered trace of '
        'frames on every LAN and deliveries, compared with the model world run on the same script.  non-trivial = at least one frame '
        'or delivery results; distinct by full script.  (c) tree-cert - for random trees with installed caches the hypotheses of the tree theorems '
        '(internet_okb, tree_tob, tree_fromb: levels / up-ports / parent ports found by BFS in the harness) are evaluated inside Coq on the model world; expected 1.  (d) node-script-route-aware - node scripts run with settings.route_aware on: submissions to destinations that carry a route, and the route of every source shown.  The direct predicate runs its tree scenarios with route_aware off and on, draws MACs from small per-LAN pools (values shared across LANs), runs warm-one-way/cold-other-way histories, submits concurrent histories (2..3 stations at opposite ends of cold lines/trees of 2..4 routers sending in the same instant), and also submits bursts: 2..4 packets for one remote network handed down in the same instant on cold trees.  (e) node-script-numbering - node scripts (stations told nothing / their address / network+address, routers) with Network-Number-Is and What-Is-Network-Number frames arriving (broadcast / unicast, well-formed / short / long, own / other number, flag 0 / 1 / other), nse.what_is_network_number(), nse.network_number_is(), the 10 000 s answer timer, interleaved with cache learning, I-Am-Router announcements, sends of every kind and ordinary arrivals; observed additionally: the adapters map (key, adapterNet, adapterNetConfigured per entry) and the timer state.  The direct predicate also runs numbering histories: on random trees the routers announce their network numbers (or stations ask and routers / configured stations answer) before or in the middle of the traffic, after which every (source, kind, destination) must still be delivered exactly once.')
TRUSTED = ['model coq/theories/Net.v written by hand after netservice.py:329-706, 878-1026 and vlan.py:55-131; tie = correspondence',
           'NPDUs are modelled in decoded form; the harness decodes LAN frames with its own decoder (c06_impl.npdu_decode); the NPCI codec is property C08',
           'RouterInfoCache is abstracted to its lookup function (snet, dnet) -> router MAC (coherent states only; property C19)']
ASSUMPTIONS = ['settings.route_aware: both settings are exercised; with it on, destinations carrying a route are modelled by indication_routed and the route of the source shown by up_route (addrRoute of DADR/SADR objects is not on the wire)',
               'network numbers 1..65534; network-layer messages other than Who-Is-Router-To-Network / I-Am-Router-To-Network / What-Is-Network-Number / Network-Number-Is and vendor types are not generated (model answers Unmodelled); the two number messages are generated without DADR and SADR only (they are never routed; with either the model answers Unmodelled)',
               'routers know the network number of each port (a router port without a number raises TypeError in RemoteStation(); Unmodelled)',
               'priority and expecting-reply bits are carried through unchanged and not compared',
               'zero-delay tasks run FIFO (task manager heap keyed by (time, counter))']

GRID = [1, 2, 3, 4, 5, 6, 7, 9]
import os as _os
SCALE = float(_os.environ.get('VERIF_C06_SCALE', '1') or 1)     # dev knob for the mutation self-test; 1 = documented volumes


def _n(k):
    return max(1, int(k * SCALE))
WATCHDOG = 4000


# ------------------------------------------------------------------ canonical forms (must match Net.v c_*)
def c_mac(m):
    return [len(m)] + list(m)


def c_ldest(d):
    return [0] if d[0] == 'lb' else [1] + c_mac(d[1])


def c_npdu(d):
    if 'bad' in d:
        return [-1]
    da, sa = d['dadr'], d['sadr']
    out = [0] if da is None else ([1] if da[0] == 'g' else ([2, da[1]] if da[0] == 'b' else [3, da[1]] + c_mac(da[2])))
    out += [0] if sa is None else [1, sa[0]] + c_mac(sa[1])
    out += [d['hop'] if da is not None else 0]
    out += [0 if d['msg'] is None else d['msg'] + 1]
    out += [len(d['data'])] + list(d['data'])
    return out


def c_addr(a):
    k = a[0]
    if k == 'none': return [0]
    if k == 'lb': return [1]
    if k == 'ls': return [2] + c_mac(a[1])
    if k == 'rb': return [3, a[1]]
    if k == 'rs': return [4, a[1]] + c_mac(a[2])
    if k == 'gb': return [5]
    return [6]


def c_log_entry(e):
    if e[0] == 'tx':
        return [1, e[1]] + c_ldest(e[2]) + c_npdu(I.npdu_decode(e[3]))
    if e[0] == 'up':
        return [2] + c_addr(e[2]) + c_addr(e[3]) + [len(e[4])] + list(e[4])
    if e[0] == 'raise':
        return [3, e[1]]
    raise ValueError(e)


def npdu_obj(n):
    da = n.npduDADR
    dd = None
    if da is not None:
        dd = {5: ('g',), 3: ('b', da.addrNet), 4: ('s', da.addrNet, bytes(da.addrAddr or b''))}.get(da.addrType, ('?',))
    sa = n.npduSADR
    return {'dadr': dd, 'sadr': None if sa is None else (sa.addrNet, bytes(sa.addrAddr)),
            'hop': n.npduHopCount if n.npduHopCount is not None else 0, 'msg': n.npduNetMessage, 'data': bytes(n.pduData)}


# ------------------------------------------------------------------ Coq literals
def q_mac(m):
    return nlist(list(m))


def q_ldest(d):
    return 'LBcast' if d[0] == 'lb' else '(LStation %s)' % q_mac(d[1])


def q_npdu(d):
    da, sa = d['dadr'], d['sadr']
    qd = 'None' if da is None else ('(Some DGlobal)' if da[0] == 'g' else
                                    ('(Some (DBcast %d%%N))' % da[1] if da[0] == 'b' else
                                     '(Some (DStation %d%%N %s))' % (da[1], q_mac(da[2]))))
    qs = 'None' if sa is None else '(Some (%d%%N, %s))' % (sa[0], q_mac(sa[1]))
    qm = 'None' if d['msg'] is None else '(Some %d%%N)' % d['msg']
    return '(mkNpdu %s %s %d%%N %s %s)' % (qd, qs, d['hop'] if da is not None else 0, qm, nlist(list(d['data'])))


def q_addr(a):
    a = I.strip_route(a)
    k = a[0]
    if k == 'ls': return '(ALS %s)' % q_mac(a[1])
    if k == 'lb': return 'ALB'
    if k == 'rs': return '(ARS %d%%N %s)' % (a[1], q_mac(a[2]))
    if k == 'rb': return '(ARB %d%%N)' % a[1]
    if k == 'gb': return 'AGB'
    raise ValueError(a)


def q_node(ports, has_app):
    ads = ';'.join('mkAd %s %s' % ('None' if net is None else '(Some %d%%N)' % net,
                                   'None' if mac is None else '(Some %s)' % q_mac(mac)) for net, mac in ports)
    return '(mkNode [%s] %s [] [])' % (ads, 'true' if has_app else 'false')


def q_event(e):
    if e[0] == 'learn':
        return '(ELearn %d%%nat %s %s)' % (e[1], q_mac(e[2]), nlist(e[3]))
    if e[0] == 'send':
        return '(ESend %s %s)' % (q_addr(e[1]), nlist([0x10, 99] + list(e[2])))
    if e[0] == 'sendr':
        return '(ESendR %s %s %s)' % (q_addr(e[1]), q_mac(e[2]), nlist([0x10, 99] + list(e[3])))
    return '(EArrive %d%%nat %s %s %s)' % (e[1], q_mac(e[2]), q_ldest(e[3]), q_npdu(e[4]))


# ------------------------------------------------------------------ single-node scripts
def impl_script(ports, has_app, events, grid=GRID):
    log = []
    node = I.ImplNode('n', [(net, mac) for net, mac in ports], has_app, log)
    out = []
    for e in events:
        del log[:]
        try:
            if e[0] == 'learn':
                node.learn(e[1], e[2], e[3])
            elif e[0] == 'send':
                node.send(e[1], e[2])
            else:
                node.arrive(e[1], e[2], e[3], I.npdu_encode(e[4]))
        except RecursionError:
            raise
        except Exception as x:
            log.append(('raise', exc_code(x)))
        out.append(len(log))
        for l in log:
            out += c_log_entry(l)
    for i, d, m in node.cache_view(grid):
        out += [0] if m is None else [1] + c_mac(m)
    pv = node.nsap.pending_nets
    out.append(len(pv))
    for dnet, lst in pv.items():
        out += [dnet, len(lst)]
        for n in lst:
            out += c_npdu(npdu_obj(n))
    return out


def impl_script_ra(ports, has_app, events, grid=GRID):
    """like impl_script but with settings.route_aware on: 'sendr' submits to a destination that carries a route, and
    after the entries of each arrival the route of the source shown is appended ([0] none / [1, len, octets])"""
    with I.RouteAware(True):
        log = []
        node = I.ImplNode('n', [(net, mac) for net, mac in ports], has_app, log)
        out = []
        for e in events:
            del log[:]
            try:
                if e[0] == 'learn':
                    node.learn(e[1], e[2], e[3])
                elif e[0] == 'send':
                    node.send(e[1], e[2])
                elif e[0] == 'sendr':
                    node.send(e[1] + (('via', bytes(e[2])),), e[3])
                else:
                    node.arrive(e[1], e[2], e[3], I.npdu_encode(e[4]))
            except RecursionError:
                raise
            except Exception as x:
                log.append(('raise', exc_code(x)))
            out.append(len(log))
            for l in log:
                out += c_log_entry(l)
            if e[0] == 'arrive':
                for l in log:
                    if l[0] == 'up':
                        r = I.route_of(l[2])
                        out += [0] if r is None else [1] + c_mac(r)
        for i, d, m in node.cache_view(grid):
            out += [0] if m is None else [1] + c_mac(m)
        pv = node.nsap.pending_nets
        out.append(len(pv))
        for dnet, lst in pv.items():
            out += [dnet, len(lst)]
            for n in lst:
                out += c_npdu(npdu_obj(n))
        return out


def case_script_ra(ports, has_app, events):
    exp = impl_script_ra(ports, has_app, events)
    coq = 'c_script_ra (run_script_ra %s [%s]) %s' % (q_node(ports, has_app), ';'.join(q_event(e) for e in events), nlist(GRID))
    desc = {'op': 'node-script-ra', 'ports': [[n, None if m is None else bytes(m).hex()] for n, m in ports], 'has_app': has_app,
            'events': [_jsonable(e) for e in events]}
    return Case('node-script-route-aware', coq, exp, key=('ra', repr(ports), has_app, repr(events)), nontrivial=True, desc=desc)


def rnd_script_ra(rng):
    ports, has_app = rnd_node(rng)
    events, known = [], []
    for _ in range(rng.randrange(1, 6)):
        r = rng.random()
        if r < 0.15:
            dn = rng.sample(NETPOOL + [7], rng.randrange(1, 3))
            known += dn
            events.append(('learn', rng.randrange(len(ports)), rnd_mac(rng), dn))
        elif r < 0.5 and has_app:
            e = rnd_send(rng, ports)
            if rng.random() < 0.75:
                events.append(('sendr', e[1], rnd_mac(rng), e[2]))
            else:
                events.append(e)
        else:
            events.append(rnd_arrival(rng, ports, known))
    return ports, has_app, events


# ------------------------------------------------------------------ node scripts with network-number learning (NetNum.v)
TIMER = 10001.0      # WhatIsNetworkNumber schedules the answer of a non-router 10 * 1000 time units later


def impl_xscript(ports, has_app, events, grid=GRID):
    """events: learn / send / arrive as in impl_script, plus ('ask',) = nse.what_is_network_number(),
    ('announce',) = nse.network_number_is(), ('tick',) = the answer timer period passes.  Appended to the observation:
    the adapters map of the NetworkServiceAccessPoint and the timer state."""
    I._modules()
    I.reset_tasks()
    log = []
    node = I.ImplNode('n', [(net, mac) for net, mac in ports], has_app, log)
    out = []
    try:
        for e in events:
            del log[:]
            try:
                if e[0] == 'learn':
                    node.learn(e[1], e[2], e[3])
                elif e[0] == 'send':
                    node.send(e[1], e[2])
                elif e[0] == 'arrive':
                    node.arrive(e[1], e[2], e[3], I.npdu_encode(e[4]))
                elif e[0] == 'ask':
                    node.nse.what_is_network_number()
                elif e[0] == 'announce':
                    node.nse.network_number_is()
                elif e[0] == 'tick':
                    I.NOW[0] += TIMER
                    I.drain_upto(50)
                else:
                    raise ValueError(e)
            except RecursionError:
                raise
            except Exception as x:
                log.append(('raise', exc_code(x)))
            out.append(len(log))
            for l in log:
                out += c_log_entry(l)
    finally:
        I.reset_tasks()
    amap = node.nsap.adapters
    out.append(len(amap))
    for key, ad in amap.items():
        conf = ad.adapterNetConfigured
        out += [-1 if key is None else key, -1 if ad.adapterNet is None else ad.adapterNet, -1 if conf is None else conf]
    t = node.nse.network_number_is_task
    out.append(0 if not t else (1 if t.isScheduled else 2))
    for i, d, m in node.cache_view(grid):
        out += [0] if m is None else [1] + c_mac(m)
    pv = node.nsap.pending_nets
    out.append(len(pv))
    for dnet, lst in pv.items():
        out += [dnet, len(lst)]
        for n in lst:
            out += c_npdu(npdu_obj(n))
    return out


def q_xevent(e):
    if e[0] == 'ask': return 'XAsk'
    if e[0] == 'announce': return 'XAnnounce'
    if e[0] == 'tick': return 'XTick'
    return '(XE %s)' % q_event(e)


def case_xscript(ports, has_app, events):
    exp = impl_xscript(ports, has_app, events)
    coq = 'c_xscript (run_xscript (xinit %s) [%s]) %s' % (q_node(ports, has_app), ';'.join(q_xevent(e) for e in events), nlist(GRID))
    desc = {'op': 'node-xscript', 'ports': [[n, None if m is None else bytes(m).hex()] for n, m in ports], 'has_app': has_app,
            'events': [_jsonable(e) for e in events]}
    return Case('node-script-numbering', coq, exp, key=('x', repr(ports), has_app, repr(events)), nontrivial=True, desc=desc)


def rnd_number_frame(rng, ports, i):
    """a What-Is-Network-Number / Network-Number-Is frame (no DADR, no SADR) arriving at adapter i"""
    mynets = [n for n, _ in ports if n is not None]
    mac_i = ports[i][1]
    dst = ('lb',) if rng.random() < 0.8 or mac_i is None else ('ls', mac_i)
    if rng.random() < 0.25:
        msg, data = 0x12, (b'' if rng.random() < 0.9 else bytes([rng.randrange(256)]))
    else:
        msg = 0x13
        net = rng.choice(mynets + NETPOOL + [7, 9, 300, 65534]) if rng.random() < 0.9 else rng.randrange(65536)
        flag = rng.choice([0, 1, 1, rng.randrange(256)])
        data = bytes([net >> 8, net & 255, flag])
        r = rng.random()
        if r < 0.06:
            data = data[:rng.randrange(3)]
        elif r < 0.1:
            data += bytes([rng.randrange(256)])
    return ('arrive', i, rnd_mac(rng), dst, {'dadr': None, 'sadr': None, 'hop': 0, 'msg': msg, 'data': data})


def rnd_xscript(rng):
    """mostly stations (one adapter), because only they can learn a number; the number frames come early and again
    later (renumbering), the traffic after them"""
    if rng.random() < 0.75:
        mode = rng.choice(['none', 'addr', 'addr', 'net'])
        net, mac = rng.choice(NETPOOL), rnd_mac(rng)
        ports = [{'none': (None, None), 'addr': (None, mac), 'net': (net, mac)}[mode]]
        has_app = rng.random() < 0.9
    else:
        ports, has_app = rnd_node(rng)
    events, known = [], []
    for _ in range(rng.randrange(2, 8)):
        r = rng.random()
        i = rng.randrange(len(ports))
        if r < 0.3:
            events.append(rnd_number_frame(rng, ports, i))
        elif r < 0.36:
            events.append(('ask',))
        elif r < 0.42:
            events.append(('announce',))
        elif r < 0.48:
            events.append(('tick',))
        elif r < 0.58:
            dn = rng.sample(NETPOOL + [7], rng.randrange(1, 3))
            known += dn
            events.append(('learn', i, rnd_mac(rng), dn))
        elif r < 0.66:
            # an I-Am-Router-To-Network announcement: the cache is filled the way the traffic fills it
            dn = rng.sample(NETPOOL + [7], rng.randrange(1, 3))
            known += dn
            events.append(('arrive', i, rnd_mac(rng), ('lb',),
                           {'dadr': None, 'sadr': None, 'hop': 0, 'msg': 1, 'data': b''.join(bytes([0, d]) for d in dn)}))
        elif r < 0.86 and has_app:
            e = rnd_send(rng, ports)
            if rng.random() < 0.4:
                e = ('send', ('gb',), e[2])
            events.append(e)
        else:
            events.append(rnd_arrival(rng, ports, known))
    return ports, has_app, events


def case_script(kind, ports, has_app, events):
    exp = impl_script(ports, has_app, events)
    coq = 'c_script (run_script %s [%s]) %s' % (q_node(ports, has_app), ';'.join(q_event(e) for e in events), nlist(GRID))
    desc = {'op': 'node-script', 'ports': [[n, None if m is None else bytes(m).hex()] for n, m in ports], 'has_app': has_app,
            'events': [_jsonable(e) for e in events]}
    nontriv = sum(1 for x in exp[:1]) and len(exp) > len(events) + len(ports) * len(GRID) + 1
    return Case(kind, coq, exp, key=(kind, repr(ports), has_app, repr(events)), nontrivial=bool(nontriv), desc=desc)


def _jsonable(x):
    if isinstance(x, (bytes, bytearray)):
        return {'hex': bytes(x).hex()}
    if isinstance(x, (tuple, list)):
        return [_jsonable(y) for y in x]
    if isinstance(x, dict):
        return {k: _jsonable(v) for k, v in x.items()}
    return x


def _unjson(x):
    if isinstance(x, dict) and set(x) == {'hex'}:
        return bytes.fromhex(x['hex'])
    if isinstance(x, list):
        return tuple(_unjson(y) for y in x)
    if isinstance(x, dict):
        return {k: _unjson(v) for k, v in x.items()}
    return x


NETPOOL = [1, 2, 3, 4, 5, 6]


def rnd_mac(rng):
    r = rng.random()
    if r < 0.8:
        return bytes([rng.choice([1, 2, 3, 10, 11, 12, 200])])
    if r < 0.9:
        return bytes([rng.randrange(256), rng.randrange(256)])
    return bytes(rng.randrange(256) for _ in range(6))


def rnd_node(rng):
    r = rng.random()
    if r < 0.35:
        mode = rng.choice(['none', 'addr', 'net', 'net'])
        net, mac = rng.choice(NETPOOL), rnd_mac(rng)
        ports = [{'none': (None, None), 'addr': (None, mac), 'net': (net, mac)}[mode]]
        return ports, (rng.random() < 0.9)
    k = rng.choice([2, 2, 3, 4])
    nets = rng.sample(NETPOOL, k)
    ports = [(n, rnd_mac(rng) if rng.random() < 0.9 else None) for n in nets]
    return ports, (rng.random() < 0.4)


def rnd_apdu(rng):
    r = rng.random()
    if r < 0.75:
        return bytes([0x10, 99]) + bytes(rng.randrange(256) for _ in range(rng.randrange(0, 5)))
    if r < 0.8:
        return bytes([0x20, rng.randrange(256), rng.randrange(40)])
    return rng.choice([b'', b'\x10', b'\x90\x01', b'\x00\x05', b'\x00\x05\x01\x0c', b'\x08\x05\x01\x02\x03\x0c',
                       b'\x08\x05\x01\x02', b'\x30\x01\x0c', b'\x38\x01\x02', b'\x40\x01\x02\x03', b'\x40\x01',
                       b'\x50\x01\x0c', b'\x50', b'\x60\x01\x02', b'\x60\x01', b'\x70\x01\x02', b'\x71', b'\xf0\x01\x02'])


def rnd_arrival(rng, ports, known):
    """a frame arriving at a random adapter; `known` = networks the cache has heard of"""
    i = rng.randrange(len(ports))
    mynets = [n for n, _ in ports if n is not None]
    mymacs = [m for _, m in ports if m is not None]
    netc = lambda: rng.choice(mynets + known + NETPOOL + [7, 9]) if (mynets or known) else rng.choice(NETPOOL)
    r = rng.random()
    if r < 0.3:
        dadr = None
    elif r < 0.45:
        dadr = ('g',)
    elif r < 0.65:
        dadr = ('b', netc())
    else:
        dadr = ('s', netc(), rng.choice(mymacs + [rnd_mac(rng)]) if mymacs and rng.random() < 0.6 else rnd_mac(rng))
    r = rng.random()
    sadr = None if r < 0.5 else (netc() if rng.random() < 0.3 else rng.choice([7, 8, 9] + NETPOOL), rnd_mac(rng))
    hop = rng.choice([0, 1, 2, 254, 255, rng.randrange(256)])
    r = rng.random()
    if r < 0.55:
        msg, data = None, rnd_apdu(rng)
    elif r < 0.75:
        msg = 0
        data = rng.choice([b'', bytes([0, netc()]), bytes([0, netc()]), bytes([netc()]), bytes([0, netc(), 1])])
    elif r < 0.93:
        msg = 1
        data = b''.join(bytes([0, netc()]) for _ in range(rng.randrange(0, 4)))
        if rng.random() < 0.1:
            data += b'\x00'
    else:
        msg, data = rng.choice([0x0A, 0x11, 0x14, 0x7F]), bytes(rng.randrange(256) for _ in range(rng.randrange(3)))
    mac_i = ports[i][1]
    dst = ('lb',) if rng.random() < 0.4 or mac_i is None else ('ls', mac_i)
    return ('arrive', i, rnd_mac(rng), dst, {'dadr': dadr, 'sadr': sadr, 'hop': hop, 'msg': msg, 'data': data})


def reuse_macs(rng, events):
    """MACs are unique per LAN only: let arriving frames come from link addresses that the cache already records as
    routers (learned on whatever port)"""
    learned = [e[2] for e in events if e[0] == 'learn']
    out = []
    for e in events:
        if e[0] == 'arrive' and learned and rng.random() < 0.5:
            e = (e[0], e[1], rng.choice(learned), e[3], e[4])
        out.append(e)
    return out


def rnd_send(rng, ports):
    r = rng.random()
    net = rng.choice(NETPOOL + [n for n, _ in ports if n is not None])
    if r < 0.15: dest = ('ls', rnd_mac(rng))
    elif r < 0.25: dest = ('lb',)
    elif r < 0.4: dest = ('gb',)
    elif r < 0.6: dest = ('rb', net)
    else: dest = ('rs', net, rnd_mac(rng))
    return ('send', dest, bytes([rng.randrange(256) for _ in range(rng.randrange(0, 4))]))


def rnd_script(rng):
    ports, has_app = rnd_node(rng)
    events, known = [], []
    for _ in range(rng.randrange(1, 7)):
        r = rng.random()
        if r < 0.25:
            dn = rng.sample(NETPOOL + [7], rng.randrange(1, 3))
            known += dn
            events.append(('learn', rng.randrange(len(ports)), rnd_mac(rng), dn))
        elif r < 0.45 and has_app:
            events.append(rnd_send(rng, ports))
        else:
            events.append(rnd_arrival(rng, ports, known))
    return ports, has_app, reuse_macs(rng, events)


def grid_scripts():
    """boundary grid: a 3-port router (with and without application) and the three kinds of station against
    every DADR kind x SADR kind x hop {0,1,255}, cold and with a cached path"""
    out = []
    rports = [(1, b'\x0a'), (2, b'\x0a'), (3, b'\x0a')]
    configs = [(rports, False), (rports, True), ([(None, None)], True), ([(None, b'\x05')], True), ([(2, b'\x05')], True)]
    apdu = b'\x10\x63\x01'
    for ports, app in configs:
        mymac = ports[-1][1] or b'\x05'
        for dadr in [None, ('g',), ('b', 1), ('b', 2), ('b', 3), ('b', 5), ('s', 1, b'\x07'), ('s', 3, b'\x0a'), ('s', 3, b'\x07'),
                     ('s', 2, mymac), ('s', 5, b'\x07')]:
            for sadr in [None, (8, b'\x01'), (2, b'\x01')]:
                for hop in [0, 1, 255]:
                    for pre in [[], [('learn', len(ports) - 1, b'\x0b', [5])], [('learn', 0, b'\x0b', [5])]]:
                        for msg, data in [(None, apdu), (0, b'\x00\x05')]:
                            ev = pre + [('arrive', 0, b'\x01', ('lb',) if dadr is None or dadr[0] != 's' else ('ls', ports[0][1] or b'\x05'),
                                         {'dadr': dadr, 'sadr': sadr, 'hop': hop, 'msg': msg, 'data': data})]
                            out.append((ports, app, ev))
    return out


# ------------------------------------------------------------------ topologies
class Topo:
    """nets: {net: [station macs]}; routers: [[(net, mac), ...]]; modes: {(net, mac): 'none'|'addr'|'net'}; cyclic flag"""

    def __init__(self, nets, routers, modes, cyclic=False, apps=()):
        self.nets, self.routers, self.modes, self.cyclic = nets, routers, modes, cyclic
        self.apps = tuple(sorted(apps))      # routers that carry an application
        # node numbering: routers first, then stations in nets order
        self.station_ids = {}
        k = len(routers)
        for net, macs in nets.items():
            for mac in macs:
                self.station_ids[(net, mac)] = k
                k += 1
        self.nnodes = k

    def members(self):
        mem = collections.OrderedDict((net, []) for net in self.nets)
        for ri, ports in enumerate(self.routers):
            for pi, (net, mac) in enumerate(ports):
                mem[net].append((ri, pi))
        for net, macs in self.nets.items():
            for mac in macs:
                mem[net].append((self.station_ids[(net, mac)], 0))
        return mem

    def dist(self):
        """router hops between networks (BFS over the bipartite graph)"""
        adj = collections.defaultdict(set)
        for ports in self.routers:
            ns = [n for n, _ in ports]
            for a in ns:
                for b in ns:
                    if a != b:
                        adj[a].add(b)
        d = {}
        for s in self.nets:
            dd = {s: 0}
            q = [s]
            while q:
                x = q.pop(0)
                for y in adj[x]:
                    if y not in dd:
                        dd[y] = dd[x] + 1
                        q.append(y)
            d[s] = dd
        return d

    def next_hops(self):
        """for node-port on network sn and target network d (not attached to that node): MAC on sn of the next router"""
        out = {}
        dist = self.dist()
        for sn in self.nets:
            for d in self.nets:
                if d == sn:
                    continue
                best = None
                for ports in self.routers:
                    pn = [n for n, _ in ports]
                    if sn in pn:
                        for n2 in pn:
                            if n2 != sn and d in dist[n2] and dist[n2][d] == dist[sn][d] - 1:
                                best = [m for n, m in ports if n == sn][0]
                if best is not None:
                    out[(sn, d)] = best
        return out

    def coq_world(self):
        nodes = []
        for ports in self.routers:
            nodes.append('mkW %s [%s]' % (q_node(ports, len(nodes) in self.apps), ';'.join('(%d%%N, %s)' % (n, q_mac(m)) for n, m in ports)))
        for net, macs in self.nets.items():
            for mac in macs:
                mode = self.modes.get((net, mac), 'net')
                port = {'none': (None, None), 'addr': (None, mac), 'net': (net, mac)}[mode]
                nodes.append('mkW %s [(%d%%N, %s)]' % (q_node([port], True), net, q_mac(mac)))
        lans = ';'.join('(%d%%N, [%s])' % (net, ';'.join('(%d%%nat,%d%%nat)' % m for m in mem)) for net, mem in self.members().items())
        return '(mkWorld [%s] [%s] [] [])' % (';'.join(nodes), lans)

    def describe(self):
        return {'nets': [[n, [bytes(m).hex() for m in ms]] for n, ms in self.nets.items()],     # ordered: creation order matters
                'routers': [[[n, bytes(m).hex()] for n, m in ports] for ports in self.routers],
                'modes': {'%d:%s' % (n, bytes(m).hex()): v for (n, m), v in self.modes.items()}, 'cyclic': self.cyclic,
                'apps': list(self.apps)}

    @staticmethod
    def from_desc(d):
        items = d['nets'].items() if isinstance(d['nets'], dict) else d['nets']
        nets = collections.OrderedDict((int(n), [bytes.fromhex(m) for m in ms]) for n, ms in items)
        routers = [[(n, bytes.fromhex(m)) for n, m in ports] for ports in d['routers']]
        modes = {(int(k.split(':')[0]), bytes.fromhex(k.split(':')[1])): v for k, v in d['modes'].items()}
        return Topo(nets, routers, modes, d.get('cyclic', False), d.get('apps', ()))


def assign_macs(rng, order, router_nets, nstations):
    """link addresses are unique per LAN only: every LAN draws the addresses of its router ports and stations from
    its own small pool 1..(members+2), so that stations and routers on DIFFERENT networks routinely share MAC values.
    order: network numbers; router_nets: [[net, ...]] per router; nstations: {net: count}.
    Returns (nets, routers, modes)."""
    members = {n: nstations[n] + sum(1 for r in router_nets for x in r if x == n) for n in order}
    pools = {n: rng.sample(range(1, members[n] + 3), members[n]) for n in order}
    routers = [[(n, bytes([pools[n].pop()])) for n in r] for r in router_nets]
    nets = collections.OrderedDict()
    modes = {}
    for n in order:
        nets[n] = []
        for _ in range(nstations[n]):
            mac = bytes([pools[n].pop()])
            nets[n].append(mac)
            modes[(n, mac)] = rng.choice(['net', 'net', 'addr', 'none'])
    return nets, routers, modes


def rnd_tree(rng, maxnets=8, apps=False):
    nnets = rng.randrange(2, maxnets + 1)
    numbers = rng.sample(range(1, 60), nnets)
    order = [numbers[0]]
    router_nets = []
    todo = numbers[1:]
    while todo:
        k = min(len(todo), rng.choice([1, 1, 2, 3]))
        base = rng.choice(order)
        new, todo = todo[:k], todo[k:]
        ports = [base] + list(new)
        rng.shuffle(ports)
        router_nets.append(ports)
        order += list(new)
    nstations = {n: rng.randrange(1, 4) for n in order}
    nets, routers, modes = assign_macs(rng, order, router_nets, nstations)
    return Topo(nets, routers, modes, apps=[rng.randrange(len(routers))] if apps else ())


def ring(rng, k, tail=False):
    numbers = rng.sample(range(1, 60), k + (1 if tail else 0))
    router_nets = [[numbers[i], numbers[(i + 1) % k]] for i in range(k)]
    if tail:
        router_nets.append([numbers[0], numbers[k]])
    nstations = {n: rng.randrange(1, 3) for n in numbers}
    nets, routers, modes = assign_macs(rng, numbers, router_nets, nstations)
    return Topo(nets, routers, modes, cyclic=True)


# ------------------------------------------------------------------ world scripts
def build(topo):
    return I.Internet(topo.nets, topo.routers, topo.modes, router_apps=topo.apps)


def node_of(net_obj, topo, who):
    if who < len(topo.routers):
        return net_obj.routers[who]
    for key, idx in topo.station_ids.items():
        if idx == who:
            return net_obj.stations[key]


def impl_world(topo, events):
    """run the script on the implementation; returns (canonical list, events actually executed)"""
    net = build(topo)
    names = {('r', i): i for i in range(len(topo.routers))}
    for (n, m), idx in topo.station_ids.items():
        names[('s', n, m)] = idx
    out, done, remaining = [], [], 0
    log = net.log

    def hook(name, pdu):
        log.append(('frame', int(name), I.addr_tuple(pdu.pduSource), I.addr_tuple(pdu.pduDestination), bytes(pdu.pduData)))
    for lan in net.lans.values():
        lan.traffic_log = hook
    for e in events:
        done.append(e)
        if e[0] == 'send':
            try:
                node_of(net, topo, e[1]).send(e[2], e[3])
            except Exception as x:
                log.append(('raise', e[1], exc_code(x)))
        elif e[0] == 'learn':
            node_of(net, topo, e[1]).learn(e[2], e[3], e[4])
        elif e[0] == 'mark':
            log.append(('mark',))
        elif e[0] == 'run':
            try:
                remaining = I.drain_upto(e[1])
            except I.Watchdog:
                raise
            except Exception as x:
                log.append(('raise', 9999, exc_code(x)))
                remaining = I.pending_tasks()
            if remaining:
                I.reset_tasks()
                break
    for l in log:
        if l[0] == 'frame':
            out += [1, l[1]] + c_mac(l[2][1]) + c_ldest(l[3]) + c_npdu(I.npdu_decode(l[4]))
        elif l[0] == 'up':
            out += [2, names[l[1]]] + c_addr(l[2]) + c_addr(l[3]) + [len(l[4])] + list(l[4])
        elif l[0] == 'raise':
            out += [3, l[1], l[2]]
        elif l[0] == 'mark':
            out += [5]
    return [remaining] + out, done, log


def q_wevent(e):
    if e[0] == 'send':
        return '(WSend %d%%nat %s %s)' % (e[1], q_addr(e[2]), nlist([0x10, 99] + list(e[3])))
    if e[0] == 'learn':
        return '(WLearn %d%%nat %d%%nat %s %s)' % (e[1], e[2], q_mac(e[3]), nlist(e[4]))
    if e[0] == 'run':
        return '(WRun %d%%nat)' % e[1]
    return 'WMark'


def case_world(kind, topo, events):
    exp, done, log = impl_world(topo, events)
    coq = 'c_world (run_world %s [%s])' % (topo.coq_world(), ';'.join(q_wevent(e) for e in done))
    desc = {'op': 'world-script', 'topology': topo.describe(), 'events': [_jsonable(e) for e in done]}
    return Case(kind, coq, exp, key=(kind, repr(topo.describe()), repr(done)), nontrivial=len(exp) > 1 + len(done), desc=desc)


def all_dests(topo, src, learned=()):
    """every (kind, destination address, expected recipients {station key}) for source station src=(net, mac);
    combinations the property does not constrain (a station that was never told its network number addressing
    its own network by number) are left out.  learned = stations that have heard their number announced."""
    snet, smac = src
    knows = topo.modes.get(src, 'net') == 'net' or src in learned
    out = []
    everyone = [(n, m) for n, ms in topo.nets.items() for m in ms if (n, m) != src]
    for (n, m) in everyone:
        if n == snet:
            out.append(('unicast-local', ('ls', m), [(n, m)]))
            if knows:
                out.append(('unicast-own-net-remote-form', ('rs', n, m), [(n, m)]))
        else:
            out.append(('unicast-remote', ('rs', n, m), [(n, m)]))
    for n in topo.nets:
        rec = [(n, m) for m in topo.nets[n] if (n, m) != src]
        if n != snet:
            out.append(('remote-broadcast', ('rb', n), rec))
        elif knows:
            out.append(('remote-broadcast-own-net', ('rb', n), rec))
    out.append(('global-broadcast', ('gb',), everyone))
    out.append(('local-broadcast', ('lb',), [(n, m) for (n, m) in everyone if n == snet]))
    return out


def warm_events(topo):
    """install the correct next hop in every node (routers and stations)"""
    ev = []
    nh = topo.next_hops()
    for ri, ports in enumerate(topo.routers):
        attached = [n for n, _ in ports]
        for pi, (sn, _) in enumerate(ports):
            for d in topo.nets:
                if d not in attached and (sn, d) in nh:
                    # only via the port that leads towards d
                    dist = topo.dist()
                    if all(dist[sn][d] <= dist[o][d] for o in attached):
                        ev.append(('learn', ri, pi, nh[(sn, d)], [d]))
    for (n, m), idx in topo.station_ids.items():
        for d in topo.nets:
            if d != n and (n, d) in nh:
                ev.append(('learn', idx, 0, nh[(n, d)], [d]))
    return ev


def rnd_world_script(rng, topo, nsend, limit):
    ev = []
    r = rng.random()
    if r < 0.3 and not topo.cyclic:
        ev += warm_events(topo)
    keys = list(topo.station_ids)
    for k in range(nsend):
        if topo.apps and rng.random() < 0.35:
            # the application on a router speaks
            n2 = rng.choice(list(topo.nets))
            dest = rng.choice([('gb',), ('lb',), ('rb', n2), ('rs', n2, rng.choice(topo.nets[n2]))])
            ev.append(('send', rng.choice(topo.apps), dest, bytes([k, rng.randrange(256)])))
        else:
            src = rng.choice(keys)
            kind, dest, rec = rng.choice(all_dests(topo, src))
            ev.append(('send', topo.station_ids[src], dest, bytes([k, rng.randrange(256)])))
        if rng.random() < 0.8:
            ev.append(('run', limit))
            ev.append(('mark',))
    ev.append(('run', limit))
    return ev


def case_cert(topo, d):
    """the hypotheses of the tree theorems (internet_ok, tree_to d with warm caches, tree_from d), evaluated inside Coq
    on the model world of a random tree with the level / up-port / parent-port certificate computed here by BFS"""
    dist = topo.dist()
    lv = {n: dist[d][n] for n in topo.nets}
    ups = []
    for ports in topo.routers:
        ups.append(min(range(len(ports)), key=lambda i: lv[ports[i][0]]))
    ups += [0] * len(topo.station_ids)
    par = {}
    for ri, ports in enumerate(topo.routers):
        for pi, (n, _) in enumerate(ports):
            if pi != ups[ri]:
                par[n] = (ri, pi)
    ev = [e for e in warm_events(topo)]
    w = 'run_world %s [%s]' % (topo.coq_world(), ';'.join(q_wevent(e) for e in ev))
    lvq = '[' + ';'.join('(%d%%N, %d%%nat)' % kv for kv in lv.items()) + ']'
    upq = '[' + ';'.join('%d%%nat' % u for u in ups) + ']'
    parq = '[' + ';'.join('(%d%%N, (%d%%nat, %d%%nat))' % (n, r, p) for n, (r, p) in par.items()) + ']'
    coq = ('let w := %s in [zb (internet_okb (lans w) (nodes w) && tree_tob (lans w) (nodes w) %d%%N (assoc_nat %s 999%%nat) (nth_nat %s) (assoc_pair %s) '
           '&& tree_fromb (lans w) (nodes w) %d%%N (assoc_nat %s 999%%nat) (nth_nat %s) (assoc_pair %s))]'
           % (w, d, lvq, upq, parq, d, lvq, upq, parq))
    # on the implementation side the same facts are what the direct predicate relies on: tree shape and warm next hops
    ok = all(len(set(n for n, _ in ports)) == len(ports) for ports in topo.routers)
    return Case('tree-cert', coq, [1 if ok else 0], key=('cert', repr(topo.describe()), d), nontrivial=True,
                desc={'op': 'tree-cert', 'topology': topo.describe(), 'root': d})


def cases(rng, tier):
    out = []
    big = tier == 'thorough'
    for ports, app, ev in (grid_scripts() if big else grid_scripts()[::4 if SCALE >= 1 else 12]):
        out.append(case_script('node-grid', ports, app, ev))
    for _ in range(_n(20000 if big else 2800)):
        ports, app, ev = rnd_script(rng)
        out.append(case_script('node-script', ports, app, ev))
    for _ in range(_n(2500 if big else 150)):
        topo = rnd_tree(rng, 8 if rng.random() < 0.5 else 4, apps=rng.random() < 0.4)
        out.append(case_world('tree-script', topo, rnd_world_script(rng, topo, rng.randrange(1, 6), 3000)))
    for _ in range(_n(80 if big else 16)):
        topo = ring(rng, rng.choice([3, 4]), tail=rng.random() < 0.4)
        out.append(case_world('ring-script', topo, rnd_world_script(rng, topo, rng.randrange(1, 3), 250)))
    for _ in range(_n(4000 if big else 600)):
        out.append(case_script_ra(*rnd_script_ra(rng)))
    for _ in range(_n(400 if big else 40)):
        topo = rnd_tree(rng, 8 if rng.random() < 0.6 else 4)
        out.append(case_cert(topo, rng.choice(list(topo.nets))))
    for _ in range(_n(4000 if big else 500)):
        out.append(case_xscript(*rnd_xscript(rng)))
    rng.shuffle(out)        # spread the expensive whole-trace cases evenly over the Coq shards
    return out


# ====================================================================== direct predicate (implementation only)
def _payload_frames(frames, apdu):
    out = []
    for f in frames:
        d = I.npdu_decode(f[3])
        if 'bad' not in d and d['msg'] is None and d['data'] == apdu:
            out.append((f[0], f[1], f[2], d))
    return out


def check_send(net, topo, src, kind, dest, rec, payload, limit=WATCHDOG, reply=True):
    """one application send on a (possibly warm) internetwork; returns a failure dict or None"""
    snet, smac = src
    apdu = b'\x10\x63' + payload
    del net.log[:]
    del net.frames[:]
    hist_ = getattr(net, 'history', None)
    if hist_ is None:
        hist_ = net.history = []
    base = {'topology': topo.describe(), 'source': [snet, smac.hex()], 'dest_kind': kind, 'dest': _jsonable(dest),
            'payload': payload.hex(), 'installed_caches': bool(getattr(net, 'installed', False)),
            'numbering': getattr(net, 'numbering', None),
            'history': [list(h) for h in hist_[-600:]]}        # what this internetwork has carried before (replayed first)
    hist_.append(([snet, smac.hex()], _jsonable(dest), payload.hex()))
    try:
        net.stations[src].send(dest, payload)
        remaining = I.drain_upto(limit)
    except Exception as x:
        I.reset_tasks()
        return dict(base, kind='exception', exc=repr(x)[:200])
    if remaining:
        tail = [I.npdu_decode(f[3]) for f in net.frames[-60:]]
        I.reset_tasks()
        return dict(base, kind='no-termination', steps=limit, cyclic=topo.cyclic,
                    looping_only_router_discovery=all(('bad' not in d) and d['msg'] in (0, 1) and d['dadr'] is None for d in tail),
                    payload_delivered=sorted(str(l[1]) for l in net.log if l[0] == 'up' and l[4] == apdu))
    ups = [l for l in net.log if l[0] == 'up']
    got = collections.Counter(l[1] for l in ups if l[4] == apdu)
    stray = [l for l in ups if l[4] != apdu]
    if topo.cyclic:
        # only termination and boundedly many copies are required on a cycle
        if any(v > 600 for v in got.values()):
            return dict(base, kind='unbounded-copies', got=repr(got)[:300])
        return None
    want = collections.Counter(('s', n, m) for (n, m) in rec)
    if got != want or stray:
        return dict(base, kind='wrong-recipients', got=sorted(map(str, got.elements())), want=sorted(map(str, want.elements())),
                    stray=len(stray))
    dist = topo.dist()
    for l in ups:
        shown = ('ls', smac) if l[1][1] == snet else ('rs', snet, smac)
        if I.strip_route(l[2]) != shown:
            return dict(base, kind='wrong-source-shown', at=str(l[1]), shown=str(l[2]), want=str(shown))
    per_lan = collections.Counter()
    for lan, fsrc, fdst, d in _payload_frames(net.frames, apdu):
        per_lan[lan] += 1
        if d['dadr'] is not None and d['hop'] != 255 - dist[snet][lan]:
            return dict(base, kind='hop-count', lan=lan, hop=d['hop'], want=255 - dist[snet][lan])
        if lan != snet and d['sadr'] != (snet, smac):
            return dict(base, kind='sadr', lan=lan, sadr=str(d['sadr']))
        if lan == snet and d['sadr'] is not None:
            return dict(base, kind='sadr', lan=lan, sadr=str(d['sadr']))
    if any(v > 1 for v in per_lan.values()):
        return dict(base, kind='same-packet-twice-on-a-network', per_lan=dict(per_lan))
    if reply and ups:
        # the source shown must be usable for a reply
        l = ups[0]
        replier = (l[1][1], l[1][2])
        rp = b'\xee' + payload
        f = check_send(net, topo, replier, 'reply', l[2], [src], rp, limit, reply=False)
        if f is not None:
            f['kind'] = 'reply-' + f['kind']
            f['reply_to'] = base
            return f
    return None


def node_checks(ports, has_app, events):
    """per-node clauses on the implementation alone: hop decrement, nothing at hop 0, not back, SADR, unicast only to addressee"""
    log = []
    node = I.ImplNode('n', list(ports), has_app, log)
    fails = []
    base = {'ports': [[n, None if m is None else bytes(m).hex()] for n, m in ports], 'has_app': has_app, 'events': [_jsonable(e) for e in events]}
    for k, e in enumerate(events):
        del log[:]
        via_arrival = None
        try:
            if e[0] == 'learn':
                node.learn(e[1], e[2], e[3])
            elif e[0] == 'send':
                node.send(e[1], e[2])
            else:
                node.arrive(e[1], e[2], e[3], I.npdu_encode(e[4]))
        except Exception as x:
            if (e[0] == 'arrive' and e[4]['msg'] is None and e[4]['data'][:2] == b'\x10\x63'
                    and all(n is not None and m is not None for n, m in ports)):
                fails.append(dict(base, kind='exception-on-wellformed-frame', at=k, exc=repr(x)[:200]))
            continue
        if e[0] == 'arrive' and e[4]['dadr'] is not None and e[4]['dadr'][0] != 'g':
            # does the cache (as it stands when the frame is forwarded, i.e. after learning from its SADR) name a
            # next hop that lives on the arrival network?
            for i, ad in enumerate(node.adapters):
                ri = node.nsap.router_info_cache.get_router_info(ad.adapterNet, e[4]['dadr'][1])
                if ri:
                    via_arrival = (i == e[1])
                    break
        if e[0] != 'arrive':
            continue
        p = e[4]
        i = e[1]
        inet = ports[i][0]
        for l in log:
            if l[0] == 'tx':
                d = I.npdu_decode(l[3])
                if 'bad' in d:
                    fails.append(dict(base, kind='undecodable-frame', at=k))
                    continue
                same = p['msg'] is None and d['msg'] is None and d['data'] == p['data']
                if not same:
                    continue
                if p['dadr'] is None:
                    fails.append(dict(base, kind='forwarded-without-dadr', at=k))
                    continue
                if p['hop'] == 0:
                    fails.append(dict(base, kind='forwarded-at-hop-zero', at=k))
                if d['dadr'] is not None and d['hop'] != p['hop'] - 1:
                    fails.append(dict(base, kind='hop-not-decremented', at=k, hop_in=p['hop'], hop_out=d['hop']))
                if l[1] == i:
                    dnet = p['dadr'][1] if p['dadr'][0] != 'g' else None
                    directly = dnet is not None and any(n == dnet for n, _ in ports)
                    fails.append(dict(base, kind='forwarded-back-onto-arrival-network', at=k,
                                      next_hop_cached_on_arrival_network=bool(via_arrival) and not directly and p['dadr'][0] != 'g'))
                want = p['sadr'] if p['sadr'] is not None else (inet, e[2])
                if d['sadr'] != want:
                    fails.append(dict(base, kind='sadr-wrong', at=k, sadr=str(d['sadr']), want=str(want)))
            elif l[0] == 'up':
                if p['dadr'] is not None and p['dadr'][0] == 's':
                    li = node.adapters.index(node.nsap.local_adapter)
                    if not (ports[li][0] == p['dadr'][1] and ports[li][1] == p['dadr'][2]):
                        fails.append(dict(base, kind='unicast-delivered-to-non-addressee', at=k))
                if p['dadr'] is not None and p['dadr'][0] == 'b':
                    li = node.adapters.index(node.nsap.local_adapter)
                    if ports[li][0] != p['dadr'][1]:
                        fails.append(dict(base, kind='remote-broadcast-delivered-on-wrong-network', at=k))
        if sum(1 for l in log if l[0] == 'up') > 1:
            fails.append(dict(base, kind='delivered-twice', at=k))
    return fails


BACK_VIA_CACHE = ([(1, b'\x0a'), (2, b'\x0a')], False,
                  [('learn', 0, b'\x0b', [5]),
                   ('arrive', 0, b'\x01', ('ls', b'\x0a'), {'dadr': ('s', 5, b'\x07'), 'sadr': None, 'hop': 255, 'msg': None, 'data': b'\x10\x63\x01'})])


def chain(k):
    """k+1 networks 1..k+1 in a line, one station each"""
    nets = collections.OrderedDict((n, [bytes([n])]) for n in range(1, k + 2))
    routers = [[(n, bytes([100 + n])), (n + 1, bytes([100 + n]))] for n in range(1, k + 1)]
    return Topo(nets, routers, {})


def check_hop_exhaustion(rng, k, h):
    """a raw station on network 1 of a chain sends a global broadcast with hop count h"""
    from bacpypes.vlan import Node
    from bacpypes.pdu import PDU, LocalStation, LocalBroadcast
    topo = chain(k)
    net = build(topo)
    raw = Node(LocalStation(b'\xfa'), net.lans[1])
    apdu = b'\x10\x63' + bytes([rng.randrange(256), h])
    frame = I.npdu_encode({'dadr': ('g',), 'sadr': None, 'hop': h, 'msg': None, 'data': apdu})
    base = {'chain': k, 'hop': h}
    try:
        raw.indication(PDU(frame, destination=LocalBroadcast()))
        remaining = I.drain_upto(WATCHDOG)
    except Exception as x:
        I.reset_tasks()
        return dict(base, kind='hop-exception', exc=repr(x)[:200])
    if remaining:
        I.reset_tasks()
        return dict(base, kind='hop-no-termination')
    got = collections.Counter(l[1][1] for l in net.log if l[0] == 'up' and l[4] == apdu)
    seen = {}
    for lan, fsrc, fdst, d in _payload_frames(net.frames, apdu):
        seen.setdefault(lan, []).append(d['hop'])
    for n in topo.nets:
        dist = n - 1
        if dist < h or dist == 0:
            if seen.get(n) != [h - dist] or got[n] != 1:
                return dict(base, kind='hop-chain', net=n, frames=seen.get(n), delivered=got[n], want_hop=h - dist)
        elif dist == h:
            if seen.get(n, [0]) != [0] or got[n] > 1:
                return dict(base, kind='hop-chain', net=n, frames=seen.get(n), delivered=got[n], want_hop=0)
        else:
            if n in seen or got[n]:
                return dict(base, kind='forwarded-beyond-hop-count', net=n, frames=seen.get(n), delivered=got[n])
    return None


def _names_non_local_port(topo, ri, local, replier_net, shown):
    """is the source shown the address of a port of router ri other than its local adapter?"""
    if shown[0] == 'ls':
        n, m = replier_net, shown[1]
    elif shown[0] == 'rs':
        n, m = shown[1], shown[2]
    else:
        return False
    return n != local and (n, m) in [(pn, bytes(pm)) for pn, pm in topo.routers[ri]]


def check_burst(topo, src, sends, limit=WATCHDOG):
    """a cold internetwork; station src hands several packets for the SAME remote network to its network layer in the
    same instant (before anything is delivered), then the internetwork runs: every payload must reach exactly its
    addressees, exactly once, showing the originator.  sends = [(kind, dest, recipients, payload)]"""
    net = build(topo)
    snet, smac = src
    base = {'topology': topo.describe(), 'source': [snet, smac.hex()], 'burst': [[k, _jsonable(d), p.hex()] for k, d, _, p in sends]}
    try:
        for kind, dest, rec, payload in sends:
            net.stations[src].send(dest, payload)
        remaining = I.drain_upto(limit)
    except Exception as x:
        I.reset_tasks()
        return dict(base, kind='burst-exception', exc=repr(x)[:200])
    if remaining:
        I.reset_tasks()
        return dict(base, kind='burst-no-termination')
    ups = [l for l in net.log if l[0] == 'up']
    known = {b'\x10\x63' + p: (kind, dest, rec) for kind, dest, rec, p in sends}
    for apdu, (kind, dest, rec) in known.items():
        got = collections.Counter(l[1] for l in ups if l[4] == apdu)
        want = collections.Counter(('s', n, m) for (n, m) in rec)
        if got != want:
            return dict(base, kind='burst-wrong-recipients', payload=apdu[2:].hex(), dest=_jsonable(dest), position=[p for _, _, _, p in sends].index(apdu[2:]),
                        got=sorted(map(str, got.elements())), want=sorted(map(str, want.elements())))
        for l in ups:
            if l[4] == apdu and I.strip_route(l[2]) != ('rs', snet, smac):
                return dict(base, kind='burst-wrong-source-shown', shown=str(l[2]))
    if any(l[4] not in known for l in ups):
        return dict(base, kind='burst-stray-delivery')
    return None


def rnd_burst(rng, topo, src, tag):
    """2..4 submissions from src toward one remote network: unicasts (same / different stations) and remote broadcasts"""
    snet = src[0]
    dn = rng.choice([n for n in topo.nets if n != snet])
    out = []
    for k in range(rng.randrange(2, 5)):
        payload = bytes([tag % 256, k, rng.randrange(256)])
        if rng.random() < 0.35:
            out.append(('remote-broadcast', ('rb', dn), [(dn, m) for m in topo.nets[dn]], payload))
        else:
            prev = [x[1][2] for x in out if x[0] == 'unicast-remote']
            m = rng.choice(prev) if prev and rng.random() < 0.4 else rng.choice(topo.nets[dn])
            out.append(('unicast-remote', ('rs', dn, m), [(dn, m)], payload))
    return out


def check_concurrent(topo, sends, limit=WATCHDOG):
    """a cold internetwork; several stations (typically at opposite ends of a multi-hop path) each hand one packet to
    their network layer in the same instant, before anything is delivered - so their path discoveries run
    concurrently and cross each other - then the internetwork runs: every payload must reach exactly its addressees,
    exactly once, showing its originator.  sends = [(src, kind, dest, recipients, payload)]"""
    net = build(topo)
    base = {'topology': topo.describe(),
            'concurrent': [[[s[0], s[1].hex()], k, _jsonable(d), p.hex()] for s, k, d, _, p in sends]}
    try:
        for src, kind, dest, rec, payload in sends:
            net.stations[src].send(dest, payload)
        remaining = I.drain_upto(limit)
    except Exception as x:
        I.reset_tasks()
        return dict(base, kind='concurrent-exception', exc=repr(x)[:200])
    if remaining:
        I.reset_tasks()
        return dict(base, kind='concurrent-no-termination')
    ups = [l for l in net.log if l[0] == 'up']
    known = {}
    for src, kind, dest, rec, payload in sends:
        known[b'\x10\x63' + payload] = (src, kind, dest, rec)
    for apdu, (src, kind, dest, rec) in known.items():
        got = collections.Counter(l[1] for l in ups if l[4] == apdu)
        want = collections.Counter(('s', n, m) for (n, m) in rec)
        if got != want:
            return dict(base, kind='concurrent-wrong-recipients', payload=apdu[2:].hex(), source=[src[0], src[1].hex()],
                        dest=_jsonable(dest), got=sorted(map(str, got.elements())), want=sorted(map(str, want.elements())))
        for l in ups:
            if l[4] == apdu and I.strip_route(l[2]) != ('rs', src[0], src[1]):
                return dict(base, kind='concurrent-wrong-source-shown', shown=str(l[2]))
    if any(l[4] not in known for l in ups):
        return dict(base, kind='concurrent-stray-delivery')
    return None


def line_topo(rng, k):
    """k routers in a line, k+1 networks, 1..2 stations each, random network numbers and station modes; MACs unique
    per LAN only (assign_macs)"""
    numbers = rng.sample(range(1, 60), k + 1)
    router_nets = []
    for i in range(k):
        ports = [numbers[i], numbers[i + 1]]
        rng.shuffle(ports)
        router_nets.append(ports)
    nstations = {n: rng.randrange(1, 3) for n in numbers}
    nets, routers, modes = assign_macs(rng, numbers, router_nets, nstations)
    return Topo(nets, routers, modes)


def rnd_concurrent(rng, topo, tag):
    """2..3 simultaneous senders; the first two sit on two networks as far apart as possible and send towards each
    other's network (unicast or remote broadcast), a third one anywhere towards any other network"""
    dist = topo.dist()
    nets = list(topo.nets)
    a, b = max(((x, y) for x in nets for y in nets if x != y), key=lambda xy: (dist[xy[0]][xy[1]], rng.random()))
    out = []

    def one(snet, dnet, k):
        src = (snet, rng.choice(topo.nets[snet]))
        payload = bytes([tag % 256, k, rng.randrange(256)])
        if rng.random() < 0.3:
            return (src, 'remote-broadcast', ('rb', dnet), [(dnet, m) for m in topo.nets[dnet]], payload)
        m = rng.choice(topo.nets[dnet])
        return (src, 'unicast-remote', ('rs', dnet, m), [(dnet, m)], payload)
    out.append(one(a, b, 0))
    out.append(one(b, a, 1))
    if rng.random() < 0.5:
        s3 = rng.choice(nets)
        d3 = rng.choice([n for n in nets if n != s3])
        third = one(s3, d3, 2)
        if third[0] not in [o[0] for o in out]:      # one packet per sender in the same instant
            out.append(third)
    rng.shuffle(out)
    return out


def do_numbering(net, topo, spec):
    """the internetwork distributes its network numbers.  spec['how'] == 'routers': every router announces the numbers
    of its ports (nse.network_number_is()); 'ask': the listed stations ask (What-Is-Network-Number broadcast on their
    LAN), the routers answer at once and, with spec['tick'], the answer timer of the configured stations runs out too.
    Returns the number of frames still in flight (0 = quiet)."""
    if spec['how'] == 'routers':
        for r in net.routers:
            r.nse.network_number_is()
    else:
        for n, mh in spec['askers']:
            st = net.stations[(n, bytes.fromhex(mh))]
            st.nse.what_is_network_number(st.adapters[0])
    rem = I.drain_upto(WATCHDOG)
    if spec.get('tick') and not rem:
        I.NOW[0] += TIMER
        rem = I.drain_upto(WATCHDOG)
    return rem


def numbered_lans(topo, spec):
    router_lans = {n for ports in topo.routers for n, _ in ports}
    if spec['how'] == 'routers':
        return router_lans
    return {n for n, _ in spec['askers']} & router_lans


def rnd_numbering(rng, topo, t):
    keys = list(topo.station_ids)
    unnumbered = [k for k in keys if topo.modes.get(k, 'net') != 'net']
    if t % 3 == 0 or not unnumbered:
        return {'how': 'routers'}
    askers = rng.sample(unnumbered, rng.randrange(1, len(unnumbered) + 1))
    if rng.random() < 0.3:
        askers.append(rng.choice(keys))
    return {'how': 'ask', 'askers': sorted({(n, m.hex()) for n, m in askers}), 'tick': rng.random() < 0.5}


def check_numbering_history(rng, topo, spec, at, nsend, tag, installed=False):
    """traffic on a tree in the course of which (before send number `at`) the network numbers are distributed: stations
    that were bound without a number learn it (their adapter is re-filed under the number, their cache too).  Every
    send before and after must still reach exactly its addressees exactly once showing the originator, replies
    included; from then on the stations of the announced LANs may also address their own network by number."""
    net = build(topo)
    if installed:
        net.installed = True
        for e in warm_events(topo):
            node_of(net, topo, e[1]).learn(e[2], e[3], e[4])
    keys = list(topo.station_ids)
    learned = set()
    n_eval = 0
    favourite = ('global-broadcast', 'remote-broadcast-own-net', 'unicast-own-net-remote-form', 'local-broadcast')
    for k in range(nsend):
        if k == at:
            net.numbering = dict(spec, at=len(getattr(net, 'history', None) or []), askers=[list(a) for a in spec.get('askers', [])])
            try:
                rem = do_numbering(net, topo, spec)
            except Exception as x:
                I.reset_tasks()
                return dict(topology=topo.describe(), numbering=net.numbering, kind='numbering-exception', exc=repr(x)[:200]), n_eval
            if rem:
                I.reset_tasks()
                return dict(topology=topo.describe(), numbering=net.numbering, kind='numbering-no-termination'), n_eval
            lans = numbered_lans(topo, spec)
            learned = {key for key in keys if key[0] in lans}
        fresh = [key for key in learned if topo.modes.get(key, 'net') != 'net']
        src = rng.choice(fresh) if fresh and rng.random() < 0.6 else rng.choice(keys)
        dests = all_dests(topo, src, learned)
        fav = [d for d in dests if d[0] in favourite]
        kind, dest, rec = rng.choice(fav) if fav and rng.random() < 0.5 else rng.choice(dests)
        f = check_send(net, topo, src, kind, dest, rec, bytes([tag % 256, k, 0x9b]))
        n_eval += 1
        if f is not None:
            return f, n_eval
    return None, n_eval


def check_router_app_origin(topo, ri, dest, payload):
    """the application on router ri sends; every recipient replies to the source it was shown; the replies must
    reach the router application (reply-routability clause with a router-resident originator)"""
    net = build(topo)
    apdu = b'\x10\x63' + payload
    base = {'topology': topo.describe(), 'router': ri, 'dest': _jsonable(dest), 'payload': payload.hex()}
    try:
        net.routers[ri].send(dest, payload)
        if I.drain_upto(WATCHDOG):
            I.reset_tasks()
            return [dict(base, kind='router-app-no-termination')]
    except Exception as x:
        I.reset_tasks()
        return [dict(base, kind='router-app-exception', exc=repr(x)[:200])]
    ups = [l for l in net.log if l[0] == 'up' and l[4] == apdu]
    fails = []
    local = net.routers[ri].nsap.local_adapter.adapterNet
    for k, l in enumerate(ups):
        if l[1][0] != 's':
            continue
        del net.log[:]
        rp = b'\x10\x63' + bytes([0xee, k]) + payload
        try:
            net.stations[(l[1][1], l[1][2])].send(l[2], rp[2:])
            if I.drain_upto(WATCHDOG):
                I.reset_tasks()
                fails.append(dict(base, kind='router-app-reply-no-termination', replier=str(l[1])))
                break
        except Exception as x:
            I.reset_tasks()
            fails.append(dict(base, kind='router-app-exception', exc=repr(x)[:200]))
            break
        got = [u[1] for u in net.log if u[0] == 'up' and u[4] == rp]
        if got != [('r', ri)]:
            fails.append(dict(base, kind='reply-to-router-application-lost', replier=[l[1][1], l[1][2].hex()], shown=str(l[2]),
                              got=[str(g) for g in got], router_local_network=local,
                              shown_names_non_local_port=_names_non_local_port(topo, ri, local, l[1][1], l[2])))
    return fails


def direct(rng, tier, focus=()):
    failures, samples = [], []
    hist = collections.Counter()
    n_eval = 0
    nontriv = set()
    big = tier == 'thorough'

    def note(f):
        if f is not None:
            failures.append(f)

    # --- trees, twice: with settings.route_aware off (default) and on (the source shown then carries the route, and
    #     a reply to it takes the route-aware branch of NetworkServiceAccessPoint.indication)
    for ra in (False, True):
      with I.RouteAware(ra):
        before = len(failures)
        tag = '/route-aware' if ra else ''
        # --- trees: every (source, kind, destination), cold start, caches warming as traffic flows
        for t in range(_n((160 if big else 36) // (2 if ra else 1))):
            topo = rnd_tree(rng, 8 if t % 2 == 0 else 5)
            triples = [(src, kind, dest, rec) for src in topo.station_ids for (kind, dest, rec) in all_dests(topo, src)]
            rng.shuffle(triples)
            net = build(topo)
            budget = len(triples) if big or t < 8 else 60
            for k, (src, kind, dest, rec) in enumerate(triples[:budget]):
                f = check_send(net, topo, src, kind, dest, rec, bytes([t % 256, k % 256, k // 256]))
                n_eval += 1
                hist[kind + ('/cold' if k == 0 else '/warming') + tag] += 1
                nontriv.add((ra, t, k))
                note(f)
                if f is not None:
                    break
            # cold: each on a fresh internetwork
            for k, (src, kind, dest, rec) in enumerate(triples[:40 if big else 10]):
                net = build(topo)
                note(check_send(net, topo, src, kind, dest, rec, bytes([t % 256, k, 0xcc])))
                n_eval += 1
                hist[kind + '/cold' + tag] += 1
                nontriv.add((ra, t, 'cold', k))
            # installed (correct) caches
            net = build(topo)
            net.installed = True
            for e in warm_events(topo):
                node_of(net, topo, e[1]).learn(e[2], e[3], e[4])
            for k, (src, kind, dest, rec) in enumerate(triples[:40 if big else 12]):
                note(check_send(net, topo, src, kind, dest, rec, bytes([t % 256, k, 0xaa])))
                n_eval += 1
                hist[kind + '/installed' + tag] += 1
                nontriv.add((ra, t, 'warm', k))
            if t == 0:
                samples.append({'direct': 'tree', 'topology': topo.describe(), 'combinations': len(triples)})
        for f in failures[before:]:
            f['route_aware'] = ra
    # --- bursts on cold trees: several packets for one remote network handed down before the path is known
    for t in range(_n(400 if big else 60)):
        topo = rnd_tree(rng, 6 if t % 2 else 3)
        srcs = list(topo.station_ids)
        # stations that were never told their network number first, then one that was
        srcs.sort(key=lambda k: {'none': 0, 'addr': 1, 'net': 2}[topo.modes.get(k, 'net')])
        picked = [srcs[0], srcs[-1]] if len(srcs) > 1 else srcs
        for src in picked + [rng.choice(srcs)]:
            f = check_burst(topo, src, rnd_burst(rng, topo, src, t))
            n_eval += 1
            hist['burst/' + topo.modes.get(src, 'net')] += 1
            nontriv.add(('burst', t, src))
            note(f)
    # --- concurrent discovery: stations at opposite ends of a multi-hop path start at the same instant, cold
    for t in range(_n(600 if big else 90)):
        if t % 3 != 2:
            topo = line_topo(rng, 2 + t % 3 + (t // 3) % 2)          # lines of 2..4 routers
        else:
            topo = rnd_tree(rng, 6)
            if len(topo.routers) < 2:
                topo = line_topo(rng, 2)
        f = check_concurrent(topo, rnd_concurrent(rng, topo, t))
        n_eval += 1
        hist['concurrent/' + ('line' if t % 3 != 2 else 'tree')] += 1
        nontriv.add(('concurrent', t))
        note(f)
    # --- warm one way, cold the other way: traffic from one end first (the routers learn the way back from its
    #     SADR), then every still-cold station of the far network sends towards that end.  MACs are unique per LAN only,
    #     so the cold sender routinely has the same MAC value as some router port elsewhere on the path.
    for t in range(_n(400 if big else 60)):
        topo = line_topo(rng, 2 + t % 3) if t % 2 == 0 else rnd_tree(rng, 6)
        if len(topo.routers) < 2:
            topo = line_topo(rng, 2)
        dist = topo.dist()
        nets_ = list(topo.nets)
        a, b = max(((x, y) for x in nets_ for y in nets_ if x != y), key=lambda xy: (dist[xy[0]][xy[1]], rng.random()))
        net = build(topo)
        first = (b, rng.choice(topo.nets[b]))
        tgt0 = rng.choice(topo.nets[a])
        seq = [(first, 'unicast-remote', ('rs', a, tgt0), [(a, tgt0)])]
        for m in topo.nets[a]:
            if rng.random() < 0.3:
                seq.append(((a, m), 'remote-broadcast', ('rb', b), [(b, x) for x in topo.nets[b]]))
            else:
                x = rng.choice(topo.nets[b])
                seq.append(((a, m), 'unicast-remote', ('rs', b, x), [(b, x)]))
        for k, (src, kind, dest, rec) in enumerate(seq):
            f = check_send(net, topo, src, kind, dest, rec, bytes([t % 256, k, 0x3c]), reply=(k > 0))
            n_eval += 1
            hist['one-way-warm/' + kind] += 1
            nontriv.add(('oneway', t, k))
            note(f)
            if f is not None:
                break
    # --- an application that lives on a router
    for t in range(_n(40 if big else 10)):
        topo = rnd_tree(rng, 5, apps=True)
        ri = topo.apps[0]
        n2 = rng.choice(list(topo.nets))
        for dest in [('gb',), ('rb', n2), ('rs', n2, topo.nets[n2][0])]:
            fs = check_router_app_origin(topo, ri, dest, bytes([t, 0x77]))
            failures.extend(fs)
            n_eval += 1
            hist['router-application/' + dest[0]] += 1
            nontriv.add(('rapp', t, dest[0]))
    # --- hop count exhaustion on chains
    for k in (1, 2, 3, 5):
        for h in (0, 1, 2, 3, 4, 255):
            note(check_hop_exhaustion(rng, k, h))
            n_eval += 1
            hist['hop-chain'] += 1
            nontriv.add(('hop', k, h))
    # --- cycles: termination (and bounded duplication) only
    for t in range(_n(20 if big else 8)):
        topo = ring(rng, 3 + t % 2, tail=(t % 3 == 0))
        for variant in ('cold-discovery', 'cold-broadcasts', 'installed'):
            net = build(topo)
            if variant == 'installed':
                for e in warm_events(topo):
                    node_of(net, topo, e[1]).learn(e[2], e[3], e[4])
            triples = [(src, kind, dest, rec) for src in topo.station_ids for (kind, dest, rec) in all_dests(topo, src)]
            rng.shuffle(triples)
            if variant == 'cold-discovery':    # path discovery on a cold cycle first
                triples.sort(key=lambda x: 0 if x[1] in ('unicast-remote', 'remote-broadcast') else 1)
            elif variant == 'cold-broadcasts':  # no discovery involved: SADR check and hop count must stop these
                triples.sort(key=lambda x: 0 if x[1] in ('global-broadcast', 'local-broadcast', 'unicast-local') else 1)
            for k, (src, kind, dest, rec) in enumerate(triples[:10]):
                f = check_send(net, topo, src, kind, dest, rec, bytes([t, k, 0x55]), limit=WATCHDOG)
                n_eval += 1
                hist['ring-' + variant + '/' + kind] += 1
                nontriv.add(('ring', t, variant, k))
                note(f)
                if f is not None and f['kind'] == 'no-termination':
                    break       # the storm poisons this instance; next one
    # --- per-node clauses
    note_list = []
    note_list += node_checks(*BACK_VIA_CACHE)
    n_eval += 1
    for ports, app, ev in grid_scripts()[::3]:
        note_list += node_checks(ports, app, ev)
        n_eval += 1
    for _ in range(_n(15000 if big else 3000)):
        ports, app, ev = rnd_script(rng)
        note_list += node_checks(ports, app, ev)
        n_eval += 1
        nontriv.add(('node', repr(ev)))
    hist['node-clauses'] += n_eval
    failures += note_list
    # --- numbering histories: the network numbers are announced (routers) or asked for (stations) before or in the
    #     middle of the traffic; stations bound without a number learn it and go on sending
    for t in range(_n(200 if big else 40)):
        topo = rnd_tree(rng, 6 if t % 2 else 4)
        spec = rnd_numbering(rng, topo, t)
        ra = (t % 4 == 3)
        with I.RouteAware(ra):
            f, ne = check_numbering_history(rng, topo, spec, rng.choice([0, 0, 1, 3]), 14 if big else 10, t, installed=(t % 5 == 4))
        n_eval += ne
        hist['numbering/' + spec['how'] + ('+timer' if spec.get('tick') else '')] += ne
        nontriv.add(('numbering', t))
        if f is not None:
            f['route_aware'] = ra
            failures.append(f)
    for d in focus:
        if isinstance(d, dict) and d.get('op') == 'node-script':
            ports = [(n, None if m is None else bytes.fromhex(m)) for n, m in d['ports']]
            failures += node_checks(ports, d['has_app'], [_unjson(e) for e in d['events']])
        elif isinstance(d, dict) and d.get('op') == 'world-script':
            topo = Topo.from_desc(d['topology'])
            net = build(topo)
            inv = {v: k for k, v in topo.station_ids.items()}
            for k, e in enumerate(_unjson(x) for x in d['events']):
                if e[0] == 'send' and e[1] in inv:
                    for kind, dest, rec in all_dests(topo, inv[e[1]]):
                        if dest == e[2]:
                            note(check_send(net, topo, inv[e[1]], kind, dest, rec, bytes(e[3])))
                elif e[0] == 'learn':
                    node_of(net, topo, e[1]).learn(e[2], e[3], e[4])
    return failures, {'evaluations': n_eval, 'distinct_nontrivial': len(nontriv), 'exhaustive': False,
                      'histogram': dict(hist), 'samples': samples}


def classify(f):
    k = f.get('kind', '')
    if k.endswith('no-termination') and f.get('cyclic') and f.get('looping_only_router_discovery'):
        return 'C06-ring-discovery-storm'
    if k == 'forwarded-back-onto-arrival-network' and f.get('next_hop_cached_on_arrival_network'):
        return 'C06-back-via-cached-router'
    if k == 'reply-to-router-application-lost' and f.get('shown_names_non_local_port') and not f.get('got'):
        return 'C06-router-application-unreachable-on-other-ports'
    return None


def replay(payload):
    f = payload.get('failure') or (payload.get('broken') or [{}])[0].get('minimal_case', {}).get('desc', {})
    print('replay', str(f)[:1500])
    with I.RouteAware(bool(f.get('route_aware'))):
        _replay(f)


def _replay(f):
    if f.get('op') == 'node-xscript':
        ports = [(n, None if m is None else bytes.fromhex(m)) for n, m in f['ports']]
        print('implementation:', impl_xscript(ports, f['has_app'], [_unjson(e) for e in f['events']]))
    elif 'events' in f and 'ports' in f:
        ports = [(n, None if m is None else bytes.fromhex(m)) for n, m in f['ports']]
        ev = [_unjson(e) for e in f['events']]
        print('implementation:', impl_script(ports, f['has_app'], ev))
        print('node clauses  :', [x['kind'] for x in node_checks(ports, f['has_app'], ev)])
    elif 'reply_to' in f:
        # a failing reply: replay the request it answers, the reply is sent again as part of it
        _replay(f['reply_to'])
    elif 'topology' in f and 'source' in f and 'concurrent' not in f and 'burst' not in f:
        topo = Topo.from_desc(f['topology'])
        net = build(topo)
        if f.get('installed_caches'):
            for e in warm_events(topo):
                node_of(net, topo, e[1]).learn(e[2], e[3], e[4])
        numb = f.get('numbering')
        for idx, (hs, hd, hp) in enumerate(f.get('history', [])):
            if numb and numb.get('at') == idx:
                do_numbering(net, topo, numb)
            net.stations[(hs[0], bytes.fromhex(hs[1]))].send(_unjson(hd), bytes.fromhex(hp))
            if I.drain_upto(WATCHDOG):
                I.reset_tasks()
        if numb and numb.get('at', 0) >= len(f.get('history', [])):
            do_numbering(net, topo, numb)
        src = (f['source'][0], bytes.fromhex(f['source'][1]))
        dest = _unjson(f['dest'])
        learned = set()
        if numb:
            lans = numbered_lans(topo, numb)
            learned = {key for key in topo.station_ids if key[0] in lans}
        for kind, d, rec in all_dests(topo, src, learned) + [('reply', dest, [])]:
            if d == dest:
                print('implementation:', check_send(net, topo, src, kind, dest, rec, bytes.fromhex(f['payload'])))
                break
    elif 'topology' in f and 'events' in f:
        topo = Topo.from_desc(f['topology'])
        print('implementation:', impl_world(topo, [_unjson(e) for e in f['events']])[0][:400])
    elif f.get('kind', '').startswith('numbering-'):
        topo = Topo.from_desc(f['topology'])
        net = build(topo)
        print('implementation: frames left in flight after numbering:', do_numbering(net, topo, f['numbering']))
    elif 'concurrent' in f and 'topology' in f:
        topo = Topo.from_desc(f['topology'])
        sends = []
        for src, k, d, p in f['concurrent']:
            d = _unjson(d)
            rec = [(d[1], m) for m in topo.nets[d[1]]] if d[0] == 'rb' else [(d[1], d[2])]
            sends.append(((src[0], bytes.fromhex(src[1])), k, d, rec, bytes.fromhex(p)))
        print('implementation:', check_concurrent(topo, sends))
    elif 'burst' in f and 'topology' in f:
        topo = Topo.from_desc(f['topology'])
        src = (f['source'][0], bytes.fromhex(f['source'][1]))
        sends = []
        for k, d, p in f['burst']:
            d = _unjson(d)
            rec = [(d[1], m) for m in topo.nets[d[1]]] if d[0] == 'rb' else [(d[1], d[2])]
            sends.append((k, d, rec, bytes.fromhex(p)))
        print('implementation:', check_burst(topo, src, sends))
    elif 'router' in f and 'topology' in f:
        topo = Topo.from_desc(f['topology'])
        print('implementation:', check_router_app_origin(topo, f['router'], _unjson(f['dest']), bytes.fromhex(f['payload'])))
    elif 'chain' in f:
        import random
        print('implementation:', check_hop_exhaustion(random.Random(0), f['chain'], f['hop']))
