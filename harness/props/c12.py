"""C12 — what is sent respects what the peer said it can accept."""
import ssm_common as S
import ssm_c11c12 as X

PROP = 'C12'
COQ_TARGETS = ['theories/SsmFacts.vo', 'theories/SsmC12.vo', 'theories/SsmDevInfo.vo', 'theories/SsmDevInfoFacts.vo']
COQ_IMPORTS = 'From Bac Require Import Base Ssm SsmWorld SsmDevInfo.'
RULE = ('cases: fault-free transactions over pairs of local and peer capabilities (max-APDU in the six standard sizes, max-segments '
        '{unspecified,2,4,...,64,>64}, the four segmentation values on each side, proposed windows {1,2,8,127}, peer data known from '
        'I-Am / unknown / out of date, max-NPDU known or not) with request and response lengths around every boundary these induce; a '
        'raw peer proposing / acknowledging windows 0, 1, 2, 127, 128, 200, 255; a raw peer that acknowledges a segmented response (or request) '
        'of a real node with a window that changes from ack to ack (1..8, shrinking and growing), acknowledging a number still inside the new window; I-Am PDUs arriving mid-history (reduced / enlarged capabilities while a transaction with that peer is open, '
        'then requests sized between the old and the new limits); records of the client that contradict the SA bit of its request, or carry a max-segments figure off the 2,4,8.. grid and different from the one in the request; '
        'a peer recorded as transmit-only that sends us a segmented request before we send it an oversized one; nodes built as app.Application around a caller-supplied DeviceInfoCache (empty at construction, '
        'records and later I-Ams arriving through the caller\'s handle) with requests sized around the limits of the record; histories of I-Am / acquire / release / Application construction on the bare DeviceInfoCache '
        '(same instance at a new address, new instance at a known address, repeated I-Ams with other limits).  Compared: the whole canonical trace, which '
        'includes the encoded length of every APDU, the segmentation flags and the window fields.  non-trivial = at least one frame; '
        'distinct by scenario.')
TRUSTED = S.TRUSTED
ASSUMPTIONS = S.ASSUMPTIONS


def cases(rng, tier):
    out = []
    for i in range(6000 if tier == 'thorough' else 450):
        out.append(S.scenario_case(S.gen_capability(rng, big=(tier == 'thorough' or i % 6 == 0)), 'capability'))
    for _ in range(400 if tier == 'thorough' else 80):
        out.append(S.scenario_case(S.gen_forged_window(rng), 'forged-window'))
    for _ in range(300 if tier == 'thorough' else 60):
        out.append(S.scenario_case(S.gen_scripted_windows(rng), 'scripted-windows'))
    for _ in range(400 if tier == 'thorough' else 60):
        out.append(S.scenario_case(S.gen_iam(rng), 'iam-mid-history'))
    for _ in range(400 if tier == 'thorough' else 60):
        out.append(S.scenario_case(S.gen_sa_mismatch(rng), 'record-vs-request'))
    for _ in range(300 if tier == 'thorough' else 40):
        out.append(S.scenario_case(S.gen_record_maxsegs(rng), 'record-max-segments'))
    for _ in range(300 if tier == 'thorough' else 40):
        out.append(S.scenario_case(S.gen_bidir_records(rng), 'peer-segments-to-us'))
    for _ in range(300 if tier == 'thorough' else 40):
        out.append(X.scenario_case2(X.gen_app_cache(rng), 'cache-through-application'))
    out += X.cache_cases(rng, 1500 if tier == 'thorough' else 120)
    return out


def direct(rng, tier, focus=()):
    big = tier == 'thorough'
    fams = [('capability', lambda r: S.gen_capability(r), 100000 if big else 4000),
            ('forged-window', lambda r: S.gen_forged_window(r), 3000 if big else 300),
            ('scripted-windows', lambda r: S.gen_scripted_windows(r), 2000 if big else 200),
            ('iam-mid-history', lambda r: S.gen_iam(r), 6000 if big else 600),
            ('record-vs-request', lambda r: S.gen_sa_mismatch(r), 4000 if big else 400),
            ('record-max-segments', lambda r: S.gen_record_maxsegs(r), 5000 if big else 500),
            ('peer-segments-to-us', lambda r: S.gen_bidir_records(r), 4000 if big else 400),
            ('transaction', lambda r: S.gen_transaction(r, big=r.random() < 0.2), 10000 if big else 1000)]
    failures, stats = S.direct_families(rng, fams, lambda tr: S.check_c12(tr) + [x for x in S.check_c05(tr) if x['kind'] == 'window-exceeded'], focus)
    failures.extend(S.known_replays('C12', S.check_c12))
    f2, stats = X.direct_families2(rng, [('cache-through-application', lambda r: X.gen_app_cache(r), 4000 if big else 400)], S.check_c12, stats)
    failures.extend(f2)
    # the DeviceInfoCache class alone; histories in which no two devices claim one address (see docs/C12.md)
    nh = 0
    for _ in range(20000 if big else 2000):
        ops = [o for o in X.gen_cache_history(rng) if o[0] != 'iam' or o[2] in (o[1], o[1] + 10)]
        failures.extend(X.check_cache_history(ops))
        nh += 1
    import core as _core
    for e in _core.load_findings('C12'):
        kops = ((e.get('replay') or {}).get('failure') or {}).get('ops')
        if e.get('status') == 'known' and kops:
            failures.extend(X.check_cache_history(kops))
    stats['evaluations'] += nh
    stats['cache_histories'] = nh
    return failures, stats


def classify(f):
    k = f.get('kind')
    if k in ('cache-exception', 'record-is-not-the-latest-iam', 'acquire-is-not-the-latest-iam'):
        # known: two device instances announced from one address leave orphaned keys behind (KeyError on a later move)
        if (k != 'cache-exception' or f.get('class') == 'KeyError') and X.address_shared(f.get('ops') or [], f.get('at')):
            return 'C12-K5'
        return None
    if k == 'apdu-longer-than-peer-max':
        # known: the payload slice is cut to the peer's maximum and the 3..6 octet header comes on top
        if f.get('payload_len', 10 ** 9) <= f.get('limit', 0) and f.get('enc_len', 0) - f.get('payload_len', 0) <= 6:
            return 'C12-K1'
        # known: a transaction created before any record of the peer existed never picks one up (looked up once, in SSM.__init__)
        if not f.get('resp_dir') and f.get('no_record_at_submit'):
            return 'C12-K4'
        # known: a response is sized by the I-Am value when that is larger than the request's own limit
        if f.get('resp_dir') and f.get('sender_iam_value') is not None and f['sender_iam_value'] > f.get('limit', 0) \
                and f.get('enc_len', 0) <= f['sender_iam_value'] + 6:
            return 'C12-K3'
        return None
    if k in ('window-out-of-range', 'window-larger-than-proposed'):
        # known: window sizes taken from the wire are used unchecked: only when a raw peer put 0 or > 127 on the wire
        spec = f.get('spec', {})
        forged = [i['frame'].get('win') for i in spec.get('inject') or [] if isinstance(i.get('frame'), dict)]
        if any(w is not None and not (1 <= w <= 127) for w in forged) and f.get('win') in forged:
            return 'C12-K2'
        return None
    return None


def replay(payload):
    ops = (payload.get('failure') or {}).get('ops')
    if ops:
        print('DeviceInfoCache history:', ops)
        print('implementation:', X.run_cache_history(ops))
        for x in X.check_cache_history(ops):
            print('  FAIL', {k: v for k, v in x.items() if k != 'ops'})
        return
    X.replay2(payload, S.check_c12, 'C12')
